//! C34 — scalar values, arrays and casts are mutually consistent.
//!
//! Correspondence (equality with the Lean model `Base/ScalarModel.lean`) for the modelled
//! variants: Null, Boolean, (U)Int8..64, Utf8/LargeUtf8/Utf8View, Binary/LargeBinary/BinaryView,
//! FixedSizeBinary, Date32/64, Time32/64, Timestamp(unit, tz), Duration(unit), Decimal32/64/128/256,
//! Dictionary(int key, primitive), List(primitive), Struct(primitive fields):
//!   rt    to_array_of_size(n) -> try_from_array(i)
//!   iter  iter_to_array(scalars) -> try_from_array(i) for every i
//!   cmp   partial_cmp            eq   PartialEq
//!   sort  engine sort (arrow sort_to_indices asc, nulls first) of iter_to_array(scalars)
//!   cast  ScalarValue::cast_to_with_options         (scalar path, with DataFusion's fast paths)
//!   casta ColumnarValue::Array(one element).cast_to (engine array path)
//! Implementation-level oracles over EVERY variant the generator builds (also floats, intervals,
//! Large/FixedSize/View lists, nested lists, maps, unions, REE, dictionaries):
//!   round trip, iter round trip, eq => hash eq, order laws + agreement with the engine sort,
//!   scalar cast == array cast (ColumnarValue path and raw arrow kernel) for every
//!   (variant, target) pair `can_cast_types` accepts.
use std::cmp::Ordering;
use std::collections::BTreeSet;
use std::hash::{Hash, Hasher};
use std::sync::Arc;

use arrow::array::*;
use arrow::buffer::{NullBuffer, OffsetBuffer, ScalarBuffer};
use arrow::compute::{CastOptions, SortOptions, can_cast_types, cast_with_options, sort_to_indices};
use arrow::datatypes::*;
use arrow::util::display::FormatOptions;
use datafusion_common::ScalarValue;
use datafusion_common::scalar::ScalarStructBuilder;
use datafusion_expr_common::columnar_value::ColumnarValue;
use hutil::{Args, Rng, Run, hex};

// ------------------------------------------------------------------------------------------
// export: ScalarValue / DataType -> model s-expression (None = outside the model)
// ------------------------------------------------------------------------------------------

fn unit(u: &TimeUnit) -> &'static str {
    match u {
        TimeUnit::Second => "s",
        TimeUnit::Millisecond => "ms",
        TimeUnit::Microsecond => "us",
        TimeUnit::Nanosecond => "ns",
    }
}

fn prim_ty(dt: &DataType) -> Option<String> {
    Some(match dt {
        DataType::Null => "null".into(),
        DataType::Boolean => "bool".into(),
        DataType::Int8 => "i8".into(),
        DataType::Int16 => "i16".into(),
        DataType::Int32 => "i32".into(),
        DataType::Int64 => "i64".into(),
        DataType::UInt8 => "u8".into(),
        DataType::UInt16 => "u16".into(),
        DataType::UInt32 => "u32".into(),
        DataType::UInt64 => "u64".into(),
        DataType::Utf8 => "utf8".into(),
        DataType::LargeUtf8 => "lutf8".into(),
        DataType::Utf8View => "utf8v".into(),
        DataType::Binary => "bin".into(),
        DataType::LargeBinary => "lbin".into(),
        DataType::BinaryView => "binv".into(),
        DataType::FixedSizeBinary(n) => format!("(fsb {n})"),
        DataType::Date32 => "date32".into(),
        DataType::Date64 => "date64".into(),
        DataType::Time32(u @ (TimeUnit::Second | TimeUnit::Millisecond)) => format!("(time32 {})", unit(u)),
        DataType::Time64(u @ (TimeUnit::Microsecond | TimeUnit::Nanosecond)) => format!("(time64 {})", unit(u)),
        DataType::Timestamp(u, tz) => format!(
            "(ts {} {})",
            unit(u),
            match tz {
                None => "-".to_string(),
                Some(t) => hex(t.as_bytes()),
            }
        ),
        DataType::Duration(u) => format!("(dur {})", unit(u)),
        DataType::Decimal32(p, s) => format!("(dec 32 {p} {s})"),
        DataType::Decimal64(p, s) => format!("(dec 64 {p} {s})"),
        DataType::Decimal128(p, s) => format!("(dec 128 {p} {s})"),
        DataType::Decimal256(p, s) => format!("(dec 256 {p} {s})"),
        _ => return None,
    })
}

fn is_std_item(f: &Field) -> bool {
    f.name() == "item" && f.is_nullable() && f.metadata().is_empty()
}

fn ty_sexp(dt: &DataType) -> Option<String> {
    if let Some(p) = prim_ty(dt) {
        return Some(p);
    }
    Some(match dt {
        DataType::Dictionary(k, v) if k.is_integer() => format!("(dict {} {})", prim_ty(k)?, prim_ty(v)?),
        DataType::List(f) if is_std_item(f) => format!("(list {})", prim_ty(f.data_type())?),
        DataType::Struct(fs) => {
            let mut s = String::from("(struct");
            for f in fs.iter() {
                if !f.is_nullable() || !f.metadata().is_empty() {
                    return None;
                }
                s.push_str(&format!(" ({} {})", hex(f.name().as_bytes()), prim_ty(f.data_type())?));
            }
            s.push(')');
            s
        }
        _ => return None,
    })
}

/// value part of a primitive scalar
fn prim_val(s: &ScalarValue) -> Option<String> {
    use ScalarValue::*;
    fn o<T: ToString>(v: &Option<T>) -> String {
        match v {
            None => "null".into(),
            Some(x) => x.to_string(),
        }
    }
    Some(match s {
        Null => "null".into(),
        Boolean(v) => match v {
            None => "null".into(),
            Some(true) => "t".into(),
            Some(false) => "f".into(),
        },
        Int8(v) => o(v),
        Int16(v) => o(v),
        Int32(v) => o(v),
        Int64(v) => o(v),
        UInt8(v) => o(v),
        UInt16(v) => o(v),
        UInt32(v) => o(v),
        UInt64(v) => o(v),
        Utf8(v) | LargeUtf8(v) | Utf8View(v) => match v {
            None => "null".into(),
            Some(x) => hex(x.as_bytes()),
        },
        Binary(v) | LargeBinary(v) | BinaryView(v) | FixedSizeBinary(_, v) => match v {
            None => "null".into(),
            Some(x) => hex(x),
        },
        Date32(v) | Time32Second(v) | Time32Millisecond(v) => o(v),
        Date64(v) | Time64Microsecond(v) | Time64Nanosecond(v) => o(v),
        TimestampSecond(v, _) | TimestampMillisecond(v, _) | TimestampMicrosecond(v, _) | TimestampNanosecond(v, _) => o(v),
        DurationSecond(v) | DurationMillisecond(v) | DurationMicrosecond(v) | DurationNanosecond(v) => o(v),
        Decimal32(v, _, _) => o(v),
        Decimal64(v, _, _) => o(v),
        Decimal128(v, _, _) => o(v),
        Decimal256(v, _, _) => o(v),
        _ => return None,
    })
}

fn val_sexp(s: &ScalarValue) -> Option<String> {
    if let Some(v) = prim_val(s) {
        return Some(v);
    }
    match s {
        ScalarValue::Dictionary(_, inner) => prim_val(inner),
        ScalarValue::List(arr) => {
            if arr.len() != 1 {
                return None;
            }
            if arr.is_null(0) {
                return Some("null".into());
            }
            let vals = arr.value(0);
            let mut out = vec![];
            for i in 0..vals.len() {
                out.push(prim_val(&ScalarValue::try_from_array(&vals, i).ok()?)?);
            }
            Some(format!("({})", out.join(" ")))
        }
        ScalarValue::Struct(arr) => {
            if arr.len() != 1 {
                return None;
            }
            if arr.is_null(0) {
                return Some("null".into());
            }
            let mut out = vec![];
            for c in arr.columns() {
                out.push(prim_val(&ScalarValue::try_from_array(c, 0).ok()?)?);
            }
            Some(format!("({})", out.join(" ")))
        }
        _ => None,
    }
}

fn scalar_sexp(s: &ScalarValue) -> Option<String> {
    Some(format!("({} {})", ty_sexp(&s.data_type())?, val_sexp(s)?))
}

/// strict identity of two scalars: PartialEq ignores time zones / FixedSizeBinary widths, so
/// compare the data type and the Debug text too.
fn same(a: &ScalarValue, b: &ScalarValue) -> bool {
    a == b && a.data_type() == b.data_type() && dbg_logical(a) == dbg_logical(b)
}

fn show_res(r: &Result<ScalarValue, String>) -> String {
    match r {
        Ok(s) => scalar_sexp(s).unwrap_or_else(|| format!("unexportable:{}", s.data_type())),
        Err(e) => e.clone(),
    }
}

fn err_class(msg: &str) -> String {
    if msg.starts_with("panic") { "err:panic".into() } else { "err".into() }
}

// ------------------------------------------------------------------------------------------
// generators
// ------------------------------------------------------------------------------------------

const TZS: [Option<&str>; 4] = [None, Some("+00:00"), Some("UTC"), Some("+07:00")];

fn int_bounds(bits: u32, signed: bool) -> (i128, i128) {
    if signed { (-(1i128 << (bits - 1)), (1i128 << (bits - 1)) - 1) } else { (0, (1i128 << bits) - 1) }
}

fn gen_int(rng: &mut Rng, bits: u32, signed: bool) -> i128 {
    let (lo, hi) = int_bounds(bits, signed);
    match rng.below(10) {
        0 => lo,
        1 => hi,
        2 => 0,
        3 => 1.min(hi),
        4 => if signed { -1 } else { hi - 1 },
        5 => lo + 1,
        6 => *rng.pick(&[127i128, 128, 255, 256, 32767, 32768, 65535, 65536, 2147483647, 2147483648, 4294967295, 4294967296, 86_400_000, 9_223_372_036_854_775, 9_223_372_036_855, 106_751_991_168, 1_000_000_007]).min(&hi),
        7 => (-*rng.pick(&[128i128, 129, 32768, 32769, 2147483648, 2147483649, 86_400_001, 9_223_372_036_854_776, 999])).max(lo),
        _ => {
            let span = (hi - lo + 1) as u128;
            let r = ((rng.next() as u128) << 64 | rng.next() as u128) % span;
            // bias to small magnitudes half of the time
            if rng.chance(1, 2) { (lo + r as i128).clamp(-1000.max(lo), 1000.min(hi)) + 0 } else { lo + r as i128 }
        }
    }
}

const STRS: [&str; 28] = [
    "", "a", "ab", "b", "A", "\u{e9}", "\u{4e2d}\u{6587}", "0", "-0", "+7", "-5", "12", " 12", "12 ", "007", "1.5", "1e3", "abc", "127", "128", "-128",
    "-129", "255", "256", "65536", "4294967296", "9223372036854775807", "9223372036854775808",
];

fn gen_str(rng: &mut Rng) -> String {
    if rng.chance(1, 8) {
        let n = rng.below(30) as usize;
        (0..n).map(|_| (b'a' + rng.below(4) as u8) as char).collect()
    } else if rng.chance(1, 6) {
        // a decimal literal of random magnitude
        let bits = *rng.pick(&[8u32, 16, 32, 64]);
        let signed = rng.chance(1, 2);
        gen_int(rng, bits, signed).to_string()
    } else {
        rng.pick(&STRS).to_string()
    }
}

fn gen_bytes(rng: &mut Rng) -> Vec<u8> {
    match rng.below(5) {
        0 => vec![],
        1 => vec![0],
        2 => vec![0xff, 0xfe],
        3 => gen_str(rng).into_bytes(),
        _ => (0..rng.below(14)).map(|_| rng.below(256) as u8).collect(),
    }
}

fn pow10(p: u32) -> i128 {
    10i128.pow(p)
}

fn gen_dec_ps(rng: &mut Rng, maxp: u8) -> (u8, i8) {
    let p = match rng.below(6) {
        0 => 1,
        1 => maxp,
        2 => maxp - 1,
        _ => 1 + rng.below(maxp as u64) as u8,
    };
    let s = match rng.below(6) {
        0 => 0,
        1 => p as i8,
        2 => -(rng.below(4) as i8) - 1,
        _ => rng.below(p as u64 + 1) as i8,
    };
    (p, s)
}

fn gen_dec_val(rng: &mut Rng, p: u8, bits: u32) -> i128 {
    let (lo, hi) = if bits >= 128 { (i128::MIN, i128::MAX) } else { int_bounds(bits, true) };
    let m = if p as u32 <= 38 { pow10(p as u32) } else { i128::MAX };
    let v = match rng.below(9) {
        0 => 0,
        1 => m - 1,
        2 => -(m - 1),
        3 => m, // one beyond the declared precision
        4 => 5 * pow10((p as u32).saturating_sub(1).min(37)),
        5 => -5 * pow10((p as u32).saturating_sub(1).min(37)),
        6 => *rng.pick(&[1i128, -1, 15, -15, 25, 149, 150, -150, 151, 999, 1000, 1005, -1005, 12345]),
        7 => hi,
        _ => gen_int(rng, bits.min(64), true),
    };
    v.clamp(lo, hi)
}

/// every primitive DataType the generator can build (model subset first, then floats & intervals)
fn gen_prim_type(rng: &mut Rng) -> DataType {
    let u = *rng.pick(&[TimeUnit::Second, TimeUnit::Millisecond, TimeUnit::Microsecond, TimeUnit::Nanosecond]);
    match rng.below(34) {
        0 => DataType::Null,
        1 => DataType::Boolean,
        2 => DataType::Int8,
        3 => DataType::Int16,
        4 => DataType::Int32,
        5 => DataType::Int64,
        6 => DataType::UInt8,
        7 => DataType::UInt16,
        8 => DataType::UInt32,
        9 => DataType::UInt64,
        10 => DataType::Utf8,
        11 => DataType::LargeUtf8,
        12 => DataType::Utf8View,
        13 => DataType::Binary,
        14 => DataType::LargeBinary,
        15 => DataType::BinaryView,
        16 => DataType::FixedSizeBinary(*rng.pick(&[1, 2, 3, 16])), // width 0 breaks arrow `take` (returns 0 rows): trusted-crate defect, not generated
        17 => DataType::Date32,
        18 => DataType::Date64,
        19 => DataType::Time32(*rng.pick(&[TimeUnit::Second, TimeUnit::Millisecond])),
        20 => DataType::Time64(*rng.pick(&[TimeUnit::Microsecond, TimeUnit::Nanosecond])),
        21 | 22 => DataType::Timestamp(u, rng.pick(&TZS).map(|s| s.into())),
        23 => DataType::Duration(u),
        24 => {
            let (p, s) = gen_dec_ps(rng, 9);
            DataType::Decimal32(p, s)
        }
        25 => {
            let (p, s) = gen_dec_ps(rng, 18);
            DataType::Decimal64(p, s)
        }
        26 | 27 => {
            let (p, s) = gen_dec_ps(rng, 38);
            DataType::Decimal128(p, s)
        }
        28 => {
            let (p, s) = gen_dec_ps(rng, 76);
            DataType::Decimal256(p, s)
        }
        29 => DataType::Float16,
        30 => DataType::Float32,
        31 => DataType::Float64,
        32 => DataType::Interval(*rng.pick(&[IntervalUnit::YearMonth, IntervalUnit::DayTime, IntervalUnit::MonthDayNano])),
        _ => DataType::Int32,
    }
}

fn gen_f64(rng: &mut Rng) -> f64 {
    *rng.pick(&[0.0, -0.0, 1.0, -1.0, 1.5, 0.1, f64::NAN, -f64::NAN, f64::INFINITY, f64::NEG_INFINITY, f64::MAX, f64::MIN_POSITIVE, 1e10, 65504.0, 3.0e38, 123456789.125, 2147483648.0, -2147483649.0])
}

/// a scalar of primitive type `dt`; `null_pct` chance of NULL
fn gen_prim(rng: &mut Rng, dt: &DataType, null_pct: u64) -> ScalarValue {
    use ScalarValue as S;
    let null = rng.below(100) < null_pct;
    macro_rules! int {
        ($V:ident, $t:ty, $bits:expr, $signed:expr) => {
            S::$V(if null { None } else { Some(gen_int(rng, $bits, $signed) as $t) })
        };
    }
    match dt {
        DataType::Null => S::Null,
        DataType::Boolean => S::Boolean(if null { None } else { Some(rng.chance(1, 2)) }),
        DataType::Int8 => int!(Int8, i8, 8, true),
        DataType::Int16 => int!(Int16, i16, 16, true),
        DataType::Int32 => int!(Int32, i32, 32, true),
        DataType::Int64 => int!(Int64, i64, 64, true),
        DataType::UInt8 => int!(UInt8, u8, 8, false),
        DataType::UInt16 => int!(UInt16, u16, 16, false),
        DataType::UInt32 => int!(UInt32, u32, 32, false),
        DataType::UInt64 => int!(UInt64, u64, 64, false),
        DataType::Utf8 => S::Utf8(if null { None } else { Some(gen_str(rng)) }),
        DataType::LargeUtf8 => S::LargeUtf8(if null { None } else { Some(gen_str(rng)) }),
        DataType::Utf8View => S::Utf8View(if null { None } else { Some(gen_str(rng)) }),
        DataType::Binary => S::Binary(if null { None } else { Some(gen_bytes(rng)) }),
        DataType::LargeBinary => S::LargeBinary(if null { None } else { Some(gen_bytes(rng)) }),
        DataType::BinaryView => S::BinaryView(if null { None } else { Some(gen_bytes(rng)) }),
        DataType::FixedSizeBinary(n) => S::FixedSizeBinary(*n, if null { None } else { Some((0..*n).map(|_| rng.below(3) as u8 * 127).collect()) }),
        DataType::Date32 => int!(Date32, i32, 32, true),
        DataType::Date64 => int!(Date64, i64, 64, true),
        DataType::Time32(TimeUnit::Second) => S::Time32Second(if null { None } else { Some(rng.range(0, 86_399) as i32) }),
        DataType::Time32(_) => S::Time32Millisecond(if null { None } else { Some(rng.range(0, 86_399_999) as i32) }),
        DataType::Time64(TimeUnit::Microsecond) => S::Time64Microsecond(if null { None } else { Some(rng.range(0, 86_399_999_999)) }),
        DataType::Time64(_) => S::Time64Nanosecond(if null { None } else { Some(rng.range(0, 86_399_999_999_999)) }),
        DataType::Timestamp(u, tz) => {
            let v = if null { None } else { Some(gen_int(rng, 64, true) as i64) };
            let tz = tz.clone();
            match u {
                TimeUnit::Second => S::TimestampSecond(v, tz),
                TimeUnit::Millisecond => S::TimestampMillisecond(v, tz),
                TimeUnit::Microsecond => S::TimestampMicrosecond(v, tz),
                TimeUnit::Nanosecond => S::TimestampNanosecond(v, tz),
            }
        }
        DataType::Duration(u) => {
            let v = if null { None } else { Some(gen_int(rng, 64, true) as i64) };
            match u {
                TimeUnit::Second => S::DurationSecond(v),
                TimeUnit::Millisecond => S::DurationMillisecond(v),
                TimeUnit::Microsecond => S::DurationMicrosecond(v),
                TimeUnit::Nanosecond => S::DurationNanosecond(v),
            }
        }
        DataType::Decimal32(p, s) => S::Decimal32(if null { None } else { Some(gen_dec_val(rng, *p, 32) as i32) }, *p, *s),
        DataType::Decimal64(p, s) => S::Decimal64(if null { None } else { Some(gen_dec_val(rng, *p, 64) as i64) }, *p, *s),
        DataType::Decimal128(p, s) => S::Decimal128(if null { None } else { Some(gen_dec_val(rng, *p, 128)) }, *p, *s),
        DataType::Decimal256(p, s) => S::Decimal256(
            if null {
                None
            } else {
                let v = i256::from_i128(gen_dec_val(rng, (*p).min(38), 128));
                Some(if *p > 38 && rng.chance(1, 2) { v.wrapping_mul(i256::from_i128(pow10((*p as u32 - 38).min(38)))) } else { v })
            },
            *p,
            *s,
        ),
        DataType::Float16 => S::Float16(if null { None } else { Some(<Float16Type as ArrowPrimitiveType>::Native::from_f64(gen_f64(rng))) }),
        DataType::Float32 => S::Float32(if null { None } else { Some(gen_f64(rng) as f32) }),
        DataType::Float64 => S::Float64(if null { None } else { Some(gen_f64(rng)) }),
        DataType::Interval(IntervalUnit::YearMonth) => S::IntervalYearMonth(if null { None } else { Some(gen_int(rng, 32, true) as i32) }),
        DataType::Interval(IntervalUnit::DayTime) => {
            S::IntervalDayTime(if null { None } else { Some(IntervalDayTime::new(gen_int(rng, 32, true) as i32, gen_int(rng, 32, true) as i32)) })
        }
        DataType::Interval(IntervalUnit::MonthDayNano) => S::IntervalMonthDayNano(if null {
            None
        } else {
            Some(IntervalMonthDayNano::new(gen_int(rng, 32, true) as i32, gen_int(rng, 32, true) as i32, gen_int(rng, 64, true) as i64))
        }),
        other => unreachable!("gen_prim {other}"),
    }
}

#[derive(Clone, Debug)]
enum Shape {
    Prim(DataType),
    Dict(DataType, DataType),
    List(DataType),
    LargeList(DataType),
    FixedSizeList(DataType, i32),
    ListView(DataType),
    ListOfList(DataType),
    Struct(Vec<(String, DataType)>),
    StructNested(DataType),
    Map(DataType),
    Union(UnionMode),
    Ree(DataType, DataType),
    DictOfList,
}

fn gen_shape(rng: &mut Rng) -> Shape {
    let keys = [DataType::Int8, DataType::Int16, DataType::Int32, DataType::Int64, DataType::UInt8, DataType::UInt16, DataType::UInt32, DataType::UInt64];
    match rng.below(30) {
        0..=13 => Shape::Prim(gen_prim_type(rng)),
        14 | 15 => Shape::Dict(rng.pick(&keys).clone(), gen_prim_type(rng)),
        16 | 17 | 18 => Shape::List(gen_prim_type(rng)),
        19 => Shape::LargeList(gen_prim_type(rng)),
        20 => Shape::FixedSizeList(gen_prim_type(rng), 1 + rng.below(3) as i32),
        21 => Shape::ListView(gen_prim_type(rng)),
        22 => Shape::ListOfList(gen_prim_type(rng)),
        23 | 24 => {
            let n = 1 + rng.below(3) as usize;
            Shape::Struct((0..n).map(|i| (format!("{}{}", ["a", "b", "c"][i], if rng.chance(1, 4) { "x" } else { "" }), gen_prim_type(rng))).collect())
        }
        25 => Shape::StructNested(gen_prim_type(rng)),
        26 => Shape::Map(gen_prim_type(rng)),
        27 => Shape::Union(if rng.chance(1, 2) { UnionMode::Sparse } else { UnionMode::Dense }),
        28 => Shape::Ree(rng.pick(&[DataType::Int16, DataType::Int32, DataType::Int64]).clone(), gen_prim_type(rng)),
        _ => Shape::DictOfList,
    }
}

fn prim_array(rng: &mut Rng, dt: &DataType, n: usize, null_pct: u64) -> ArrayRef {
    if n == 0 {
        return new_empty_array(dt);
    }
    let v: Vec<ScalarValue> = (0..n).map(|_| gen_prim(rng, dt, null_pct)).collect();
    ScalarValue::iter_to_array(v).unwrap()
}

fn gen_of_shape(rng: &mut Rng, sh: &Shape, null_pct: u64) -> ScalarValue {
    let null = rng.below(100) < null_pct;
    match sh {
        Shape::Prim(dt) => gen_prim(rng, dt, null_pct),
        Shape::Dict(k, v) => ScalarValue::Dictionary(Box::new(k.clone()), Box::new(gen_prim(rng, v, null_pct))),
        Shape::List(e) => {
            if null {
                return ScalarValue::List(Arc::new(ListArray::new_null(Arc::new(Field::new_list_field(e.clone(), true)), 1)));
            }
            let n = rng.below(4) as usize;
            // half of the time the single row is a slice of a longer child (non-zero offset)
            let vals = prim_array(rng, e, n + 2, 30);
            let off = rng.below(3) as usize;
            let offsets = OffsetBuffer::new(ScalarBuffer::from(vec![off as i32, (off + n).min(n + 2) as i32]));
            ScalarValue::List(Arc::new(ListArray::new(Arc::new(Field::new_list_field(e.clone(), true)), offsets, vals, None)))
        }
        Shape::LargeList(e) => {
            let f = Arc::new(Field::new_list_field(e.clone(), true));
            if null {
                return ScalarValue::LargeList(Arc::new(LargeListArray::new_null(f, 1)));
            }
            let n = rng.below(4) as usize;
            let vals = prim_array(rng, e, n, 30);
            ScalarValue::LargeList(Arc::new(LargeListArray::new(f, OffsetBuffer::from_lengths([n]), vals, None)))
        }
        Shape::FixedSizeList(e, k) => {
            let f = Arc::new(Field::new_list_field(e.clone(), true));
            if null {
                return ScalarValue::FixedSizeList(Arc::new(FixedSizeListArray::new_null(f, *k, 1)));
            }
            let vals = prim_array(rng, e, *k as usize, 30);
            ScalarValue::FixedSizeList(Arc::new(FixedSizeListArray::new(f, *k, vals, None)))
        }
        Shape::ListView(e) => {
            let f = Arc::new(Field::new_list_field(e.clone(), true));
            if null {
                return ScalarValue::ListView(Arc::new(ListViewArray::new_null(f, 1)));
            }
            let n = rng.below(4) as usize;
            let vals = prim_array(rng, e, n + 1, 30);
            ScalarValue::ListView(Arc::new(ListViewArray::new(f, ScalarBuffer::from(vec![1i32.min(n as i32 + 1 - n as i32)]), ScalarBuffer::from(vec![n as i32]), vals, None)))
        }
        Shape::ListOfList(e) => {
            let inner_f = Arc::new(Field::new_list_field(e.clone(), true));
            let outer_f = Arc::new(Field::new_list_field(DataType::List(inner_f.clone()), true));
            if null {
                return ScalarValue::List(Arc::new(ListArray::new_null(outer_f, 1)));
            }
            let n = rng.below(3) as usize;
            let lens: Vec<usize> = (0..n).map(|_| rng.below(3) as usize).collect();
            let total: usize = lens.iter().sum();
            let vals = prim_array(rng, e, total, 30);
            let nulls: Vec<bool> = (0..n).map(|_| !rng.chance(1, 4)).collect();
            // null rows must have zero length to keep equality canonical?  not required by arrow
            let inner = ListArray::new(inner_f, OffsetBuffer::from_lengths(lens), vals, Some(NullBuffer::from(nulls)));
            ScalarValue::List(Arc::new(ListArray::new(outer_f, OffsetBuffer::from_lengths([n]), Arc::new(inner), None)))
        }
        Shape::Struct(fs) => {
            let fields: Vec<Field> = fs.iter().map(|(n, t)| Field::new(n, t.clone(), true)).collect();
            if null {
                return ScalarStructBuilder::new_null(fields);
            }
            let mut b = ScalarStructBuilder::new();
            for f in fields {
                let v = gen_prim(rng, f.data_type(), 30);
                b = b.with_scalar(f, v);
            }
            b.build().unwrap()
        }
        Shape::StructNested(e) => {
            let inner_fields = vec![Field::new("x", e.clone(), true), Field::new("y", DataType::Int32, true)];
            let lf = Field::new("l", DataType::List(Arc::new(Field::new_list_field(e.clone(), true))), true);
            let sf = Field::new("s", DataType::Struct(inner_fields.clone().into()), true);
            if null {
                return ScalarStructBuilder::new_null(vec![sf, lf]);
            }
            let inner = if rng.chance(1, 4) {
                ScalarStructBuilder::new_null(inner_fields)
            } else {
                ScalarStructBuilder::new()
                    .with_scalar(inner_fields[0].clone(), gen_prim(rng, e, 30))
                    .with_scalar(inner_fields[1].clone(), gen_prim(rng, &DataType::Int32, 30))
                    .build()
                    .unwrap()
            };
            let l = gen_of_shape(rng, &Shape::List(e.clone()), 25);
            ScalarStructBuilder::new().with_scalar(sf, inner).with_scalar(lf, l).build().unwrap()
        }
        Shape::Map(e) => {
            let n = if null { 0 } else { rng.below(3) as usize };
            let keys: ArrayRef = Arc::new(StringArray::from((0..n).map(|i| format!("k{i}")).collect::<Vec<_>>()));
            let vals = prim_array(rng, e, n, 30);
            let entries = StructArray::new(vec![Field::new("keys", DataType::Utf8, false), Field::new("values", e.clone(), true)].into(), vec![keys, vals], None);
            let f = Arc::new(Field::new("entries", entries.data_type().clone(), false));
            let nulls = if null { Some(NullBuffer::from(vec![false])) } else { None };
            ScalarValue::Map(Arc::new(MapArray::new(f, OffsetBuffer::from_lengths([n]), entries, nulls, false)))
        }
        Shape::Union(mode) => {
            let fields = UnionFields::try_new(vec![3, 7], vec![Field::new("i", DataType::Int32, true), Field::new("s", DataType::Utf8, true)]).unwrap();
            if null {
                return ScalarValue::Union(None, fields, *mode);
            }
            let v = if rng.chance(1, 2) { (3i8, Box::new(gen_prim(rng, &DataType::Int32, 30))) } else { (7i8, Box::new(gen_prim(rng, &DataType::Utf8, 30))) };
            ScalarValue::Union(Some(v), fields, *mode)
        }
        Shape::Ree(r, v) => ScalarValue::RunEndEncoded(
            Arc::new(Field::new("run_ends", r.clone(), false)),
            Arc::new(Field::new("values", v.clone(), true)),
            Box::new(gen_prim(rng, v, null_pct)),
        ),
        Shape::DictOfList => ScalarValue::Dictionary(Box::new(DataType::Int32), Box::new(gen_of_shape(rng, &Shape::List(DataType::Int64), null_pct))),
    }
}

fn variant_name(s: &ScalarValue) -> String {
    let d = dbg(s);
    d.split(|c: char| !c.is_alphanumeric()).next().unwrap_or("?").to_string()
}

fn hash_of(s: &ScalarValue) -> u64 {
    let mut h = std::collections::hash_map::DefaultHasher::new();
    s.hash(&mut h);
    h.finish()
}

static GUARD: std::sync::atomic::AtomicUsize = std::sync::atomic::AtomicUsize::new(0);

/// run `f`, turning a panic of the code under test into `Err("panic: ..")` (silently); panics
/// outside a guard (harness bugs) are still printed.
fn guarded<T>(f: impl FnOnce() -> Result<T, String>) -> Result<T, String> {
    use std::sync::atomic::Ordering::SeqCst;
    GUARD.fetch_add(1, SeqCst);
    let r = hutil::catch(std::panic::AssertUnwindSafe(f));
    GUARD.fetch_sub(1, SeqCst);
    match r {
        Ok(r) => r,
        Err(p) => Err(format!("panic: {p}")),
    }
}

/// Debug text of a scalar; `Debug for ScalarValue` itself panics on `Date64(Some(i64::MIN))`
/// (chrono `Duration::try_milliseconds(..).unwrap()`), which is not this property's concern.
fn dbg(s: &ScalarValue) -> String {
    if let ScalarValue::ListView(a) = s {
        let logical = dbg_logical(s);
        return format!("{logical}{{offsets={:?} sizes={:?} nulls={:?} child_len={}}}", a.offsets().to_vec(), a.sizes().to_vec(), a.nulls().map(|n| n.iter().collect::<Vec<_>>()), a.values().len());
    }
    dbg_logical(s)
}

fn dbg_logical(s: &ScalarValue) -> String {
    guarded(|| Ok(format!("{s:?}"))).unwrap_or_else(|_| format!("<{} {}>", s.data_type(), scalar_sexp(s).unwrap_or_default())).replace('\n', " ")
}

fn dbgr(r: &Result<ScalarValue, String>) -> String {
    match r {
        Ok(s) => format!("Ok({})", dbg(s)),
        Err(e) => format!("Err({e})"),
    }
}

fn dbgv(v: &[ScalarValue]) -> String {
    format!("[{}]", v.iter().map(dbg).collect::<Vec<_>>().join(", "))
}

fn install_panic_hook() {
    std::panic::set_hook(Box::new(|info| {
        if GUARD.load(std::sync::atomic::Ordering::SeqCst) == 0 {
            eprintln!("harness panic: {info}");
        }
    }));
}

// ------------------------------------------------------------------------------------------
// (1) round trips
// ------------------------------------------------------------------------------------------

fn roundtrip(run: &mut Run, rng: &mut Rng) {
    let n_cases = run.budget(2500, 60_000);
    for c in 0..n_cases {
        let sh = gen_shape(rng);
        let s = gen_of_shape(rng, &sh, 25);
        let n = *rng.pick(&[0usize, 1, 1, 2, 3, 5, 17, 1000]);
        let mut idx: BTreeSet<usize> = BTreeSet::new();
        if n > 0 {
            idx.extend([0, n / 2, n - 1]);
        }
        let name = variant_name(&s);
        run.count(&format!("rt_variant_{name}"));
        let s2 = s.clone();
        let arr = guarded(move || s2.to_array_of_size(n).map_err(|e| e.to_string()));
        let sig = format!("roundtrip#{c} {} n={n}", dbg(&s));
        let mut answers = vec![];
        match &arr {
            Err(e) => {
                // the only legitimate failure: a decimal whose (precision, scale) arrow rejects
                run.oracle(false, &sig, &format!("to_array_of_size({n}) failed: {e}"));
                answers.push(err_class(e));
            }
            Ok(a) => {
                run.oracle(a.len() == n, &format!("{sig} len"), &format!("to_array_of_size({n}) returned {} rows", a.len()));
                run.oracle(a.data_type() == &s.data_type(), &format!("{sig} type"), &format!("array type {} vs scalar type {}", a.data_type(), s.data_type()));
                for &i in &idx {
                    let a2 = a.clone();
                    let r = guarded(move || ScalarValue::try_from_array(&a2, i).map_err(|e| e.to_string()));
                    let ok = matches!(&r, Ok(x) if same(x, &s));
                    run.oracle(ok, &format!("{sig} i={i}"), &format!("try_from_array(to_array_of_size({n}), {i}) = {}, expected {}", dbgr(&r), dbg(&s)));
                    answers.push(show_res(&r.map_err(|e| err_class(&e))));
                }
            }
        }
        if let Some(x) = scalar_sexp(&s) {
            let is: Vec<String> = idx.iter().map(|i| i.to_string()).collect();
            let nontrivial = n > 0;
            run.case("rt", &format!("({x} {n} ({}))", is.join(" ")), &answers.join(" "), nontrivial);
        }
    }
    // iter_to_array: k scalars of one data type
    let n_iter = run.budget(1200, 30_000);
    for c in 0..n_iter {
        let sh = gen_shape(rng);
        let k = 1 + rng.below(6) as usize;
        let first = gen_of_shape(rng, &sh, 30);
        let dt = first.data_type();
        let mut v = vec![first];
        let mut tries = 0;
        while v.len() < k && tries < 40 {
            tries += 1;
            let s = if rng.chance(1, 4) { v[rng.below(v.len() as u64) as usize].clone() } else { gen_of_shape(rng, &sh, 30) };
            if s.data_type() == dt {
                v.push(s);
            }
        }
        run.count(&format!("iter_variant_{}", variant_name(&v[0])));
        let v2 = v.clone();
        let arr = guarded(move || ScalarValue::iter_to_array(v2).map_err(|e| e.to_string()));
        let sig = format!("iter#{c} {}", dbgv(&v));
        let mut answers = vec![];
        match &arr {
            Err(e) => {
                run.oracle(false, &sig, &format!("iter_to_array failed: {e}"));
                answers.push(err_class(e));
            }
            Ok(a) => {
                run.oracle(a.len() == v.len() && a.data_type() == &dt, &format!("{sig} shape"), &format!("len {} type {}", a.len(), a.data_type()));
                for (i, s) in v.iter().enumerate() {
                    let a2 = a.clone();
                    let r = guarded(move || ScalarValue::try_from_array(&a2, i).map_err(|e| e.to_string()));
                    let ok = matches!(&r, Ok(x) if same(x, s));
                    run.oracle(ok, &format!("iter#{c} i={i} elem={}", dbg(s)), &format!("{sig}: try_from_array(iter_to_array(..), {i}) = {}, expected {}", dbgr(&r), dbg(s)));
                    answers.push(show_res(&r.map_err(|e| err_class(&e))));
                }
            }
        }
        let xs: Option<Vec<String>> = v.iter().map(scalar_sexp).collect();
        if let Some(xs) = xs {
            run.case("iter", &format!("({})", xs.join(" ")), &answers.join(" "), v.len() >= 2);
        }
    }
    // iter_to_array with mixed parameters (decimal precision/scale, time zone): the first element
    // decides the array type — model correspondence only (not forbidden by the property)
    let n_mixed = run.budget(300, 5_000);
    for _ in 0..n_mixed {
        let mk = |rng: &mut Rng| -> ScalarValue {
            match rng.below(3) {
                0 => {
                    let (p, s) = gen_dec_ps(rng, 38);
                    gen_prim(rng, &DataType::Decimal128(p, s), 20)
                }
                1 => {
                    let tz = rng.pick(&TZS).map(|s| s.into());
                    gen_prim(rng, &DataType::Timestamp(TimeUnit::Millisecond, tz), 20)
                }
                _ => {
                    let dt = rng.pick(&[DataType::Int32, DataType::Int64, DataType::Utf8, DataType::LargeUtf8]).clone();
                    gen_prim(rng, &dt, 20)
                }
            }
        };
        let k = 2 + rng.below(3) as usize;
        let v: Vec<ScalarValue> = (0..k).map(|_| mk(rng)).collect();
        let v2 = v.clone();
        let arr = guarded(move || ScalarValue::iter_to_array(v2).map_err(|e| e.to_string()));
        let ans = match &arr {
            Err(e) => err_class(e),
            Ok(a) => (0..a.len())
                .map(|i| show_res(&ScalarValue::try_from_array(a, i).map_err(|e| err_class(&e.to_string()))))
                .collect::<Vec<_>>()
                .join(" "),
        };
        run.count(if arr.is_ok() { "iter_mixed_ok" } else { "iter_mixed_err" });
        let xs: Vec<String> = v.iter().map(|s| scalar_sexp(s).unwrap()).collect();
        run.case("iter", &format!("({})", xs.join(" ")), &ans, true);
    }
}

// ------------------------------------------------------------------------------------------
// (2) equality, hashing, ordering
// ------------------------------------------------------------------------------------------

fn ord_name(o: Option<Ordering>) -> &'static str {
    match o {
        None => "none",
        Some(Ordering::Less) => "lt",
        Some(Ordering::Equal) => "eq",
        Some(Ordering::Greater) => "gt",
    }
}

/// is the order clause of the property about this type? (primitive, string, binary, temporal, decimal)
fn ordered_type(dt: &DataType) -> bool {
    !matches!(dt, DataType::Null | DataType::Float16 | DataType::Float32 | DataType::Float64) && prim_ty(dt).is_some()
}

fn equality_and_order(run: &mut Run, rng: &mut Rng) {
    let n_pools = run.budget(700, 15_000);
    for c in 0..n_pools {
        let sh = gen_shape(rng);
        let k = 3 + rng.below(3) as usize;
        let mut pool: Vec<ScalarValue> = (0..k).map(|_| gen_of_shape(rng, &sh, 25)).collect();
        // cross-type members: same variant, other parameters (tz / precision / width) and another type
        if rng.chance(1, 3) {
            let sh2 = gen_shape(rng);
            pool.push(gen_of_shape(rng, &sh2, 25));
        }
        if let Shape::Prim(DataType::Timestamp(u, _)) = &sh {
            pool.push(gen_prim(rng, &DataType::Timestamp(*u, Some("+01:00".into())), 10));
            if let Some(ScalarValue::TimestampSecond(v, _)) = pool.first().cloned() {
                pool.push(ScalarValue::TimestampSecond(v, Some("+01:00".into())));
            }
        }
        if let Shape::Prim(DataType::Decimal128(p, s)) = &sh {
            pool.push(gen_prim(rng, &DataType::Decimal128(if *p < 38 { *p + 1 } else { *p - 1 }, *s), 10));
            if let Some(ScalarValue::Decimal128(v, p, s)) = pool.first().cloned() {
                pool.push(ScalarValue::Decimal128(v, if p < 38 { p + 1 } else { p - 1 }, s));
            }
        }
        if let Shape::Prim(DataType::FixedSizeBinary(_)) = &sh {
            pool.push(ScalarValue::FixedSizeBinary(5, None));
        }
        // duplicates
        let d = pool[rng.below(pool.len() as u64) as usize].clone();
        pool.push(d);
        run.count(&format!("ord_variant_{}", variant_name(&pool[0])));
        for i in 0..pool.len() {
            for j in 0..pool.len() {
                let (a, b) = (&pool[i], &pool[j]);
                let (a2, b2) = (a.clone(), b.clone());
                let r = guarded(move || Ok((a2 == b2, a2.partial_cmp(&b2), hash_of(&a2), hash_of(&b2))));
                let sig = format!("eqord#{c} ty={} a={} b={}", a.data_type(), dbg(a), dbg(b));
                let (eq, cmp, ha, hb) = match r {
                    Ok(x) => x,
                    Err(e) => {
                        run.oracle(false, &format!("{sig} panic"), &format!("eq/partial_cmp/hash: {e}"));
                        continue;
                    }
                };
                // eq => hash eq   (all variants)
                run.oracle(!eq || ha == hb, &format!("{sig} eq-hash"), &format!("a == b but hash(a)={ha} hash(b)={hb}"));
                let same_ty = a.data_type() == b.data_type();
                if same_ty && ordered_type(&a.data_type()) {
                    run.oracle(cmp.is_some(), &format!("{sig} total"), "partial_cmp returned None for two values of one type");
                    run.oracle((cmp == Some(Ordering::Equal)) == eq, &format!("{sig} cmp-eq"), &format!("partial_cmp={cmp:?} but eq={eq}"));
                    let back = b.partial_cmp(a);
                    run.oracle(back == cmp.map(Ordering::reverse), &format!("{sig} antisym"), &format!("cmp(a,b)={cmp:?} cmp(b,a)={back:?}"));
                    // NULL first
                    if a.is_null() && !b.is_null() {
                        run.oracle(cmp == Some(Ordering::Less), &format!("{sig} null-first"), &format!("NULL vs value gave {cmp:?}"));
                    }
                    for l in 0..pool.len() {
                        let cc = &pool[l];
                        if cc.data_type() == a.data_type() {
                            let (bc, ac) = (b.partial_cmp(cc), a.partial_cmp(cc));
                            if cmp.is_some_and(|o| o != Ordering::Greater) && bc.is_some_and(|o| o != Ordering::Greater) {
                                let want_strict = cmp == Some(Ordering::Less) || bc == Some(Ordering::Less);
                                let ok = if want_strict { ac == Some(Ordering::Less) } else { ac == Some(Ordering::Equal) };
                                run.oracle(ok, &format!("{sig} c={} trans", dbg(cc)), &format!("a<=b ({cmp:?}), b<=c ({bc:?}) but cmp(a,c)={ac:?}"));
                            }
                        }
                    }
                }
                if let (Some(x), Some(y)) = (scalar_sexp(a), scalar_sexp(b)) {
                    run.case("cmp", &format!("({x} {y})"), ord_name(cmp), i != j && same_ty);
                    run.case("eq", &format!("({x} {y})"), if eq { "t" } else { "f" }, i != j);
                }
            }
        }
        // engine sort (ascending, NULLs first) over the same-typed members
        let dt = pool[0].data_type();
        let members: Vec<ScalarValue> = pool.iter().filter(|s| s.data_type() == dt).cloned().collect();
        if ordered_type(&dt) && members.len() >= 2 {
            let m2 = members.clone();
            let sorted = guarded(move || {
                let arr = ScalarValue::iter_to_array(m2).map_err(|e| e.to_string())?;
                let idx = sort_to_indices(&arr, Some(SortOptions { descending: false, nulls_first: true }), None).map_err(|e| e.to_string())?;
                let mut out = vec![];
                for i in idx.values() {
                    out.push(ScalarValue::try_from_array(&arr, *i as usize).map_err(|e| e.to_string())?);
                }
                Ok(out)
            });
            let sig = format!("sort#{c} {}", dbgv(&members));
            match &sorted {
                Err(e) => run.oracle(false, &sig, &format!("engine sort failed: {e}")),
                Ok(out) => {
                    let ok = out.windows(2).all(|w| matches!(w[0].partial_cmp(&w[1]), Some(Ordering::Less | Ordering::Equal)));
                    run.oracle(ok, &sig, &format!("engine ascending NULLS FIRST order {} is not ascending for ScalarValue::partial_cmp", dbgv(out)));
                    let xs: Vec<String> = members.iter().map(|s| scalar_sexp(s).unwrap()).collect();
                    let ys: Vec<String> = out.iter().map(|s| scalar_sexp(s).unwrap()).collect();
                    run.case("sort", &format!("({})", xs.join(" ")), &ys.join(" "), true);
                }
            }
        }
    }
    // eq => hash eq on physically different but logically equal nested scalars
    let n_nested = run.budget(300, 5_000);
    for c in 0..n_nested {
        let e = DataType::Int64;
        let n = rng.below(4) as usize;
        let vals: Vec<Option<i64>> = (0..n).map(|_| if rng.chance(1, 4) { None } else { Some(rng.range(-2, 2)) }).collect();
        let f = Arc::new(Field::new_list_field(e.clone(), true));
        let a = ListArray::new(f.clone(), OffsetBuffer::from_lengths([n]), Arc::new(Int64Array::from(vals.clone())), None);
        // same logical row, child padded on both sides; NULL slots carry different payloads
        let mut padded: Vec<Option<i64>> = vec![Some(99)];
        padded.extend(vals.iter().cloned());
        padded.push(Some(-99));
        let child = Int64Array::from(padded);
        let b = ListArray::new(f.clone(), OffsetBuffer::new(ScalarBuffer::from(vec![1i32, 1 + n as i32])), Arc::new(child), None);
        let (sa, sb) = (ScalarValue::List(Arc::new(a)), ScalarValue::List(Arc::new(b)));
        let eq = sa == sb;
        run.oracle(eq, &format!("nested-eq#{c} list {vals:?}"), "two physical layouts of one logical list are not equal");
        run.oracle(!eq || hash_of(&sa) == hash_of(&sb), &format!("nested-hash#{c} list {vals:?} eq-hash"), &format!("equal list scalars hash differently: {} vs {}", hash_of(&sa), hash_of(&sb)));
        // NULL struct rows whose (masked) children differ
        let fields: Fields = vec![Field::new("a", DataType::Int64, true)].into();
        let valid = !rng.chance(1, 2);
        let mk = |x: Option<i64>| {
            let nulls = if valid { None } else { Some(NullBuffer::from(vec![false])) };
            ScalarValue::Struct(Arc::new(StructArray::new(fields.clone(), vec![Arc::new(Int64Array::from(vec![x])) as ArrayRef], nulls)))
        };
        let (x, y) = (mk(Some(rng.range(0, 2))), mk(if rng.chance(1, 3) { None } else { Some(rng.range(0, 2)) }));
        let eq = x == y;
        run.count(if eq { "struct_pair_equal" } else { "struct_pair_different" });
        run.oracle(!eq || hash_of(&x) == hash_of(&y), &format!("nested-hash#{c} struct valid={valid} {} {} eq-hash", dbg(&x), dbg(&y)), &format!("equal struct scalars hash differently: {} vs {}", hash_of(&x), hash_of(&y)));
    }
}


// ------------------------------------------------------------------------------------------
// (2b) floating point ordering: Float16 / Float32 / Float64 incl. NaN payloads, signed zeros,
//      infinities, subnormals, NULL — model-free oracle (floats are outside the Lean model)
// ------------------------------------------------------------------------------------------

fn float_specials(width: u32) -> Vec<ScalarValue> {
    type F16 = <Float16Type as ArrowPrimitiveType>::Native;
    let mut out = vec![];
    match width {
        16 => {
            out.push(ScalarValue::Float16(None));
            for bits in [0x0000u16, 0x8000, 0x0001, 0x8001, 0x03ff, 0x0400, 0x3c00, 0xbc00, 0x7bff, 0xfbff, 0x7c00, 0xfc00, 0x7e00, 0xfe00, 0x7e01, 0x7fff, 0xfc01, 0x7c01, 0x4100] {
                out.push(ScalarValue::Float16(Some(F16::from_bits(bits))));
            }
        }
        32 => {
            out.push(ScalarValue::Float32(None));
            for bits in [0x0000_0000u32, 0x8000_0000, 0x0000_0001, 0x8000_0001, 0x007f_ffff, 0x0080_0000, 0x3f80_0000, 0xbf80_0000, 0x7f7f_ffff, 0xff7f_ffff, 0x7f80_0000, 0xff80_0000, 0x7fc0_0000, 0xffc0_0000, 0x7fc0_0001, 0x7fff_ffff, 0xff80_0001, 0x7f80_0001, 0x4020_0000] {
                out.push(ScalarValue::Float32(Some(f32::from_bits(bits))));
            }
        }
        _ => {
            out.push(ScalarValue::Float64(None));
            for bits in [
                0x0000_0000_0000_0000u64, 0x8000_0000_0000_0000, 0x0000_0000_0000_0001, 0x8000_0000_0000_0001, 0x000f_ffff_ffff_ffff, 0x0010_0000_0000_0000, 0x3ff0_0000_0000_0000, 0xbff0_0000_0000_0000,
                0x7fef_ffff_ffff_ffff, 0xffef_ffff_ffff_ffff, 0x7ff0_0000_0000_0000, 0xfff0_0000_0000_0000, 0x7ff8_0000_0000_0000, 0xfff8_0000_0000_0000, 0x7ff8_0000_0000_0001, 0x7fff_ffff_ffff_ffff,
                0xfff0_0000_0000_0001, 0x7ff0_0000_0000_0001, 0x4004_0000_0000_0000,
            ] {
                out.push(ScalarValue::Float64(Some(f64::from_bits(bits))));
            }
        }
    }
    out
}

/// bit pattern text of a float scalar (floats are never printed as decimals)
fn float_bits(s: &ScalarValue) -> String {
    match s {
        ScalarValue::Float16(Some(v)) => format!("f16:{:04x}", v.to_bits()),
        ScalarValue::Float32(Some(v)) => format!("f32:{:08x}", v.to_bits()),
        ScalarValue::Float64(Some(v)) => format!("f64:{:016x}", v.to_bits()),
        ScalarValue::Float16(None) => "f16:NULL".into(),
        ScalarValue::Float32(None) => "f32:NULL".into(),
        ScalarValue::Float64(None) => "f64:NULL".into(),
        other => dbg(other),
    }
}

fn float_order(run: &mut Run, rng: &mut Rng) {
    let opts = SortOptions { descending: false, nulls_first: true };
    for width in [16u32, 32, 64] {
        let all = float_specials(width);
        // every ordered pair of the special values
        for a in &all {
            for b in &all {
                let sig = format!("floatord a={} b={}", float_bits(a), float_bits(b));
                let cmp = a.partial_cmp(b);
                let eq = a == b;
                run.oracle(cmp.is_some(), &format!("{sig} total"), "partial_cmp returned None for two values of one floating point type");
                run.oracle((cmp == Some(Ordering::Equal)) == eq, &format!("{sig} cmp-eq"), &format!("partial_cmp={cmp:?} but ==  is {eq}"));
                run.oracle(b.partial_cmp(a) == cmp.map(Ordering::reverse), &format!("{sig} antisym"), &format!("cmp(a,b)={cmp:?} cmp(b,a)={:?}", b.partial_cmp(a)));
                run.oracle(!eq || hash_of(a) == hash_of(b), &format!("{sig} eq-hash"), "equal floats hash differently");
                if a.is_null() && !b.is_null() {
                    run.oracle(cmp == Some(Ordering::Less), &format!("{sig} null-first"), &format!("NULL vs value gave {cmp:?}"));
                }
                // the engine's row comparison (ascending, NULLs first)
                let (a2, b2) = (a.clone(), b.clone());
                let rows = guarded(move || datafusion_common::utils::compare_rows(&[a2], &[b2], &[opts]).map_err(|e| e.to_string()));
                run.oracle(rows.as_ref().ok().copied() == cmp && cmp.is_some(), &format!("{sig} compare_rows"), &format!("compare_rows = {rows:?}, partial_cmp = {cmp:?}"));
                run.count(&format!("floatord_pairs_f{width}"));
            }
        }
        // transitivity on random triples + agreement with the sort kernel on random pools
        let n = run.budget(400, 6000);
        for c in 0..n {
            let pick = |rng: &mut Rng| all[rng.below(all.len() as u64) as usize].clone();
            let (a, b, cc) = (pick(rng), pick(rng), pick(rng));
            let (ab, bc, ac) = (a.partial_cmp(&b), b.partial_cmp(&cc), a.partial_cmp(&cc));
            if matches!(ab, Some(Ordering::Less | Ordering::Equal)) && matches!(bc, Some(Ordering::Less | Ordering::Equal)) {
                let strict = ab == Some(Ordering::Less) || bc == Some(Ordering::Less);
                let ok = if strict { ac == Some(Ordering::Less) } else { ac == Some(Ordering::Equal) };
                run.oracle(ok, &format!("floatord a={} b={} c={} trans", float_bits(&a), float_bits(&b), float_bits(&cc)), &format!("a<=b ({ab:?}), b<=c ({bc:?}) but cmp(a,c)={ac:?}"));
            }
            let k = 2 + rng.below(6) as usize;
            let pool: Vec<ScalarValue> = (0..k).map(|_| pick(rng)).collect();
            let p2 = pool.clone();
            let sorted = guarded(move || {
                let arr = ScalarValue::iter_to_array(p2).map_err(|e| e.to_string())?;
                let idx = sort_to_indices(&arr, Some(opts), None).map_err(|e| e.to_string())?;
                idx.values().iter().map(|i| ScalarValue::try_from_array(&arr, *i as usize).map_err(|e| e.to_string())).collect::<Result<Vec<_>, _>>()
            });
            let bits: Vec<String> = pool.iter().map(float_bits).collect();
            match &sorted {
                Err(e) => run.oracle(false, &format!("floatsort#{c} [{}]", bits.join(" ")), &format!("engine sort failed: {e}")),
                Ok(out) => {
                    // the kernel's order is a strict total order on distinct bit patterns: neighbours
                    // must be `Less`, or `Equal` exactly when they are the same value
                    for w in out.windows(2) {
                        let want = if w[0] == w[1] { Ordering::Equal } else { Ordering::Less };
                        run.oracle(
                            w[0].partial_cmp(&w[1]) == Some(want),
                            &format!("floatsort a={} b={} position", float_bits(&w[0]), float_bits(&w[1])),
                            &format!("the engine's ascending NULLS FIRST sort of [{}] places a directly before b, but partial_cmp(a, b) = {:?}", bits.join(" "), w[0].partial_cmp(&w[1])),
                        );
                    }
                }
            }
        }
    }
}

// ------------------------------------------------------------------------------------------
// (3b) casts of NESTED scalars to targets that differ only in child field name / nullability /
//      metadata / child type, and of Dictionary / RunEndEncoded wrappers: value AND data type
// ------------------------------------------------------------------------------------------

fn meta_field(name: &str, dt: DataType, nullable: bool) -> Field {
    Field::new(name, dt, nullable).with_metadata(std::collections::HashMap::from([("k".to_string(), "v".to_string())]))
}

/// (source scalar, target types)
fn nested_cast_inputs(rng: &mut Rng) -> Vec<(ScalarValue, Vec<DataType>)> {
    let mut out: Vec<(ScalarValue, Vec<DataType>)> = vec![];
    let item = |dt: DataType| Arc::new(Field::new("item", dt, true));
    let elem = |dt: DataType| Arc::new(Field::new("element", dt, true));
    let vals = |rng: &mut Rng, n: usize, nulls: bool| -> ArrayRef {
        Arc::new(Int32Array::from((0..n).map(|_| if nulls && rng.chance(1, 3) { None } else { Some(rng.range(-3, 100) as i32) }).collect::<Vec<_>>()))
    };
    for nulls in [false, true] {
        let n = 1 + rng.below(3) as usize;
        let list_targets = |wrap: &dyn Fn(FieldRef) -> DataType| -> Vec<DataType> {
            vec![
                wrap(elem(DataType::Int32)),
                wrap(Arc::new(Field::new("item", DataType::Int32, false))),
                wrap(Arc::new(meta_field("item", DataType::Int32, true))),
                wrap(item(DataType::Int64)),
                wrap(elem(DataType::Int64)),
                wrap(item(DataType::Utf8)),
            ]
        };
        // List / LargeList / FixedSizeList
        let l = ListArray::new(item(DataType::Int32), OffsetBuffer::from_lengths([n]), vals(rng, n, nulls), None);
        let mut t = list_targets(&|f| DataType::List(f));
        t.push(DataType::LargeList(item(DataType::Int32)));
        t.push(DataType::LargeList(elem(DataType::Int32)));
        out.push((ScalarValue::List(Arc::new(l)), t.clone()));
        out.push((ScalarValue::List(Arc::new(ListArray::new_null(item(DataType::Int32), 1))), t));
        let ll = LargeListArray::new(item(DataType::Int32), OffsetBuffer::from_lengths([n]), vals(rng, n, nulls), None);
        let mut t = list_targets(&|f| DataType::LargeList(f));
        t.push(DataType::List(elem(DataType::Int32)));
        out.push((ScalarValue::LargeList(Arc::new(ll)), t));
        let fl = FixedSizeListArray::new(item(DataType::Int32), 2, vals(rng, 2, nulls), None);
        out.push((ScalarValue::FixedSizeList(Arc::new(fl)), list_targets(&|f| DataType::FixedSizeList(f, 2))));
        // Struct {a: Int32, b: Utf8}
        let fields: Fields = vec![Field::new("a", DataType::Int32, true), Field::new("b", DataType::Utf8, true)].into();
        let sa = StructArray::new(
            fields.clone(),
            vec![vals(rng, 1, nulls), Arc::new(StringArray::from(vec![if nulls && rng.chance(1, 2) { None } else { Some("x") }])) as ArrayRef],
            None,
        );
        let st = |fs: Vec<Field>| DataType::Struct(fs.into());
        let struct_targets = vec![
            st(vec![Field::new("a", DataType::Int64, true), Field::new("b", DataType::Utf8, true)]),
            st(vec![Field::new("a", DataType::Int32, false), Field::new("b", DataType::Utf8, true)]),
            st(vec![meta_field("a", DataType::Int32, true), Field::new("b", DataType::Utf8, true)]),
            st(vec![Field::new("x", DataType::Int32, true), Field::new("b", DataType::Utf8, true)]),
            st(vec![Field::new("b", DataType::Utf8, true), Field::new("a", DataType::Int32, true)]),
            st(vec![Field::new("a", DataType::Int32, true), Field::new("b", DataType::LargeUtf8, true), Field::new("c", DataType::Int32, true)]),
        ];
        out.push((ScalarValue::Struct(Arc::new(sa)), struct_targets.clone()));
        out.push((ScalarStructBuilder::new_null(fields.iter().map(|f| f.as_ref().clone()).collect::<Vec<_>>()), struct_targets));
        // Struct { l: List<item Int32> } -> renamed child of the nested list
        let inner = ListArray::new(item(DataType::Int32), OffsetBuffer::from_lengths([n]), vals(rng, n, nulls), None);
        let sl = StructArray::new(vec![Field::new("l", inner.data_type().clone(), true)].into(), vec![Arc::new(inner) as ArrayRef], None);
        out.push((
            ScalarValue::Struct(Arc::new(sl)),
            vec![st(vec![Field::new("l", DataType::List(elem(DataType::Int32)), true)]), st(vec![Field::new("l", DataType::List(item(DataType::Int64)), true)])],
        ));
        // List<Struct{a}> -> renamed list child / widened struct field
        let sfields: Fields = vec![Field::new("a", DataType::Int32, true)].into();
        let schild = StructArray::new(sfields.clone(), vec![vals(rng, n, nulls)], None);
        let ls = ListArray::new(item(DataType::Struct(sfields.clone())), OffsetBuffer::from_lengths([n]), Arc::new(schild), None);
        out.push((
            ScalarValue::List(Arc::new(ls)),
            vec![
                DataType::List(elem(DataType::Struct(sfields.clone()))),
                DataType::List(item(st(vec![Field::new("a", DataType::Int64, true)]))),
            ],
        ));
        // Map<Utf8, Int32>
        let keys: ArrayRef = Arc::new(StringArray::from((0..n).map(|i| format!("k{i}")).collect::<Vec<_>>()));
        let entries = StructArray::new(vec![Field::new("keys", DataType::Utf8, false), Field::new("values", DataType::Int32, true)].into(), vec![keys, vals(rng, n, nulls)], None);
        let ef = Arc::new(Field::new("entries", entries.data_type().clone(), false));
        let m = MapArray::new(ef.clone(), OffsetBuffer::from_lengths([n]), entries, None, false);
        let map_t = |ename: &str, k: &str, v: &str, vt: DataType| {
            DataType::Map(Arc::new(Field::new(ename, DataType::Struct(vec![Field::new(k, DataType::Utf8, false), Field::new(v, vt, true)].into()), false)), false)
        };
        out.push((
            ScalarValue::Map(Arc::new(m)),
            vec![map_t("key_value", "key", "value", DataType::Int32), map_t("entries", "keys", "values", DataType::Int64), map_t("entries", "key", "values", DataType::Int32)],
        ));
        // Dictionary / RunEndEncoded wrappers
        let dv = gen_prim(rng, &DataType::Utf8, if nulls { 50 } else { 0 });
        out.push((
            ScalarValue::Dictionary(Box::new(DataType::Int32), Box::new(dv)),
            vec![
                DataType::Dictionary(Box::new(DataType::Int8), Box::new(DataType::Utf8)),
                DataType::Dictionary(Box::new(DataType::Int32), Box::new(DataType::LargeUtf8)),
                DataType::Utf8,
                DataType::Utf8View,
            ],
        ));
        let dl = ListArray::new(item(DataType::Int32), OffsetBuffer::from_lengths([n]), vals(rng, n, nulls), None);
        out.push((
            ScalarValue::Dictionary(Box::new(DataType::Int32), Box::new(ScalarValue::List(Arc::new(dl)))),
            vec![DataType::Dictionary(Box::new(DataType::Int32), Box::new(DataType::List(elem(DataType::Int32)))), DataType::List(elem(DataType::Int32))],
        ));
        let ree = |rn: &str, rt: DataType, vn: &str, vt: DataType| DataType::RunEndEncoded(Arc::new(Field::new(rn, rt, false)), Arc::new(Field::new(vn, vt, true)));
        let rv = gen_prim(rng, &DataType::Int32, if nulls { 50 } else { 0 });
        out.push((
            ScalarValue::RunEndEncoded(Arc::new(Field::new("run_ends", DataType::Int32, false)), Arc::new(Field::new("values", DataType::Int32, true)), Box::new(rv)),
            vec![
                ree("re", DataType::Int32, "v", DataType::Int32),
                ree("run_ends", DataType::Int32, "values", DataType::Int64),
                ree("run_ends", DataType::Int64, "values", DataType::Int32),
                DataType::Int32,
                DataType::Int64,
            ],
        ));
    }
    out
}

fn nested_casts(run: &mut Run, rng: &mut Rng) {
    let rounds = run.budget(6, 120);
    let fmt = FormatOptions::default();
    for _ in 0..rounds {
        for (s, targets) in nested_cast_inputs(rng) {
            for t in &targets {
                for safe in [false, true] {
                    let opts = CastOptions { safe, format_options: fmt.clone() };
                    let (s1, t1, o1) = (s.clone(), t.clone(), opts.clone());
                    let r_scalar = guarded(move || s1.cast_to_with_options(&t1, &o1).map_err(|e| e.to_string()));
                    let (s2, t2, o2) = (s.clone(), t.clone(), opts.clone());
                    let array_type = std::cell::RefCell::new(None::<DataType>);
                    let r_col = guarded(|| {
                        let arr = s2.to_array().map_err(|e| e.to_string())?;
                        match ColumnarValue::Array(arr).cast_to(&t2, Some(&o2)).map_err(|e| e.to_string())? {
                            ColumnarValue::Array(a) if a.len() == 1 => {
                                *array_type.borrow_mut() = Some(a.data_type().clone());
                                ScalarValue::try_from_array(&a, 0).map_err(|e| e.to_string())
                            }
                            other => Err(format!("array cast returned {other:?}")),
                        }
                    });
                    let array_type = array_type.into_inner();
                    let sig = format!("nestedcast {} : {} -> {t} safe={safe}", dbg(&s), s.data_type());
                    let agree = match (&r_scalar, &r_col) {
                        (Ok(a), Ok(b)) => same(a, b),
                        (Err(_), Err(_)) => true,
                        _ => false,
                    };
                    run.oracle(agree, &format!("{sig} vs-columnar-array"), &format!("ScalarValue::cast_to_with_options = {} (type {}) but ColumnarValue::Array([v]).cast_to = {} (type {})", dbgr(&r_scalar), r_scalar.as_ref().map(|v| v.data_type().to_string()).unwrap_or_default(), dbgr(&r_col), r_col.as_ref().map(|v| v.data_type().to_string()).unwrap_or_default()));
                    if let Ok(v) = &r_scalar {
                        run.oracle(&v.data_type() == t, &format!("{sig} result-type"), &format!("the cast succeeded but the result has type {} instead of the target {t}", v.data_type()));
                    }
                    if let Some(at) = &array_type {
                        run.oracle(at == t, &format!("{sig} array-result-type"), &format!("the array cast succeeded but the array has type {at} instead of the target {t}"));
                    }
                    run.count(match &r_scalar {
                        Ok(_) => "nestedcast_ok",
                        Err(_) => "nestedcast_err",
                    });
                }
            }
        }
    }
}

// ------------------------------------------------------------------------------------------
// (3) casts
// ------------------------------------------------------------------------------------------

fn cast_targets(rng: &mut Rng) -> Vec<DataType> {
    let mut t = vec![
        DataType::Null,
        DataType::Boolean,
        DataType::Int8,
        DataType::Int16,
        DataType::Int32,
        DataType::Int64,
        DataType::UInt8,
        DataType::UInt16,
        DataType::UInt32,
        DataType::UInt64,
        DataType::Utf8,
        DataType::LargeUtf8,
        DataType::Utf8View,
        DataType::Binary,
        DataType::LargeBinary,
        DataType::BinaryView,
        DataType::Date32,
        DataType::Date64,
        DataType::Float32,
        DataType::Float64,
        DataType::Time32(TimeUnit::Second),
        DataType::Time64(TimeUnit::Nanosecond),
        DataType::Interval(IntervalUnit::MonthDayNano),
        DataType::Dictionary(Box::new(DataType::Int8), Box::new(DataType::Utf8)),
        DataType::Dictionary(Box::new(DataType::Int32), Box::new(DataType::Int64)),
        DataType::List(Arc::new(Field::new_list_field(DataType::Int64, true))),
        DataType::List(Arc::new(Field::new_list_field(DataType::Utf8, true))),
    ];
    for u in [TimeUnit::Second, TimeUnit::Millisecond, TimeUnit::Microsecond, TimeUnit::Nanosecond] {
        t.push(DataType::Timestamp(u, None));
        t.push(DataType::Timestamp(u, rng.pick(&TZS[1..]).map(|s| s.into())));
        t.push(DataType::Duration(u));
    }
    for _ in 0..2 {
        let (p, s) = gen_dec_ps(rng, 9);
        t.push(DataType::Decimal32(p, s));
        let (p, s) = gen_dec_ps(rng, 18);
        t.push(DataType::Decimal64(p, s));
        let (p, s) = gen_dec_ps(rng, 38);
        t.push(DataType::Decimal128(p, s));
        let (p, s) = gen_dec_ps(rng, 76);
        t.push(DataType::Decimal256(p, s));
    }
    t.push(DataType::Decimal128(38, 0));
    t.push(DataType::Decimal128(10, 2));
    t
}

fn casts(run: &mut Run, rng: &mut Rng) {
    let n_src = run.budget(260, 6_000);
    let fmt = FormatOptions::default();
    let mut pairs_seen: BTreeSet<String> = BTreeSet::new();
    for c in 0..n_src {
        let sh = match rng.below(10) {
            0 => gen_shape(rng),
            1 => Shape::Dict(DataType::Int32, gen_prim_type(rng)),
            2 => Shape::List(gen_prim_type(rng)),
            _ => Shape::Prim(gen_prim_type(rng)),
        };
        let src_ty = gen_of_shape(rng, &sh, 100).data_type();
        let targets = cast_targets(rng);
        for t in &targets {
            if !can_cast_types(&src_ty, t) {
                continue;
            }
            pairs_seen.insert(format!("{src_ty}->{t}"));
            for rep in 0..2 {
                let s = gen_of_shape(rng, &sh, if rep == 0 { 8 } else { 20 });
                if s.data_type() != src_ty {
                    continue;
                }
                let safe = rng.chance(1, 2);
                let opts = CastOptions { safe, format_options: fmt.clone() };
                let (s1, t1, o1) = (s.clone(), t.clone(), opts.clone());
                let r_scalar = guarded(move || s1.cast_to_with_options(&t1, &o1).map_err(|e| e.to_string()));
                let (s2, t2, o2) = (s.clone(), t.clone(), opts.clone());
                let r_col = guarded(move || {
                    let arr = s2.to_array().map_err(|e| e.to_string())?;
                    match ColumnarValue::Array(arr).cast_to(&t2, Some(&o2)).map_err(|e| e.to_string())? {
                        ColumnarValue::Array(a) => {
                            if a.len() != 1 {
                                return Err(format!("array cast returned {} rows", a.len()));
                            }
                            ScalarValue::try_from_array(&a, 0).map_err(|e| e.to_string())
                        }
                        ColumnarValue::Scalar(_) => Err("array cast returned a scalar".into()),
                    }
                });
                let (s3, t3, o3) = (s.clone(), t.clone(), opts.clone());
                let r_arrow = guarded(move || {
                    let arr = s3.to_array().map_err(|e| e.to_string())?;
                    let a = cast_with_options(&arr, &t3, &o3).map_err(|e| e.to_string())?;
                    ScalarValue::try_from_array(&a, 0).map_err(|e| e.to_string())
                });
                let agree = |x: &Result<ScalarValue, String>, y: &Result<ScalarValue, String>| match (x, y) {
                    (Ok(a), Ok(b)) => same(a, b),
                    (Err(_), Err(_)) => true,
                    _ => false,
                };
                let sig = format!("cast {} -> {t} safe={safe}", scalar_sexp(&s).unwrap_or_else(|| dbg(&s)));
                run.oracle(agree(&r_scalar, &r_col), &format!("{sig} vs-columnar-array"), &format!("#{c}: ScalarValue::cast_to_with_options = {} but ColumnarValue::Array([v]).cast_to = {}", dbgr(&r_scalar), dbgr(&r_col)));
                run.oracle(agree(&r_scalar, &r_arrow), &format!("{sig} vs-arrow-kernel"), &format!("#{c}: ScalarValue::cast_to_with_options = {} but arrow cast_with_options([v]) = {}", dbgr(&r_scalar), dbgr(&r_arrow)));
                if let Ok(v) = &r_scalar {
                    run.oracle(&v.data_type() == t, &format!("{sig} result-type"), &format!("result type {}", v.data_type()));
                }
                run.count(match (&r_scalar, safe) {
                    (Ok(v), _) if v.is_null() && !s.is_null() => "cast_to_null",
                    (Ok(_), _) => "cast_ok",
                    (Err(_), _) => "cast_err",
                });
                if let (Some(x), Some(tt)) = (scalar_sexp(&s), ty_sexp(t)) {
                    let req = format!("({x} {tt} {})", if safe { "t" } else { "f" });
                    let nontrivial = !s.is_null() && &src_ty != t;
                    run.case("cast", &req, &show_res(&r_scalar.clone().map_err(|e| err_class(&e))), nontrivial);
                    run.case("casta", &req, &show_res(&r_col.clone().map_err(|e| err_class(&e))), nontrivial);
                }
            }
        }
    }
    run.add("cast_type_pairs", pairs_seen.len() as u64);
}

pub fn run(run: &mut Run, args: &Args) {
    install_panic_hook();
    let mut rng = Rng::new(args.seed);
    roundtrip(run, &mut rng);
    equality_and_order(run, &mut rng);
    float_order(run, &mut rng);
    casts(run, &mut rng);
    nested_casts(run, &mut rng);
    run.note("variants outside the Lean model (implementation-level oracle only): Float16/32/64, Interval*, LargeList, FixedSizeList, ListView, List<List>, nested Struct, Map, Union, RunEndEncoded, Dictionary<List>");
}
