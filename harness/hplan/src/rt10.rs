//! C10 — end-to-end ORDER / marker-protocol part: `RepartitionExec::execute` over inputs that mix
//! zero-row batches (fresh ones, and zero-row slices of big batches, which still report the full
//! buffer size of the batch they were cut from), tiny batches, big batches and small slices of big
//! batches, under memory pools whose answers alternate between "fits" and "does not fit".
//!
//! Dimensions: round robin / range with ZERO split points (both forward the input batch unchanged),
//! hash, range with split points; 1..3 inputs; order-preserving mode over sorted inputs, plain mode
//! over a bounded input (producer-side coalescer) and over an UNBOUNDED input (no coalescer);
//! batch sizes; pools (harness wrappers, spilling always possible): unlimited, size threshold,
//! byte budget, seeded script. All wrappers restrict spillable consumers only (RepartitionExec's
//! per-output reservations), so the order-preserving merge can always run.
//!
//! Oracles (real code, rows carry unique ids; ids increase along every input stream):
//!   * exactly once by row id; no row outside the slices (padding ids) is ever delivered;
//!   * right partition: hash / range route; round robin: the k-th non-empty batch of input i goes,
//!     as a whole, to output (start_i + k) mod n; range without split points: output 0;
//!   * FIFO per (input, output): wherever the operator maintains input order (order-preserving
//!     mode; single input) the ids of one input appear in increasing order inside an output;
//!   * order-preserving mode: every output is globally sorted;
//!   * no error, no stall (20 s deadline) — a `Spilled` marker without a batch behind it shows up
//!     as a FIFO / sortedness violation or as a stall.
//! With >= 2 inputs in plain mode the operator promises a multiset only (shared coalescer, shared
//! spill pool whose markers are interchangeable): per-input reorders are COUNTED there, not judged.
use std::collections::BTreeMap;
use std::fmt::{Display, Formatter};
use std::sync::Arc;
use std::sync::Mutex;
use std::sync::atomic::{AtomicUsize, Ordering as AO};

use arrow::array::{ArrayRef, Int64Array, RecordBatch, UInt64Array};
use arrow::compute::SortOptions;
use arrow::datatypes::{DataType, Field, Schema, SchemaRef};
use datafusion_common::hash_utils::create_hashes;
use datafusion_common::tree_node::TreeNodeRecursion;
use datafusion_common::utils::compare_rows;
use datafusion_common::{DataFusionError, Result, SplitPoint};
use datafusion_datasource::memory::MemorySourceConfig;
use datafusion_datasource::source::DataSourceExec;
use datafusion_execution::config::SessionConfig;
use datafusion_execution::memory_pool::{MemoryConsumer, MemoryPool, MemoryReservation};
use datafusion_execution::runtime_env::RuntimeEnvBuilder;
use datafusion_execution::{SendableRecordBatchStream, TaskContext};
use datafusion_physical_expr::expressions::col;
use datafusion_physical_expr::{EquivalenceProperties, LexOrdering, Partitioning, PhysicalExpr, PhysicalSortExpr};
use datafusion_physical_plan::execution_plan::{Boundedness, EmissionType};
use datafusion_physical_plan::repartition::{REPARTITION_RANDOM_STATE, RepartitionExec, verif};
use datafusion_physical_plan::stream::RecordBatchStreamAdapter;
use datafusion_physical_plan::{DisplayAs, DisplayFormatType, ExecutionPlan, PlanProperties};
use futures::StreamExt;
use hutil::{Rng, Run};

use crate::c10::{Key, gen_key, ids_of, range_partitioning, scalars, tuple};

/// ids of padding rows (rows of a big batch outside the slice that is part of the input)
const PAD: u64 = 1 << 40;

// ---------------------------------------------------------------------------------------------
// source: yields exactly the given batches; optionally sorted; optionally declared unbounded
// ---------------------------------------------------------------------------------------------
#[derive(Debug)]
struct SrcExec {
    data: Vec<Vec<RecordBatch>>,
    schema: SchemaRef,
    cache: Arc<PlanProperties>,
}
impl SrcExec {
    fn new(data: Vec<Vec<RecordBatch>>, schema: SchemaRef, ordering: Option<LexOrdering>, unbounded: bool) -> Self {
        let eq = match ordering {
            Some(o) => EquivalenceProperties::new_with_orderings(schema.clone(), [o]),
            None => EquivalenceProperties::new(schema.clone()),
        };
        let b = if unbounded { Boundedness::Unbounded { requires_infinite_memory: false } } else { Boundedness::Bounded };
        let cache = Arc::new(PlanProperties::new(eq, Partitioning::UnknownPartitioning(data.len()), EmissionType::Incremental, b));
        SrcExec { data, schema, cache }
    }
}
impl DisplayAs for SrcExec {
    fn fmt_as(&self, _t: DisplayFormatType, f: &mut Formatter) -> std::fmt::Result {
        write!(f, "SrcExec")
    }
}
impl ExecutionPlan for SrcExec {
    fn name(&self) -> &str {
        "SrcExec"
    }
    fn properties(&self) -> &Arc<PlanProperties> {
        &self.cache
    }
    fn children(&self) -> Vec<&Arc<dyn ExecutionPlan>> {
        vec![]
    }
    fn apply_expressions(&self, _f: &mut dyn FnMut(&Arc<dyn PhysicalExpr>) -> Result<TreeNodeRecursion>) -> Result<TreeNodeRecursion> {
        Ok(TreeNodeRecursion::Continue)
    }
    fn with_new_children(self: Arc<Self>, _c: Vec<Arc<dyn ExecutionPlan>>) -> Result<Arc<dyn ExecutionPlan>> {
        Ok(self)
    }
    fn execute(&self, partition: usize, _ctx: Arc<TaskContext>) -> Result<SendableRecordBatchStream> {
        let it = self.data[partition].clone().into_iter().map(Ok);
        Ok(Box::pin(RecordBatchStreamAdapter::new(self.schema.clone(), futures::stream::iter(it))))
    }
}

// ---------------------------------------------------------------------------------------------
// memory pools: answers for SPILLABLE consumers follow a rule; everybody else always fits
// ---------------------------------------------------------------------------------------------
#[derive(Debug, Clone)]
enum PoolMode {
    Unlimited,
    /// a request fits iff it is at most this many bytes
    Threshold(usize),
    /// byte budget over all spillable consumers
    Budget(usize),
    /// the k-th request is refused iff `bits[k mod len]`
    Script(Vec<bool>),
}
#[derive(Debug)]
struct RulePool {
    mode: PoolMode,
    used: Mutex<usize>,
    calls: AtomicUsize,
    refused: AtomicUsize,
    granted: AtomicUsize,
}
impl RulePool {
    fn new(mode: PoolMode) -> Self {
        RulePool { mode, used: Mutex::new(0), calls: AtomicUsize::new(0), refused: AtomicUsize::new(0), granted: AtomicUsize::new(0) }
    }
}
impl Display for RulePool {
    fn fmt(&self, f: &mut Formatter<'_>) -> std::fmt::Result {
        write!(f, "RulePool({:?})", self.mode)
    }
}
impl MemoryPool for RulePool {
    fn name(&self) -> &str {
        "RulePool"
    }
    fn register(&self, _c: &MemoryConsumer) {}
    fn unregister(&self, _c: &MemoryConsumer) {}
    fn grow(&self, r: &MemoryReservation, additional: usize) {
        if r.consumer().can_spill() {
            *self.used.lock().unwrap() += additional;
        }
    }
    fn shrink(&self, r: &MemoryReservation, shrink: usize) {
        if r.consumer().can_spill() {
            let mut u = self.used.lock().unwrap();
            *u = u.saturating_sub(shrink);
        }
    }
    fn try_grow(&self, r: &MemoryReservation, additional: usize) -> Result<()> {
        if !r.consumer().can_spill() {
            return Ok(());
        }
        let k = self.calls.fetch_add(1, AO::SeqCst);
        let mut u = self.used.lock().unwrap();
        let fits = match &self.mode {
            PoolMode::Unlimited => true,
            PoolMode::Threshold(t) => additional <= *t,
            PoolMode::Budget(l) => *u + additional <= *l,
            PoolMode::Script(bits) => !bits[k % bits.len()],
        };
        if fits {
            *u += additional;
            self.granted.fetch_add(1, AO::SeqCst);
            Ok(())
        } else {
            self.refused.fetch_add(1, AO::SeqCst);
            Err(DataFusionError::ResourcesExhausted(format!("RulePool: {} asks {additional} bytes, refused (request #{k})", r.consumer().name())))
        }
    }
    fn reserved(&self) -> usize {
        *self.used.lock().unwrap()
    }
}

// ---------------------------------------------------------------------------------------------
// inputs
// ---------------------------------------------------------------------------------------------
#[derive(Clone, Copy, Debug, PartialEq)]
enum Kind {
    Tiny,
    Big,
    ZeroFresh,
    /// zero-row slice of a padding batch of `total` rows, cut at `off`
    ZeroOfBig { total: usize, off: usize },
    /// `rows`-row slice of a batch of `total` rows, cut at `off`
    SliceOfBig { total: usize, off: usize },
}
fn kind_s(k: &Kind, rows: usize) -> String {
    match k {
        Kind::Tiny => format!("T{rows}"),
        Kind::Big => format!("B{rows}"),
        Kind::ZeroFresh => "z".into(),
        Kind::ZeroOfBig { total, off } => format!("Z@{off}/{total}"),
        Kind::SliceOfBig { total, off } => format!("S{rows}@{off}/{total}"),
    }
}
fn schema1() -> SchemaRef {
    Arc::new(Schema::new(vec![Field::new("k0", DataType::Int64, true), Field::new("id", DataType::UInt64, false)]))
}
fn mk(schema: &SchemaRef, keys: Vec<Option<i64>>, ids: Vec<u64>) -> RecordBatch {
    let cols: Vec<ArrayRef> = vec![Arc::new(Int64Array::from(keys)), Arc::new(UInt64Array::from(ids))];
    RecordBatch::try_new(schema.clone(), cols).unwrap()
}
fn gen_kind(rng: &mut Rng) -> (Kind, usize) {
    let total = *rng.pick(&[300usize, 900]);
    match rng.below(100) {
        0..=29 => (Kind::Tiny, 1 + rng.below(3) as usize),
        30..=52 => (Kind::Big, *rng.pick(&[300usize, 700, 1200])),
        53..=57 => (Kind::ZeroFresh, 0),
        58..=84 => (Kind::ZeroOfBig { total, off: *rng.pick(&[0, total / 2, total]) }, 0),
        _ => {
            let rows = 1 + rng.below(3) as usize;
            (Kind::SliceOfBig { total, off: *rng.pick(&[0, total / 2, total - rows]) }, rows)
        }
    }
}

#[derive(Clone, Copy, Debug, PartialEq)]
enum Scheme {
    RoundRobin,
    Range0,
    Hash,
    Range,
}
#[derive(Clone, Copy, Debug, PartialEq)]
enum Mode {
    Preserve,
    PlainBounded,
    PlainUnbounded,
}

pub fn exchange_order(run: &mut Run, rng: &mut Rng, known_class_hangs: &mut u32) {
    let n = run.budget(320, 8_000);
    let new_rt = || tokio::runtime::Builder::new_multi_thread().worker_threads(3).enable_all().build().unwrap();
    let mut rt = Some(new_rt());
    let opts = vec![SortOptions { descending: false, nulls_first: false }];
    let schema = schema1();
    // stalls outside the known class fail the check; after two of them the deadline is shortened and
    // after thirty the remaining runs are dropped, so that a broken tree cannot exhaust the tier budget
    let mut other_hangs = 0u32;
    for it in 0..n {
        if other_hangs >= 30 {
            run.add("x_runs_dropped_after_30_stalls", n - it);
            break;
        }
        let deadline_s = if other_hangs >= 2 { 4 } else { 20 };
        let mode = match rng.below(100) {
            0..=44 => Mode::Preserve,
            45..=69 => Mode::PlainUnbounded,
            _ => Mode::PlainBounded,
        };
        let m = if mode == Mode::Preserve { 2 + rng.below(2) as usize } else { *rng.pick(&[1usize, 1, 1, 2, 3]) };
        let scheme = match rng.below(100) {
            0..=39 => Scheme::RoundRobin,
            40..=64 => Scheme::Range0,
            65..=82 => Scheme::Hash,
            _ => Scheme::Range,
        };
        // ---- inputs
        let mut next_id = 0u64;
        let mut all_keys: Vec<Key> = vec![];
        let mut owner: Vec<usize> = vec![]; // id -> input partition
        let mut batch_of: Vec<(usize, usize)> = vec![]; // id -> (input, index among the NON-EMPTY batches of that input)
        let mut parts: Vec<Vec<RecordBatch>> = vec![];
        let mut layout: Vec<String> = vec![];
        let (mut n_zero_big, mut n_zero_fresh, mut n_slice, mut n_tiny, mut n_big) = (0, 0, 0, 0, 0);
        let (mut tiny_max, mut big_min) = (0usize, usize::MAX);
        for i in 0..m {
            let nb = rng.below(8) as usize;
            let kinds: Vec<(Kind, usize)> = (0..nb).map(|_| gen_kind(rng)).collect();
            let rows_p: usize = kinds.iter().map(|k| k.1).sum();
            let mut keys_p: Vec<Key> = (0..rows_p).map(|_| gen_key(rng, 1)).collect();
            if mode == Mode::Preserve {
                keys_p.sort_by(|a, b| compare_rows(&scalars(a), &scalars(b), &opts).unwrap());
            }
            let mut off = 0usize;
            let mut bs = vec![];
            let mut nonempty = 0usize;
            let mut lay = vec![];
            for (kind, rows) in &kinds {
                let ks: Vec<Option<i64>> = keys_p[off..off + rows].iter().map(|k| k[0]).collect();
                let ids: Vec<u64> = (0..*rows as u64).map(|j| next_id + j).collect();
                let b = match kind {
                    Kind::Tiny | Kind::Big | Kind::ZeroFresh => mk(&schema, ks, ids),
                    Kind::ZeroOfBig { total, off: o } => {
                        let pad = mk(&schema, (0..*total).map(|j| Some(j as i64 % 5)).collect(), (0..*total as u64).map(|j| PAD + j).collect());
                        pad.slice(*o, 0)
                    }
                    Kind::SliceOfBig { total, off: o } => {
                        let mut pk: Vec<Option<i64>> = (0..*total).map(|j| Some(j as i64 % 5)).collect();
                        let mut pi: Vec<u64> = (0..*total as u64).map(|j| PAD + j).collect();
                        for j in 0..*rows {
                            pk[o + j] = ks[j];
                            pi[o + j] = ids[j];
                        }
                        mk(&schema, pk, pi).slice(*o, *rows)
                    }
                };
                assert_eq!(b.num_rows(), *rows);
                let sz = b.get_array_memory_size();
                match kind {
                    Kind::Tiny => {
                        n_tiny += 1;
                        tiny_max = tiny_max.max(sz);
                    }
                    Kind::Big => {
                        n_big += 1;
                        big_min = big_min.min(sz);
                    }
                    Kind::ZeroFresh => n_zero_fresh += 1,
                    Kind::ZeroOfBig { .. } => {
                        n_zero_big += 1;
                        big_min = big_min.min(sz);
                    }
                    Kind::SliceOfBig { .. } => {
                        n_slice += 1;
                        big_min = big_min.min(sz);
                    }
                }
                for _ in 0..*rows {
                    owner.push(i);
                    batch_of.push((i, nonempty));
                }
                if *rows > 0 {
                    nonempty += 1;
                }
                lay.push(kind_s(kind, *rows));
                next_id += *rows as u64;
                off += rows;
                bs.push(b);
            }
            all_keys.extend(keys_p);
            parts.push(bs);
            layout.push(format!("in{i}=[{}]", lay.join(" ")));
        }
        let total = next_id as usize;
        if tiny_max == 0 {
            tiny_max = 600;
        }
        if big_min == usize::MAX {
            big_min = 8 * tiny_max;
        }
        // ---- partitioning
        let nout_req = *rng.pick(&[1usize, 1, 2, 3, 4]);
        let (splits, nout, partitioning): (Vec<Key>, usize, Partitioning) = match scheme {
            Scheme::RoundRobin => (vec![], nout_req, Partitioning::RoundRobinBatch(nout_req)),
            Scheme::Hash => (vec![], nout_req, Partitioning::Hash(vec![col("k0", &schema).unwrap()], nout_req)),
            Scheme::Range0 => {
                let rp = range_partitioning(&schema, 1, &opts, &[]).unwrap();
                (vec![], rp.partition_count(), Partitioning::Range(rp))
            }
            Scheme::Range => {
                let mut s: Vec<Key> = (0..1 + rng.below(3)).map(|_| gen_key(rng, 1)).collect();
                s.sort_by(|a, b| compare_rows(&scalars(a), &scalars(b), &opts).unwrap());
                s.dedup_by(|a, b| compare_rows(&scalars(a), &scalars(b), &opts).unwrap() == std::cmp::Ordering::Equal);
                let rp = range_partitioning(&schema, 1, &opts, &s).unwrap();
                let k = rp.partition_count();
                (s, k, Partitioning::Range(rp))
            }
        };
        // ---- plan
        let ordering = || LexOrdering::new([PhysicalSortExpr::new(col("k0", &schema).unwrap(), opts[0])]).unwrap();
        let use_src_exec = mode == Mode::PlainUnbounded || rng.chance(2, 3);
        let input: Arc<dyn ExecutionPlan> = if use_src_exec {
            Arc::new(SrcExec::new(parts.clone(), schema.clone(), (mode == Mode::Preserve).then(ordering), mode == Mode::PlainUnbounded))
        } else {
            let mut src = MemorySourceConfig::try_new(&parts, schema.clone(), None).unwrap();
            if mode == Mode::Preserve {
                src = src.try_with_sort_information(vec![ordering()]).unwrap();
            }
            DataSourceExec::from_data_source(src)
        };
        let mut exec = RepartitionExec::try_new(input, partitioning).unwrap();
        if mode == Mode::Preserve {
            exec = exec.with_preserve_order();
        }
        let preserve = exec.preserve_order();
        assert_eq!(preserve, mode == Mode::Preserve);
        let exec = Arc::new(exec);
        let batch_size = *rng.pick(&[1usize, 4, 16, 8192, 8192]);
        // `DataSourceExec` re-slices batches longer than `batch_size`, so the batch-level round-robin
        // route is only known when the source hands the batches over as they are
        let rr_exact = use_src_exec || parts.iter().flatten().all(|b| b.num_rows() <= batch_size);
        // ---- expected routes
        let start = |i: usize| if preserve { 0 } else { (i * nout) / m };
        let route: Vec<Option<usize>> = match scheme {
            Scheme::Range => {
                let sps: Vec<SplitPoint> = splits.iter().map(|s| SplitPoint::new(scalars(s))).collect();
                all_keys.iter().map(|k| Some(verif::range_partition_id(&scalars(k), &sps, &opts).unwrap())).collect()
            }
            Scheme::Range0 => vec![Some(0); total],
            Scheme::Hash => {
                let cols: Vec<ArrayRef> = vec![Arc::new(Int64Array::from(all_keys.iter().map(|k| k[0]).collect::<Vec<_>>()))];
                let mut h = vec![0u64; total];
                if total > 0 {
                    create_hashes(&cols, REPARTITION_RANDOM_STATE.random_state(), &mut h).unwrap();
                }
                h.iter().map(|x| Some((x % nout as u64) as usize)).collect()
            }
            Scheme::RoundRobin if rr_exact => batch_of.iter().map(|(i, k)| Some((start(*i) + k) % nout)).collect(),
            Scheme::RoundRobin => vec![None; total],
        };
        // ---- pool
        let pool_mode = match rng.below(100) {
            0..=9 => PoolMode::Unlimited,
            10..=54 => {
                let t = match rng.below(5) {
                    0 => 0,
                    1 => tiny_max,
                    2 => (tiny_max + big_min) / 2,
                    3 => big_min.saturating_sub(1),
                    _ => 64usize << rng.below(11),
                };
                PoolMode::Threshold(t)
            }
            55..=74 => PoolMode::Budget(*rng.pick(&[tiny_max, 2 * tiny_max, (tiny_max + big_min) / 2, big_min + tiny_max, 3 * big_min])),
            _ => {
                let len = 1 + rng.below(24) as usize;
                let (num, den) = *rng.pick(&[(1u64, 2u64), (1, 4), (3, 4), (1, 1)]);
                let mut bits: Vec<bool> = (0..len).map(|_| rng.chance(num, den)).collect();
                if rng.chance(1, 4) {
                    bits = vec![true, false]; // strict alternation, first request refused
                }
                PoolMode::Script(bits)
            }
        };
        let may_refuse = !matches!(pool_mode, PoolMode::Unlimited);
        let pool = Arc::new(RulePool::new(pool_mode.clone()));
        let runtime = RuntimeEnvBuilder::default().with_memory_pool(pool.clone()).build_arc().unwrap();
        let ctx = Arc::new(TaskContext::default().with_runtime(runtime).with_session_config(SessionConfig::new().with_batch_size(batch_size)));
        let drop_after: Vec<Option<usize>> = (0..nout).map(|_| if rng.chance(1, 10) { Some(rng.below(3) as usize) } else { None }).collect();
        let any_drop = drop_after.iter().any(|d| d.is_some());
        if *known_class_hangs >= 3 && !preserve && m >= 2 && may_refuse {
            run.count("e2e_skipped_deadlock_prone_after_3_hangs");
            continue;
        }
        let exec2 = exec.clone();
        let da = drop_after.clone();
        let aborts: Arc<Mutex<Vec<tokio::task::AbortHandle>>> = Default::default();
        let aborts2 = aborts.clone();
        let res: std::result::Result<Vec<std::result::Result<Vec<Vec<u64>>, String>>, _> = rt.as_ref().unwrap().block_on(async move {
            tokio::time::timeout(std::time::Duration::from_secs(deadline_s), async move {
                let mut handles = vec![];
                for p in 0..nout {
                    let exec = exec2.clone();
                    let ctx = ctx.clone();
                    let lim = da[p];
                    handles.push(tokio::spawn(async move {
                        let mut st = exec.execute(p, ctx).map_err(|e| e.to_string())?;
                        let mut got: Vec<Vec<u64>> = vec![];
                        if lim == Some(0) {
                            return Ok(got);
                        }
                        while let Some(b) = st.next().await {
                            let b = b.map_err(|e| e.to_string())?;
                            got.push(ids_of(&b));
                            if Some(got.len()) == lim {
                                break;
                            }
                            if got.len() % 3 == 0 {
                                tokio::task::yield_now().await;
                            }
                        }
                        Ok::<_, String>(got)
                    }));
                }
                aborts2.lock().unwrap().extend(handles.iter().map(|h: &tokio::task::JoinHandle<_>| h.abort_handle()));
                let mut out = vec![];
                for h in handles {
                    out.push(h.await.unwrap_or_else(|e| Err(format!("join error {e}"))));
                }
                out
            })
            .await
        });
        let sig = format!(
            "e2e-order #{it} scheme={scheme:?} mode={mode:?} src={} m={m} n={nout} pool={} batch_size={batch_size} splits={} drop_after={drop_after:?} rows={total} {}",
            if use_src_exec { "SrcExec" } else { "MemorySourceConfig" },
            match &pool_mode {
                PoolMode::Script(b) => format!("Script({})", b.iter().map(|x| if *x { '1' } else { '0' }).collect::<String>()),
                o => format!("{o:?}"),
            },
            splits.iter().map(tuple).collect::<Vec<_>>().join(""),
            layout.join(" ")
        );
        run.count(&format!("x_{scheme:?}"));
        run.count(&format!("x_{mode:?}"));
        run.count(&format!("x_inputs{m}"));
        if scheme == Scheme::RoundRobin && rr_exact {
            run.count("x_runs_round_robin_batch_route_judged");
        }
        run.count(&format!("x_pool_{}", match &pool_mode { PoolMode::Unlimited => "unlimited", PoolMode::Threshold(_) => "threshold", PoolMode::Budget(_) => "budget", PoolMode::Script(_) => "script" }));
        run.add("x_batches_zero_row_slice_of_big", n_zero_big);
        run.add("x_batches_zero_row_fresh", n_zero_fresh);
        run.add("x_batches_small_slice_of_big", n_slice);
        run.add("x_batches_tiny", n_tiny);
        run.add("x_batches_big", n_big);
        let (refused, granted) = (pool.refused.load(AO::SeqCst) as u64, pool.granted.load(AO::SeqCst) as u64);
        run.add("x_pool_requests_refused", refused);
        run.add("x_pool_requests_granted", granted);
        if refused > 0 && granted > 0 {
            run.count("x_runs_with_both_memory_and_spilled_batches");
        }
        let spilled = exec.metrics().and_then(|m| m.spill_count()).unwrap_or(0);
        if spilled > 0 {
            run.count("x_runs_spilled");
        }
        if n_zero_big > 0 && (preserve || mode == Mode::PlainUnbounded) && matches!(scheme, Scheme::RoundRobin | Scheme::Range0) && refused > 0 {
            run.count("x_runs_forwarding_uncoalesced_with_fat_zero_row_batch_under_pressure");
        }
        let outs = match res {
            Err(_) => {
                let known = !preserve && m >= 2 && spilled >= 1;
                let class = if known { "hang exchange non-preserve-order multi-input spilled:" } else { "hang" };
                if known {
                    *known_class_hangs += 1;
                } else {
                    other_hangs += 1;
                }
                run.oracle(false, &format!("{class} {sig}"), &format!("RepartitionExec outputs did not finish within {deadline_s} s (spill_count={spilled}, pool refused {refused} / granted {granted} requests)"));
                for a in aborts.lock().unwrap().drain(..) {
                    a.abort();
                }
                if let Some(old) = rt.take() {
                    old.shutdown_timeout(std::time::Duration::from_secs(2));
                }
                rt = Some(new_rt());
                continue;
            }
            Ok(o) => o,
        };
        // ---- oracles
        let order_kept = preserve || m == 1;
        let mut bad: Vec<String> = vec![];
        let mut seen: BTreeMap<u64, usize> = BTreeMap::new();
        let mut reorders = 0u64;
        for (p, r) in outs.iter().enumerate() {
            let batches = match r {
                Err(e) => {
                    bad.push(format!("error: output {p} failed: {e}"));
                    continue;
                }
                Ok(b) => b,
            };
            let ids: Vec<u64> = batches.iter().flatten().copied().collect();
            let mut last_of_input: Vec<Option<u64>> = vec![None; m];
            for id in &ids {
                if *id >= total as u64 {
                    bad.push(format!("phantom-row: output {p} delivered id {id}, which is not a row of any input slice (padding ids start at {PAD})"));
                    continue;
                }
                if let Some(prev) = seen.insert(*id, p) {
                    bad.push(format!("exactly-once: row id {id} delivered twice (outputs {prev} and {p})"));
                }
                if let Some(want) = route[*id as usize].filter(|w| *w != p) {
                    let (i, k) = batch_of[*id as usize];
                    bad.push(format!("route: row id {id} key {} (input {i}, non-empty batch #{k}) delivered to output {p}, its route is {want}", tuple(&all_keys[*id as usize])));
                }
                let i = owner[*id as usize];
                if let Some(l) = last_of_input[i] {
                    if l > *id {
                        reorders += 1;
                        if order_kept {
                            bad.push(format!("fifo: output {p} delivers row id {id} of input {i} after the later row id {l} of the same input"));
                        }
                    }
                }
                last_of_input[i] = Some(*id);
            }
            if drop_after[p].is_none() && route.iter().all(|r| r.is_some()) {
                let want = (0..total as u64).filter(|i| route[*i as usize] == Some(p)).count();
                let got = ids.iter().filter(|i| **i < total as u64 && route[**i as usize] == Some(p)).count();
                if want != got && !any_drop {
                    bad.push(format!("complete: output {p} was read to the end but delivered {got} of its {want} rows"));
                }
            }
            if preserve {
                let ks: Vec<&Key> = ids.iter().filter(|i| **i < total as u64).map(|i| &all_keys[*i as usize]).collect();
                for wdw in ks.windows(2) {
                    if compare_rows(&scalars(wdw[0]), &scalars(wdw[1]), &opts).unwrap() == std::cmp::Ordering::Greater {
                        bad.push(format!("sorted: output {p} is not sorted: {} before {}", tuple(wdw[0]), tuple(wdw[1])));
                        break;
                    }
                }
            }
        }
        if !any_drop && seen.len() != total && bad.is_empty() {
            bad.push(format!("exactly-once: {} of {total} rows delivered although every output was read to the end", seen.len()));
        }
        if order_kept {
            run.count("x_runs_fifo_judged");
        } else {
            run.add("x_plain_multi_input_reorders_observed_not_judged", reorders);
        }
        if preserve {
            run.count("x_runs_sortedness_judged");
        }
        bad.dedup_by(|a, b| a.split(':').next() == b.split(':').next());
        bad.truncate(6);
        run.oracle(bad.is_empty(), &sig, &bad.join(" | "));
    }
    if let Some(old) = rt.take() {
        old.shutdown_timeout(std::time::Duration::from_secs(2));
    }
}
