//! C26 — parallel byte-range scans read every record exactly once.
//!
//! The real `AlignedBoundaryStream::new(store, path, start, end, size, b'\n')` is driven over an
//! `ObjectStore` wrapper (`PatStore`) that serves every bounded GET in chunk sizes chosen by the
//! harness (cyclic patterns, incl. 0-length chunks and "whole range") and logs each GET
//! `(lo, hi, sizes served)`.
//!
//! (K) correspondence, equality: op `run` ships (terminator, END_SCAN_LOOKAHEAD, start, end, file,
//!     GET log); the Lean model `Sm.Boundary.run` must produce the same EVENT list — every GET
//!     issued and every chunk yielded, in order.  op `tile` ships a file and boundaries; the real
//!     streams' per-range outputs must equal the specification `aligned` used by the tiling theorems.
//! (O) implementation-level oracles (no model): `out(s,e)` = the records that start in `[s,e)`
//!     (computed independently here), every 2-split / random k-split of a file concatenates to the
//!     file with each record exactly once, and `FileGroupPartitioner` ranges scanned through the real
//!     stream reproduce every file.
use std::fmt::{Debug, Display, Formatter};
use std::ops::Range;
use std::sync::{Arc, Mutex};

use async_trait::async_trait;
use bytes::Bytes;
use datafusion_datasource::PartitionedFile;
use datafusion_datasource::boundary_stream::{AlignedBoundaryStream, END_SCAN_LOOKAHEAD};
use datafusion_datasource::file_groups::{FileGroup, FileGroupPartitioner};
use futures::stream::BoxStream;
use futures::{StreamExt, TryStreamExt};
use hutil::{Args, Rng, Run};
use object_store::memory::InMemory;
use object_store::path::Path;
use object_store::{
    CopyOptions, GetOptions, GetRange, GetResult, GetResultPayload, ListResult, MultipartUpload,
    ObjectMeta, ObjectStore, ObjectStoreExt, PutMultipartOptions, PutOptions, PutPayload, PutResult,
    RenameOptions, Result as OsResult,
};

/// chunk size pattern, applied cyclically to every GET response; empty = one chunk per GET
type Pat = Vec<usize>;

#[derive(Clone, Debug)]
struct GetLog {
    lo: u64,
    hi: u64,
    sizes: Vec<usize>,
}

struct PatStore {
    inner: Arc<InMemory>,
    pat: Pat,
    log: Arc<Mutex<Vec<GetLog>>>,
}
impl Debug for PatStore {
    fn fmt(&self, f: &mut Formatter<'_>) -> std::fmt::Result {
        write!(f, "PatStore")
    }
}
impl Display for PatStore {
    fn fmt(&self, f: &mut Formatter<'_>) -> std::fmt::Result {
        write!(f, "PatStore")
    }
}

fn split_by(data: &Bytes, pat: &Pat) -> Vec<Bytes> {
    let mut out = vec![];
    if pat.is_empty() {
        out.push(data.clone());
        return out;
    }
    let mut off = 0usize;
    let mut i = 0usize;
    while off < data.len() {
        let n = pat[i % pat.len()].min(data.len() - off);
        out.push(data.slice(off..off + n));
        off += n;
        i += 1;
    }
    out
}

#[async_trait]
impl ObjectStore for PatStore {
    async fn put_opts(&self, location: &Path, payload: PutPayload, opts: PutOptions) -> OsResult<PutResult> {
        self.inner.put_opts(location, payload, opts).await
    }
    async fn put_multipart_opts(&self, location: &Path, opts: PutMultipartOptions) -> OsResult<Box<dyn MultipartUpload>> {
        self.inner.put_multipart_opts(location, opts).await
    }
    async fn get_opts(&self, location: &Path, options: GetOptions) -> OsResult<GetResult> {
        let bounded = match &options.range {
            Some(GetRange::Bounded(r)) => Some(r.clone()),
            _ => None,
        };
        let r = self.inner.get_opts(location, options).await?;
        let range = r.range.clone();
        let meta = r.meta.clone();
        let attributes = r.attributes.clone();
        let data = r.bytes().await?;
        let chunks = split_by(&data, &self.pat);
        let (lo, hi) = match bounded {
            Some(b) => (b.start, b.end),
            None => (u64::MAX, u64::MAX), // an unbounded GET is never expected from the stream
        };
        self.log.lock().unwrap().push(GetLog { lo, hi, sizes: chunks.iter().map(|c| c.len()).collect() });
        let stream = futures::stream::iter(chunks.into_iter().map(Ok)).boxed();
        Ok(GetResult { payload: GetResultPayload::Stream(stream), meta, range, attributes })
    }
    async fn get_ranges(&self, location: &Path, ranges: &[Range<u64>]) -> OsResult<Vec<Bytes>> {
        self.inner.get_ranges(location, ranges).await
    }
    fn delete_stream(&self, locations: BoxStream<'static, OsResult<Path>>) -> BoxStream<'static, OsResult<Path>> {
        self.inner.delete_stream(locations)
    }
    fn list(&self, prefix: Option<&Path>) -> BoxStream<'static, OsResult<ObjectMeta>> {
        self.inner.list(prefix)
    }
    fn list_with_offset(&self, prefix: Option<&Path>, offset: &Path) -> BoxStream<'static, OsResult<ObjectMeta>> {
        self.inner.list_with_offset(prefix, offset)
    }
    async fn list_with_delimiter(&self, prefix: Option<&Path>) -> OsResult<ListResult> {
        self.inner.list_with_delimiter(prefix).await
    }
    async fn copy_opts(&self, from: &Path, to: &Path, options: CopyOptions) -> OsResult<()> {
        self.inner.copy_opts(from, to, options).await
    }
    async fn rename_opts(&self, from: &Path, to: &Path, options: RenameOptions) -> OsResult<()> {
        self.inner.rename_opts(from, to, options).await
    }
}

#[derive(Debug, Clone)]
enum Ev {
    Get(GetLog),
    Chunk(Vec<u8>),
    Err(String),
}

struct Env {
    rt: tokio::runtime::Runtime,
    inner: Arc<InMemory>,
    path: Path,
}

impl Env {
    fn new() -> Self {
        Env {
            rt: tokio::runtime::Builder::new_current_thread().enable_all().build().unwrap(),
            inner: Arc::new(InMemory::new()),
            path: Path::from("f"),
        }
    }
    fn put(&self, data: &[u8]) {
        let inner = Arc::clone(&self.inner);
        let path = self.path.clone();
        let payload = PutPayload::from(Bytes::copy_from_slice(data));
        self.rt.block_on(async move { inner.put(&path, payload).await.unwrap() });
    }
    /// drain the real stream; events = GETs (as logged by the store) interleaved with yielded chunks
    fn scan(&self, size: u64, s: u64, e: u64, pat: &Pat) -> Vec<Ev> {
        let log = Arc::new(Mutex::new(vec![]));
        let store: Arc<dyn ObjectStore> =
            Arc::new(PatStore { inner: Arc::clone(&self.inner), pat: pat.clone(), log: Arc::clone(&log) });
        let path = self.path.clone();
        let log2 = Arc::clone(&log);
        let fut = async move {
            let mut evs = vec![];
            let drain = |evs: &mut Vec<Ev>| {
                for g in log2.lock().unwrap().drain(..) {
                    evs.push(Ev::Get(g));
                }
            };
            let mut st = match AlignedBoundaryStream::new(store, path, s, e, size, b'\n').await {
                Ok(st) => st,
                Err(err) => {
                    drain(&mut evs);
                    evs.push(Ev::Err(err.to_string()));
                    return evs;
                }
            };
            drain(&mut evs);
            let mut polls = 0u64;
            loop {
                let item = st.next().await;
                drain(&mut evs);
                match item {
                    None => break,
                    Some(Ok(b)) => evs.push(Ev::Chunk(b.to_vec())),
                    Some(Err(err)) => {
                        evs.push(Ev::Err(err.to_string()));
                        break;
                    }
                }
                polls += 1;
                if polls > 4 * size + 64 {
                    evs.push(Ev::Err("runaway".into()));
                    break;
                }
            }
            evs
        };
        // hang guard: generous deadline
        self.rt.block_on(async move {
            match tokio::time::timeout(std::time::Duration::from_secs(30), fut).await {
                Ok(v) => v,
                Err(_) => vec![Ev::Err("hang".into())],
            }
        })
    }
}

fn rle(b: &[u8]) -> String {
    let mut s = String::new();
    let mut i = 0;
    while i < b.len() {
        let mut j = i;
        while j < b.len() && b[j] == b[i] {
            j += 1;
        }
        if !s.is_empty() {
            s.push(',');
        }
        s.push_str(&format!("{}*{}", b[i], j - i));
        i = j;
    }
    s
}
fn rle_sexp(b: &[u8]) -> String {
    let mut s = String::from("(");
    let mut i = 0;
    while i < b.len() {
        let mut j = i;
        while j < b.len() && b[j] == b[i] {
            j += 1;
        }
        if s.len() > 1 {
            s.push(' ');
        }
        s.push_str(&format!("({} {})", b[i], j - i));
        i = j;
    }
    s.push(')');
    s
}

fn show_events(evs: &[Ev]) -> String {
    if evs.is_empty() {
        return "-".into();
    }
    evs.iter()
        .map(|e| match e {
            Ev::Get(g) => format!("G{}-{}", g.lo, g.hi),
            Ev::Chunk(c) => format!("C{}", rle(c)),
            Ev::Err(m) => format!("ERR:{}", m.replace(' ', "_")),
        })
        .collect::<Vec<_>>()
        .join(" ")
}
fn trace_sexp(evs: &[Ev]) -> String {
    let mut s = String::from("(");
    for e in evs {
        if let Ev::Get(g) = e {
            if s.len() > 1 {
                s.push(' ');
            }
            let sizes: Vec<String> = g.sizes.iter().map(|x| x.to_string()).collect();
            s.push_str(&format!("({} {} ({}))", g.lo, g.hi, sizes.join(" ")));
        }
    }
    s.push(')');
    s
}
fn out_bytes(evs: &[Ev]) -> Vec<u8> {
    let mut v = vec![];
    for e in evs {
        if let Ev::Chunk(c) = e {
            v.extend_from_slice(c);
        }
    }
    v
}
fn has_err(evs: &[Ev]) -> bool {
    evs.iter().any(|e| matches!(e, Ev::Err(_)))
}

/// Independent statement of the property: the bytes of the records that START in `[s, e)`
/// (record starts: 0 and every position following a `\n`), empty when `s >= e`.
fn owned_records(file: &[u8], s: u64, e: u64) -> Vec<u8> {
    let mut out = vec![];
    let mut start = 0usize;
    while start < file.len() {
        let mut end = start;
        while end < file.len() && file[end] != b'\n' {
            end += 1;
        }
        if end < file.len() {
            end += 1; // include the terminator
        }
        if (start as u64) >= s && (start as u64) < e {
            out.extend_from_slice(&file[start..end]);
        }
        start = end;
    }
    out
}
fn records(b: &[u8]) -> Vec<Vec<u8>> {
    let mut out = vec![];
    let mut cur = vec![];
    for &x in b {
        cur.push(x);
        if x == b'\n' {
            out.push(std::mem::take(&mut cur));
        }
    }
    if !cur.is_empty() {
        out.push(cur);
    }
    out
}

fn pat_str(p: &Pat) -> String {
    if p.is_empty() { "whole".into() } else { p.iter().map(|x| x.to_string()).collect::<Vec<_>>().join(".") }
}
fn esc(b: &[u8]) -> String {
    if b.len() > 48 { format!("len{}:{}", b.len(), rle(b)) } else { hutil::hex(b) }
}

struct Ctx<'a> {
    run: &'a mut Run,
    env: Env,
}

impl Ctx<'_> {
    /// one correspondence case + the per-range oracle
    fn case_run(&mut self, file: &[u8], s: u64, e: u64, pat: &Pat, record_case: bool) -> Vec<u8> {
        let size = file.len() as u64;
        let evs = self.env.scan(size, s, e, pat);
        let out = out_bytes(&evs);
        let n_gets = evs.iter().filter(|e| matches!(e, Ev::Get(_))).count();
        if record_case {
            let req = format!("(10 {} {} {} {} {})", END_SCAN_LOOKAHEAD, s, e, rle_sexp(file), trace_sexp(&evs));
            // non-trivial: the range is non-empty and cuts the file somewhere other than both ends
            let nontrivial = s < e && s < size && (s > 0 || e < size);
            self.run.case("run", &req, &show_events(&evs), nontrivial);
            self.run.count(match n_gets {
                0 => "gets=0",
                1 => "gets=1",
                2 => "gets=2 (one overflow GET)",
                _ => "gets>=3 (several overflow GETs)",
            });
            if out.is_empty() {
                self.run.count("output empty");
            }
            if s > 0 && s < size && file[(s - 1) as usize] == b'\n' {
                self.run.count("start exactly on a record start");
            }
            if e > 0 && e < size && file[(e - 1) as usize] == b'\n' {
                self.run.count("end exactly on a record start");
            }
        }
        let want = owned_records(file, s, e);
        let ok = !has_err(&evs) && out == want;
        self.run.oracle(
            ok,
            &format!("c26 range file={} start={} end={} chunks={}", esc(file), s, e, pat_str(pat)),
            &format!("AlignedBoundaryStream yielded {} but the records starting in [{s},{e}) are {} (events: {})", esc(&out), esc(&want), show_events(&evs).chars().take(400).collect::<String>()),
        );
        out
    }

    /// scan consecutive ranges given by boundaries (each range with its own chunk pattern); oracle:
    /// concatenation == file, records exactly once in order; correspondence op `tile`
    fn case_tile(&mut self, file: &[u8], bounds: &[u64], pats: &[Pat], record_case: bool) {
        let size = file.len() as u64;
        let mut pieces = vec![];
        let mut prev = 0u64;
        let mut any_err = false;
        for (i, &b) in bounds.iter().enumerate() {
            let evs = self.env.scan(size, prev, b, &pats[i % pats.len()]);
            any_err |= has_err(&evs);
            pieces.push(out_bytes(&evs));
            prev = b;
        }
        let concat: Vec<u8> = pieces.concat();
        let recs: Vec<Vec<u8>> = pieces.iter().flat_map(|p| records(p)).collect();
        let ok = !any_err && concat == file && recs == records(file);
        let bs: Vec<String> = bounds.iter().map(|b| b.to_string()).collect();
        self.run.oracle(
            ok,
            &format!("c26 tile file={} bounds={} chunks={}", esc(file), bs.join(","), pats.iter().map(pat_str).collect::<Vec<_>>().join("/")),
            &format!("ranges produced {:?}; concatenation {} != file {}", pieces.iter().map(|p| esc(p)).collect::<Vec<_>>(), esc(&concat), esc(file)),
        );
        if record_case {
            let req = format!("(10 {} ({}))", rle_sexp(file), bs.join(" "));
            let ans = pieces.iter().map(|p| rle(p)).collect::<Vec<_>>().join("|");
            self.run.case("tile", &req, &ans, bounds.len() >= 2);
            self.run.count(&format!("tile with {} ranges", bounds.len().min(6)));
        }
    }
}

fn all_files(alphabet: &[u8], max_len: usize) -> Vec<Vec<u8>> {
    let mut out = vec![vec![]];
    let mut frontier = vec![vec![]];
    for _ in 0..max_len {
        let mut next = vec![];
        for f in &frontier {
            for &a in alphabet {
                let mut g: Vec<u8> = f.clone();
                g.push(a);
                next.push(g);
            }
        }
        out.extend(next.iter().cloned());
        frontier = next;
    }
    out
}

fn rand_pat(rng: &mut Rng) -> Pat {
    match rng.below(6) {
        0 => vec![],
        1 => vec![1],
        2 => vec![1 + rng.below(4) as usize],
        _ => {
            let n = 1 + rng.below(4) as usize;
            let mut p: Pat = (0..n).map(|_| rng.below(5) as usize).collect();
            if p.iter().all(|&x| x == 0) {
                p[0] = 1 + rng.below(3) as usize;
            }
            p
        }
    }
}

pub fn run(run: &mut Run, args: &Args) {
    let mut rng = Rng::new(args.seed);
    let thorough = run.thorough();
    let mut cx = Ctx { run, env: Env::new() };

    // ---------------------------------------------------------------- (1) exhaustive small files
    // every file over {a,\n} up to len2 and over {a,\n,\r} up to len3, every (start,end) in
    // 0..=size+1 (incl. start>=end, end>size), chunk patterns 1, 2, 3, whole + one random pattern
    // (with empty chunks) per file.
    let (len2, len3) = if thorough { (9, 5) } else { (7, 4) };
    let mut files = all_files(b"a\n", len2);
    files.extend(all_files(b"a\n\r", len3).into_iter().filter(|f| f.contains(&b'\r')));
    let fixed: Vec<Pat> = vec![vec![1], vec![2], vec![3], vec![]];
    for file in &files {
        cx.env.put(file);
        let size = file.len() as u64;
        let mut pats = fixed.clone();
        pats.push(rand_pat(&mut rng));
        pats.push(vec![0, 1 + rng.below(3) as usize]);
        // table of outputs for the 2-split oracle (chunk pattern [1] and whole)
        for (pi, pat) in pats.iter().enumerate() {
            let mut table = std::collections::HashMap::new();
            for s in 0..=size + 1 {
                for e in 0..=size + 1 {
                    let out = cx.case_run(file, s, e, pat, true);
                    table.insert((s, e), out);
                }
            }
            if pi < 4 {
                // every 2-split and 3-split of the file, from the table (implementation outputs only)
                for m in 0..=size {
                    for m2 in m..=size {
                        let mut cat = table[&(0, m)].clone();
                        cat.extend_from_slice(&table[&(m, m2)]);
                        cat.extend_from_slice(&table[&(m2, size)]);
                        cx.run.oracle(
                            cat == *file,
                            &format!("c26 tile file={} bounds={},{},{} chunks={}", esc(file), m, m2, size, pat_str(pat)),
                            &format!("3-split concatenation {} != file", esc(&cat)),
                        );
                    }
                }
            }
        }
    }
    cx.run.add("exhaustive small files", files.len() as u64);

    // ---------------------------------------------------------------- (2) random tilings
    let n_tiles = cx.run.budget(400, 6000);
    for _ in 0..n_tiles {
        let len = rng.below(40) as usize;
        let nl = 1 + rng.below(6);
        let file: Vec<u8> = (0..len)
            .map(|_| if rng.below(nl + 1) == 0 { b'\n' } else if rng.below(9) == 0 { b'\r' } else { b'a' + rng.below(3) as u8 })
            .collect();
        cx.env.put(&file);
        let size = file.len() as u64;
        let k = 1 + rng.below(6) as usize;
        let mut bounds: Vec<u64> = (0..k - 1).map(|_| rng.below(size + 1)).collect();
        bounds.sort();
        if rng.chance(2, 3) {
            bounds.dedup();
            bounds.retain(|&b| b > 0 && b < size);
        }
        bounds.push(size);
        let pats: Vec<Pat> = (0..3).map(|_| rand_pat(&mut rng)).collect();
        cx.case_tile(&file, &bounds, &pats, true);
    }

    // ---------------------------------------------------------------- (3) lines longer than the lookahead
    let la = END_SCAN_LOOKAHEAD as usize;
    let n_long = cx.run.budget(120, 600);
    for i in 0..n_long {
        // file = short head lines, one long line of ~k·LOOKAHEAD ± δ bytes, tail lines (maybe unterminated)
        let k = 1 + rng.below(3) as usize;
        let delta = rng.range(-3, 3);
        let long_len = ((k * la) as i64 + delta) as usize;
        let mut file = vec![];
        for _ in 0..rng.below(3) {
            file.extend(std::iter::repeat_n(b'h', rng.below(5) as usize));
            file.push(b'\n');
        }
        let long_start = file.len();
        file.extend(std::iter::repeat_n(b'L', long_len));
        let has_nl = !rng.chance(1, 6);
        if has_nl {
            file.push(b'\n');
        }
        let long_end = file.len();
        if has_nl {
            for _ in 0..rng.below(3) {
                file.extend(std::iter::repeat_n(b't', rng.below(5) as usize));
                if !rng.chance(1, 5) {
                    file.push(b'\n');
                }
            }
        }
        cx.env.put(&file);
        let size = file.len() as u64;
        // interesting positions: around the long line's start, its end, end - LOOKAHEAD·j ± 2
        let mut pos: Vec<u64> = vec![0, 1, size.saturating_sub(1), size, size + 5];
        for d in 0..3u64 {
            pos.push(long_start as u64 + d);
            pos.push((long_end as u64).saturating_sub(d));
            pos.push(long_end as u64 + d);
            for j in 1..=3u64 {
                let p = (long_end as u64).saturating_sub(j * la as u64);
                pos.push(p + d);
                pos.push(p.saturating_sub(d));
            }
        }
        pos.retain(|&p| p <= size + 5);
        let big_pats: Vec<Pat> = vec![vec![], vec![4096], vec![la], vec![la - 1], vec![la + 1], vec![8192, 1, 0, 5000], vec![1000 + rng.below(9000) as usize]];
        let per_file = if thorough { 40 } else { 12 };
        for _ in 0..per_file {
            let s = *rng.pick(&pos);
            let e = *rng.pick(&pos);
            let pat = if i % 10 == 0 && rng.chance(1, 6) { vec![1 + rng.below(3) as usize] } else { rng.pick(&big_pats).clone() };
            cx.case_run(&file, s, e, &pat, true);
        }
        // tilings through the long line
        let mut bounds: Vec<u64> = (0..1 + rng.below(4)).map(|_| *rng.pick(&pos)).filter(|&b| b < size).collect();
        bounds.sort();
        bounds.push(size);
        cx.case_tile(&file, &bounds, &[rng.pick(&big_pats).clone(), rng.pick(&big_pats).clone()], i % 4 == 0);
        cx.run.count("files with a line beyond the lookahead");
    }

    // ---------------------------------------------------------------- (4) FileGroupPartitioner → streams
    // the byte ranges the real partitioner hands out, scanned by the real stream, reproduce each file
    let n_part = cx.run.budget(150, 2500);
    for _ in 0..n_part {
        let nfiles = 1 + rng.below(4) as usize;
        let mut datas: Vec<Vec<u8>> = vec![];
        for _ in 0..nfiles {
            let len = rng.below(60) as usize;
            let nl = 1 + rng.below(8);
            datas.push((0..len).map(|_| if rng.below(nl + 1) == 0 { b'\n' } else { b'a' + rng.below(3) as u8 }).collect());
        }
        let target = 1 + rng.below(9) as usize;
        let preserve = rng.chance(1, 2);
        let groups: Vec<FileGroup> = if preserve && rng.chance(1, 2) {
            // one file per group (the shape repartition_preserving_order splits)
            (0..nfiles).map(|i| FileGroup::new(vec![PartitionedFile::new(format!("f{i}"), datas[i].len() as u64)])).collect()
        } else {
            vec![FileGroup::new((0..nfiles).map(|i| PartitionedFile::new(format!("f{i}"), datas[i].len() as u64)).collect())]
        };
        let min_size = rng.below(3) as usize * 10;
        let part = FileGroupPartitioner::new()
            .with_target_partitions(target)
            .with_repartition_file_min_size(min_size)
            .with_preserve_order_within_groups(preserve);
        let res = part.repartition_file_groups(&groups);
        let Some(res) = res else {
            cx.run.count("partitioner: None (not repartitioned)");
            if !preserve {
                let sizes: Vec<String> = datas.iter().map(|d| d.len().to_string()).collect();
                cx.run.case("split", &format!("({target} {min_size} ({}))", sizes.join(" ")), "none", false);
            }
            continue;
        };
        cx.run.count(if preserve { "partitioner: preserving order" } else { "partitioner: evenly by size" });
        if !preserve {
            // (K) equality with the model of repartition_evenly_by_size (whole files, flattened order)
            let pieces: Vec<String> = res
                .iter()
                .enumerate()
                .flat_map(|(gi, g)| {
                    g.iter()
                        .map(move |pf| {
                            let idx: usize = pf.path().as_ref()[1..].parse().unwrap();
                            let (a, b) = pf.range.as_ref().map(|r| (r.start, r.end)).unwrap_or((0, pf.object_meta.size as i64));
                            format!("{gi}:{idx}:{a}-{b}")
                        })
                        .collect::<Vec<_>>()
                })
                .collect();
            let sizes: Vec<String> = datas.iter().map(|d| d.len().to_string()).collect();
            let ans = if pieces.is_empty() { "-".to_string() } else { pieces.join(" ") };
            cx.run.case("split", &format!("({target} {min_size} ({}))", sizes.join(" ")), &ans, res.len() > 1);
        }
        // collect ranges per file in group order
        let mut per_file: Vec<Vec<(u64, u64)>> = vec![vec![]; nfiles];
        for g in &res {
            for pf in g.iter() {
                let idx: usize = pf.path().as_ref()[1..].parse().unwrap();
                let (a, b) = match &pf.range {
                    Some(r) => (r.start as u64, r.end as u64),
                    None => (0, pf.object_meta.size),
                };
                per_file[idx].push((a, b));
            }
        }
        for (i, ranges) in per_file.iter_mut().enumerate() {
            ranges.sort();
            let file = &datas[i];
            cx.env.put(file);
            let size = file.len() as u64;
            let pat = rand_pat(&mut rng);
            let mut cat = vec![];
            let mut recs = vec![];
            for &(a, b) in ranges.iter() {
                let out = out_bytes(&cx.env.scan(size, a, b, &pat));
                recs.extend(records(&out));
                cat.extend_from_slice(&out);
            }
            let ok = cat == *file && recs == records(file);
            cx.run.oracle(
                ok,
                &format!("c26 partitioner file={} ranges={:?} target={} preserve={} chunks={}", esc(file), ranges, target, preserve, pat_str(&pat)),
                &format!("scanning the partitioner's ranges gave {} instead of the file", esc(&cat)),
            );
        }
    }
}
