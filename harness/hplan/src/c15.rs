//! C15 — distribution channels + gate (`repartition/distributor_channels.rs`, hook H1).
//!
//! The real channels are driven single-threaded: every `SendFuture` / `RecvFuture` is polled by
//! hand with a hand-made `Waker` that appends its waiter id to a shared wake log, so that every
//! poll result and every `wake()` call (who, in which order) is observable and compared with the
//! coarse Lean model `Sm.Chan` (equality, whole history per request).
//!
//! * exhaustive: ALL valid op sequences of length L over the alphabet
//!   {send c, recv c, clone c, dropTx c, dropRx c} for 1 and 2 channels x <= 2 sender handles
//!   (every shorter sequence is a prefix of one of them and is compared op by op);
//! * random: longer histories over <= 3 channels x <= 3 handles with arbitrary waiter ids,
//!   retained and re-created futures, cancelled futures, receivers dropped while pending,
//!   followed by a fair "drain" epilogue.
//!
//! Implementation-level oracles (no model involved), evaluated from the real code's answers only:
//! FIFO / exactly-once per channel, end-of-stream only after all handles are gone and everything
//! was delivered, `send` fails iff the receiver was dropped, every `Pending` waiter that was not
//! woken is justified (no lost wake-up), the gate blocks exactly when every open channel is
//! non-empty, the fair epilogue reaches quiescence with no sender left pending, no panic.
use std::future::Future;
use std::pin::Pin;
use std::sync::{Arc, Mutex};
use std::task::{Context, Poll, Wake, Waker};

use datafusion_physical_plan::repartition::verif::{
    DistributionReceiver, DistributionSender, channels, partition_aware_channels,
};
use hutil::{Args, Rng, Run};

type WakeLog = Arc<Mutex<Vec<usize>>>;

struct IdWaker {
    id: usize,
    log: WakeLog,
}
impl Wake for IdWaker {
    fn wake(self: Arc<Self>) {
        self.log.lock().unwrap().push(self.id);
    }
    fn wake_by_ref(self: &Arc<Self>) {
        self.log.lock().unwrap().push(self.id);
    }
}

type SendFut = Pin<Box<dyn Future<Output = bool>>>;
type RecvFut = Pin<Box<dyn Future<Output = (DistributionReceiver<u64>, Option<u64>)>>>;

enum PendSend {
    None,
    /// the future is kept between polls (what `.await` does)
    Retained(SendFut, u64, usize),
    /// the future was dropped after `Pending`; a new one carrying the same element is made next time
    Transient(u64, usize),
}

struct Handle {
    tx: Arc<DistributionSender<u64>>,
    pend: PendSend,
}

enum Rx {
    Idle(DistributionReceiver<u64>),
    Pending(RecvFut, usize),
    Gone,
}

#[derive(Clone, Copy, PartialEq, Eq, Debug)]
enum Blk {
    Send(usize),
    Recv(usize),
}

/// One history on real channels plus the bookkeeping derived from the implementation's answers.
struct World {
    n: usize,
    nt: usize,
    handles: Vec<Vec<Handle>>,
    rxs: Vec<Rx>,
    log: WakeLog,
    next_val: u64,
    // derived from impl answers only
    sent: Vec<Vec<u64>>,
    rcvd: Vec<Vec<u64>>,
    eos: Vec<bool>,
    blk: Vec<Option<Blk>>,
    woken: Vec<bool>,
    req: String,
    ans: Vec<String>,
    kinds: std::collections::BTreeSet<&'static str>,
    fails: Vec<(String, String)>,
    n_block: u64,
    n_wake: u64,
}

impl World {
    fn new(n: usize, nt: usize, aware: bool) -> World {
        let (txs, rxs) = if aware {
            let (mut t, mut r) = partition_aware_channels::<u64>(1, n);
            (t.remove(0), r.remove(0))
        } else {
            channels::<u64>(n)
        };
        World {
            n,
            nt,
            handles: txs.into_iter().map(|tx| vec![Handle { tx: Arc::new(tx), pend: PendSend::None }]).collect(),
            rxs: rxs.into_iter().map(Rx::Idle).collect(),
            log: Arc::new(Mutex::new(vec![])),
            next_val: 100,
            sent: vec![vec![]; n],
            rcvd: vec![vec![]; n],
            eos: vec![false; n],
            blk: vec![None; nt],
            woken: vec![false; nt],
            req: format!("({n} {nt}"),
            ans: vec![],
            kinds: Default::default(),
            fails: vec![],
            n_block: 0,
            n_wake: 0,
        }
    }
    fn waker(&self, t: usize) -> Waker {
        Waker::from(Arc::new(IdWaker { id: t, log: self.log.clone() }))
    }
    fn rx_alive(&self, c: usize) -> bool {
        !matches!(self.rxs[c], Rx::Gone)
    }
    fn qlen(&self, c: usize) -> usize {
        if self.rx_alive(c) { self.sent[c].len() - self.rcvd[c].len() } else { 0 }
    }
    fn open(&self, c: usize) -> bool {
        self.rx_alive(c) && !self.handles[c].is_empty()
    }
    fn open_empty(&self) -> usize {
        (0..self.n).filter(|&c| self.open(c) && self.qlen(c) == 0).count()
    }
    fn fail(&mut self, sig: &str, detail: String) {
        self.fails.push((sig.to_string(), detail));
    }
    /// take the wake log of the step just made; update the derived woken flags
    fn finish_op(&mut self, res: &str) {
        let wakes: Vec<usize> = std::mem::take(&mut *self.log.lock().unwrap());
        for &w in &wakes {
            if w < self.nt {
                self.woken[w] = true;
            }
        }
        self.n_wake += wakes.len() as u64;
        if !wakes.is_empty() {
            self.kinds.insert("wake");
        }
        self.ans.push(format!("{res}/{}", wakes.iter().map(|w| w.to_string()).collect::<Vec<_>>().join(",")));
        self.check_justified();
    }
    /// oracle: every blocked, not woken waiter is justified
    fn check_justified(&mut self) {
        for t in 0..self.nt {
            if self.woken[t] {
                continue;
            }
            match self.blk[t] {
                Some(Blk::Send(c)) => {
                    let ok = self.rx_alive(c) && self.open(c) && self.qlen(c) > 0 && self.open_empty() == 0;
                    if !ok {
                        let d = format!(
                            "after `{})`: waiter {t} is Pending on send({c}) and was not woken, but rx_alive={} handles={} queue={} open-empty channels={}",
                            self.req,
                            self.rx_alive(c),
                            self.handles[c].len(),
                            self.qlen(c),
                            self.open_empty()
                        );
                        self.fail("lost-wakeup-sender", d);
                    }
                }
                Some(Blk::Recv(c)) => {
                    let ok = self.rx_alive(c) && self.qlen(c) == 0 && !self.handles[c].is_empty();
                    if !ok {
                        let d = format!(
                            "after `{})`: waiter {t} is Pending on recv({c}) and was not woken, but rx_alive={} queue={} handles={}",
                            self.req,
                            self.rx_alive(c),
                            self.qlen(c),
                            self.handles[c].len()
                        );
                        self.fail("lost-wakeup-receiver", d);
                    }
                }
                None => {}
            }
        }
    }
    /// whoever waited on a future that is now dropped no longer waits
    fn cancel(&mut self, t: usize, what: Blk) {
        if self.blk[t] == Some(what) {
            self.blk[t] = None;
            self.req.push_str(&format!(" (x {t})"));
            self.ans.push("done/".into());
        }
    }

    fn send(&mut self, c: usize, h: usize, t: usize, retained: bool) {
        let gate_should_block = self.rx_alive(c) && self.open_empty() == 0;
        let waker = self.waker(t);
        let mut cx = Context::from_waker(&waker);
        let hd = &mut self.handles[c][h];
        let (mut fut, v): (SendFut, u64) = match std::mem::replace(&mut hd.pend, PendSend::None) {
            PendSend::Retained(f, v, _) => (f, v),
            PendSend::Transient(v, _) => {
                let tx = hd.tx.clone();
                (Box::pin(async move { tx.send(v).await.is_ok() }), v)
            }
            PendSend::None => {
                let v = self.next_val;
                self.next_val += 1;
                let tx = hd.tx.clone();
                (Box::pin(async move { tx.send(v).await.is_ok() }), v)
            }
        };
        self.req.push_str(&format!(" (s {c} {t} {v})"));
        self.woken[t] = false;
        let r = fut.as_mut().poll(&mut cx);
        let res = match r {
            Poll::Ready(true) => {
                self.sent[c].push(v);
                self.blk[t] = None;
                self.kinds.insert("send-ok");
                "ok"
            }
            Poll::Ready(false) => {
                self.blk[t] = None;
                self.kinds.insert("send-err");
                "err"
            }
            Poll::Pending => {
                self.blk[t] = Some(Blk::Send(c));
                self.n_block += 1;
                self.kinds.insert("send-pending");
                let hd = &mut self.handles[c][h];
                hd.pend = if retained { PendSend::Retained(fut, v, t) } else { PendSend::Transient(v, t) };
                "pend"
            }
        };
        // oracles on this poll
        if (res == "err") != !self.rx_alive(c) {
            let d = format!("after `{})`: send({c}) answered {res} but receiver alive = {}", self.req, self.rx_alive(c));
            self.fail("send-err-iff-receiver-gone", d);
        }
        if self.rx_alive(c) && (res == "pend") != gate_should_block {
            let d = format!("after `{})`: send({c}) answered {res} but (every open channel non-empty) = {gate_should_block}", self.req);
            self.fail("gate-exact", d);
        }
        self.finish_op(res);
    }

    fn recv(&mut self, c: usize, t: usize, retained: bool) {
        let waker = self.waker(t);
        let mut cx = Context::from_waker(&waker);
        self.req.push_str(&format!(" (r {c} {t})"));
        self.woken[t] = false;
        let st = std::mem::replace(&mut self.rxs[c], Rx::Gone);
        let r: Poll<Option<u64>> = match st {
            Rx::Gone => unreachable!("generator never polls a dropped receiver"),
            Rx::Pending(mut f, _) => match f.as_mut().poll(&mut cx) {
                Poll::Ready((rx, v)) => {
                    self.rxs[c] = Rx::Idle(rx);
                    Poll::Ready(v)
                }
                Poll::Pending => {
                    self.rxs[c] = Rx::Pending(f, t);
                    Poll::Pending
                }
            },
            Rx::Idle(mut rx) => {
                if retained {
                    let mut f: RecvFut = Box::pin(async move {
                        let v = rx.recv().await;
                        (rx, v)
                    });
                    match f.as_mut().poll(&mut cx) {
                        Poll::Ready((rx, v)) => {
                            self.rxs[c] = Rx::Idle(rx);
                            Poll::Ready(v)
                        }
                        Poll::Pending => {
                            self.rxs[c] = Rx::Pending(f, t);
                            Poll::Pending
                        }
                    }
                } else {
                    let r = {
                        let mut f = rx.recv();
                        Pin::new(&mut f).poll(&mut cx)
                    };
                    self.rxs[c] = Rx::Idle(rx);
                    r
                }
            }
        };
        let res = match r {
            Poll::Ready(Some(v)) => {
                self.rcvd[c].push(v);
                self.blk[t] = None;
                self.kinds.insert("recv-some");
                // FIFO / exactly-once: the k-th value received is the k-th value accepted
                let k = self.rcvd[c].len() - 1;
                if self.sent[c].get(k) != Some(&v) {
                    let d = format!("after `{})`: recv({c}) returned {v} as element #{k}; accepted sends were {:?}", self.req, self.sent[c]);
                    self.fail("fifo-exactly-once", d);
                }
                format!("some:{v}")
            }
            Poll::Ready(None) => {
                self.blk[t] = None;
                self.eos[c] = true;
                self.kinds.insert("recv-eos");
                if !self.handles[c].is_empty() || self.sent[c] != self.rcvd[c] {
                    let d = format!(
                        "after `{})`: recv({c}) returned None with {} live sender handle(s), accepted {:?}, delivered {:?}",
                        self.req,
                        self.handles[c].len(),
                        self.sent[c],
                        self.rcvd[c]
                    );
                    self.fail("eos-too-early", d);
                }
                "none".to_string()
            }
            Poll::Pending => {
                self.blk[t] = Some(Blk::Recv(c));
                self.n_block += 1;
                self.kinds.insert("recv-pending");
                if self.handles[c].is_empty() || self.sent[c].len() != self.rcvd[c].len() {
                    let d = format!("after `{})`: recv({c}) is Pending with {} handles and {} undelivered", self.req, self.handles[c].len(), self.sent[c].len() - self.rcvd[c].len());
                    self.fail("recv-pending-unjustified", d);
                }
                "rpend".to_string()
            }
        };
        self.finish_op(&res);
    }

    fn clone_tx(&mut self, c: usize, h: usize) {
        let tx = DistributionSender::clone(&self.handles[c][h].tx);
        self.handles[c].push(Handle { tx: Arc::new(tx), pend: PendSend::None });
        self.req.push_str(&format!(" (c {c})"));
        self.kinds.insert("clone");
        self.finish_op("done");
    }

    fn drop_tx(&mut self, c: usize, h: usize) {
        let hd = self.handles[c].remove(h);
        // the future borrowing this handle goes first (no channel effect)
        match hd.pend {
            PendSend::Retained(f, _, t) => {
                drop(f);
                self.cancel(t, Blk::Send(c));
            }
            PendSend::Transient(_, t) => self.cancel(t, Blk::Send(c)),
            PendSend::None => {}
        }
        if self.handles[c].is_empty() {
            // no SendFuture on c can exist any more
            for t in 0..self.nt {
                if self.blk[t] == Some(Blk::Send(c)) {
                    self.blk[t] = None;
                }
            }
        }
        assert_eq!(Arc::strong_count(&hd.tx), 1);
        self.req.push_str(&format!(" (dt {c})"));
        drop(hd.tx);
        self.kinds.insert(if self.handles[c].is_empty() { "drop-last-tx" } else { "drop-tx" });
        self.finish_op("done");
    }

    fn drop_rx(&mut self, c: usize) {
        let st = std::mem::replace(&mut self.rxs[c], Rx::Gone);
        self.req.push_str(&format!(" (dr {c})"));
        for t in 0..self.nt {
            if self.blk[t] == Some(Blk::Recv(c)) {
                self.blk[t] = None;
            }
        }
        match st {
            Rx::Idle(rx) => drop(rx),
            Rx::Pending(f, _) => {
                self.kinds.insert("drop-rx-while-pending");
                drop(f)
            }
            Rx::Gone => unreachable!(),
        }
        self.kinds.insert("drop-rx");
        self.finish_op("done");
    }

    /// fair epilogue: woken senders re-poll, receivers keep polling, until nothing moves
    fn drain(&mut self, rng: &mut Rng) {
        for _round in 0..200 {
            let mut moved = false;
            for c in 0..self.n {
                if self.rx_alive(c) && !self.eos[c] {
                    for _ in 0..50 {
                        let before = self.rcvd[c].len();
                        // the receiver's own waiter id: nt-1-c keeps it apart from sender waiters
                        let t = self.nt - 1 - c;
                        self.recv(c, t, rng.chance(1, 2));
                        if self.rcvd[c].len() == before {
                            break;
                        }
                        moved = true;
                    }
                }
            }
            for c in 0..self.n {
                for h in 0..self.handles[c].len() {
                    let (pending, t) = match &self.handles[c][h].pend {
                        PendSend::Retained(_, _, t) => (true, *t),
                        PendSend::Transient(_, t) => (true, *t),
                        PendSend::None => (false, 0),
                    };
                    if pending && (self.woken[t] || self.blk[t] != Some(Blk::Send(c))) {
                        self.send(c, h, t, true);
                        moved = true;
                    }
                }
            }
            if !moved {
                break;
            }
        }
        // quiescence: no sender may still be pending while its receiver lives and keeps polling
        for c in 0..self.n {
            for h in 0..self.handles[c].len() {
                if !matches!(self.handles[c][h].pend, PendSend::None) {
                    let d = format!("after `{})`: a send on channel {c} is still Pending although every live receiver was drained", self.req);
                    self.fail("deadlock-sender-stuck", d);
                }
            }
        }
        // close: drop all handles, every live receiver must deliver the rest and then report None
        for c in 0..self.n {
            while !self.handles[c].is_empty() {
                self.drop_tx(c, 0);
            }
        }
        for c in 0..self.n {
            if self.rx_alive(c) && !self.eos[c] {
                let t = self.nt - 1 - c;
                for _ in 0..60 {
                    self.recv(c, t, false);
                    if self.eos[c] {
                        break;
                    }
                }
                if !self.eos[c] || self.sent[c] != self.rcvd[c] {
                    let d = format!("after `{})`: channel {c} closed by its senders; eos={} accepted={:?} delivered={:?}", self.req, self.eos[c], self.sent[c], self.rcvd[c]);
                    self.fail("close-not-reported", d);
                }
            }
        }
    }

    fn finish(mut self, run: &mut Run, label: &str, nontrivial_min: usize) {
        self.req.push(')');
        let blocked: Vec<String> = (0..self.nt)
            .filter(|&t| !self.woken[t])
            .filter_map(|t| match self.blk[t] {
                Some(Blk::Send(c)) => Some(format!("{t}>s{c}")),
                Some(Blk::Recv(c)) => Some(format!("{t}>r{c}")),
                None => None,
            })
            .collect();
        let oe = self.open_empty();
        let closed = if oe == 0 && self.n > 0 { 1 } else { 0 };
        let qs: Vec<String> = (0..self.n).map(|c| self.qlen(c).to_string()).collect();
        self.ans.push(format!("B:{}", blocked.join(",")));
        self.ans.push(format!("E:{oe}/{closed}/{}", qs.join(",")));
        for k in &self.kinds {
            run.count(k);
        }
        run.add("polls_pending", self.n_block);
        run.add("wakes", self.n_wake);
        let nontrivial = self.n_block >= 1 && self.n_wake >= 1 && self.kinds.len() >= nontrivial_min;
        run.case("run", &self.req, &self.ans.join(" "), nontrivial);
        if self.fails.is_empty() {
            run.oracle(true, label, "");
        } else {
            // one oracle record per distinct kind of failure; the signature names kind + history
            let mut seen = std::collections::BTreeSet::new();
            for (sig, d) in &self.fails {
                if seen.insert(sig.clone()) {
                    run.oracle(false, &format!("{sig} {}", self.req), d);
                }
            }
        }
    }
}

/// alphabet of the exhaustive enumeration (model-level ops; handles/waiters chosen canonically)
#[derive(Clone, Copy, Debug)]
enum Sym {
    Send(usize),
    Recv(usize),
    Clone(usize),
    DropTx(usize),
    DropRx(usize),
}

fn enabled(w: &World, max_handles: usize) -> Vec<Sym> {
    let mut v = vec![];
    for c in 0..w.n {
        if !w.handles[c].is_empty() {
            v.push(Sym::Send(c));
            if w.handles[c].len() < max_handles {
                v.push(Sym::Clone(c));
            }
            v.push(Sym::DropTx(c));
        }
        if w.rx_alive(c) {
            v.push(Sym::Recv(c));
            v.push(Sym::DropRx(c));
        }
    }
    v
}

fn apply(w: &mut World, s: Sym) {
    match s {
        // waiter ids: sender handle h of channel c polls with id 2c+h... but handles shift on
        // removal, so the id is that of the *slot*; receivers use nt-1-c
        Sym::Send(c) => {
            // prefer a handle that has a pending future (re-poll), else the newest handle
            let h = w.handles[c]
                .iter()
                .position(|h| !matches!(h.pend, PendSend::None))
                .unwrap_or(w.handles[c].len() - 1);
            let t = match &w.handles[c][h].pend {
                PendSend::Retained(_, _, t) => *t,
                _ => 2 * c + h,
            };
            w.send(c, h, t, true)
        }
        Sym::Recv(c) => {
            let t = w.nt - 1 - c;
            w.recv(c, t, true)
        }
        Sym::Clone(c) => w.clone_tx(c, 0),
        Sym::DropTx(c) => {
            let h = w.handles[c].len() - 1;
            w.drop_tx(c, h)
        }
        Sym::DropRx(c) => w.drop_rx(c),
    }
}

/// all valid sequences of exactly `len` symbols (shorter ones are prefixes): DFS over choice
/// indices, each maximal sequence replayed from scratch on fresh real channels.
fn exhaustive(run: &mut Run, n: usize, len: usize) {
    let nt = 2 * n + n + 2;
    let mut path: Vec<usize> = vec![];
    let mut count = 0u64;
    // iterative DFS by "odometer" over enabled-choice indices
    loop {
        let mut w = World::new(n, nt, false);
        let mut widths: Vec<usize> = vec![];
        let mut k = 0;
        let res = hutil::catch(std::panic::AssertUnwindSafe(|| {
            while k < len {
                let en = enabled(&w, 2);
                if en.is_empty() {
                    break;
                }
                if k == path.len() {
                    path.push(0);
                }
                widths.push(en.len());
                apply(&mut w, en[path[k]]);
                k += 1;
            }
        }));
        if let Err(e) = res {
            run.oracle(false, &format!("panic {}", w.req), &format!("history `{})` panicked in the real code: {e}", w.req));
        }
        path.truncate(k);
        count += 1;
        w.finish(run, &format!("exhaustive n={n} #{count}"), 4);
        // advance the odometer
        loop {
            match path.pop() {
                None => {
                    run.add(&format!("exhaustive_n{n}_len{len}"), count);
                    return;
                }
                Some(i) => {
                    let wd = widths[path.len()];
                    if i + 1 < wd {
                        path.push(i + 1);
                        break;
                    }
                }
            }
        }
    }
}

fn random_history(run: &mut Run, rng: &mut Rng, idx: u64) {
    let n = 1 + rng.below(3) as usize;
    let nt = 12;
    let aware = rng.chance(1, 4);
    let len = 8 + rng.below(if run.thorough() { 60 } else { 30 }) as usize;
    // bias: some histories rarely receive, so the gate closes and senders pile up
    let recv_w = *rng.pick(&[5u64, 15, 30, 45]);
    let mut w = World::new(n, nt, aware);
    let do_drain = rng.chance(3, 4);
    let res = hutil::catch(std::panic::AssertUnwindSafe(|| {
        for _ in 0..len {
            let c = rng.below(n as u64) as usize;
            let x = rng.below(100);
            // sender/cancel waiters use ids 0..8, drain receivers use nt-1-c
            let t = rng.below(8) as usize;
            if x < recv_w {
                if w.rx_alive(c) {
                    let keep = rng.chance(1, 2);
                    w.recv(c, t, keep);
                }
            } else if x < recv_w + 8 {
                if !w.handles[c].is_empty() && w.handles[c].len() < 3 {
                    let h = rng.below(w.handles[c].len() as u64) as usize;
                    w.clone_tx(c, h);
                }
            } else if x < recv_w + 14 {
                if !w.handles[c].is_empty() {
                    let h = rng.below(w.handles[c].len() as u64) as usize;
                    w.drop_tx(c, h);
                }
            } else if x < recv_w + 18 {
                if w.rx_alive(c) {
                    w.drop_rx(c);
                }
            } else if x < recv_w + 21 {
                // cancel a retained pending send future
                if let Some(h) = w.handles[c].iter().position(|h| matches!(h.pend, PendSend::Retained(..))) {
                    if let PendSend::Retained(f, _, t) = std::mem::replace(&mut w.handles[c][h].pend, PendSend::None) {
                        drop(f);
                        w.cancel(t, Blk::Send(c));
                        w.kinds.insert("cancel-send");
                    }
                }
            } else if !w.handles[c].is_empty() {
                let h = rng.below(w.handles[c].len() as u64) as usize;
                let keep = rng.chance(2, 3);
                // a retained future is re-polled by whoever comes (possibly another waiter id)
                w.send(c, h, t, keep);
            }
        }
        if do_drain {
            w.drain(rng);
        }
    }));
    if let Err(e) = res {
        run.oracle(false, &format!("panic {}", w.req), &format!("history `{})` panicked in the real code: {e}", w.req));
    }
    run.count(&format!("random_n{n}"));
    if aware {
        run.count("via_partition_aware_channels");
    }
    w.finish(run, &format!("random #{idx}"), 5);
}

pub fn run(run: &mut Run, args: &Args) {
    let mut rng = Rng::new(args.seed);
    hutil::quiet_panics();
    // exhaustive part (seed-independent)
    let (l1, l2, l3) = if run.thorough() { (10, 7, 5) } else { (8, 6, 4) };
    exhaustive(run, 1, l1);
    exhaustive(run, 2, l2);
    exhaustive(run, 3, l3);
    // 0 channels: nothing can be done; the constructor must not panic
    {
        let w = World::new(0, 2, false);
        w.finish(run, "n=0", 99);
    }
    let n_rand = run.budget(20_000, 400_000);
    for i in 0..n_rand {
        random_history(run, &mut rng, i);
    }
    let _ = std::panic::take_hook();
    // real-thread detectors (hand-off wakers, race sweeps) + their self-test
    crate::rt15::run_detectors(run, &mut rng);
}
