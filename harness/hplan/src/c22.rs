//! C22 — statistics-based pruning never skips a container with a matching row.
//! Tie (K, refinement): real `PruningPredicateBuilder::try_build(expr).prune(&stats)` with a
//! harness `PruningStatistics` computed from generated row sets and randomly weakened (bounds
//! loosened, statistics unknown per container or per column, junk bounds for all-NULL columns).
//!   (i)  `prune` request carries the impl's keep/skip bits; the Lean model answers `ok` iff
//!        impl_skip ⇒ model_skip;
//!   (ii) oracle (no model): impl_skip ⇒ no row of the container satisfies the predicate,
//!        evaluated row-by-row by the engine (`PhysicalExpr::evaluate` on the container's rows);
//!   (iii) `eval` request: Lean row semantics == engine row semantics on every container.
//! A second oracle-only pass answers `contained()` correctly from the real value sets
//! (LiteralGuarantee first pass).
use std::collections::HashSet;
use std::sync::Arc;

use arrow::array::{Array, ArrayRef, BooleanArray, Int64Array, RecordBatch, UInt64Array};
use arrow::datatypes::{DataType, Field, Schema, SchemaRef};
use datafusion_common::{Column as DfColumn, ScalarValue};
use datafusion_expr_common::operator::Operator;
use datafusion_physical_expr::PhysicalExpr;
use datafusion_physical_expr::expressions::{BinaryExpr, Column, IsNotNullExpr, IsNullExpr, Literal, NotExpr, in_list};
use datafusion_pruning::{PruningPredicateBuilder, PruningStatistics};
use hutil::{Args, Rng, Run};

const NI: usize = 2; // int columns i0, i1
const NB: usize = 1; // bool column b0

#[derive(Clone, Debug)]
enum E {
    Lit(Option<bool>),
    Cmp(&'static str, usize, Option<i64>),
    CmpR(&'static str, Option<i64>, usize),
    CC(&'static str, usize, usize),
    IsNull(usize),
    IsNotNull(usize),
    BCol(usize),
    Not(Box<E>),
    And(Box<E>, Box<E>),
    Or(Box<E>, Box<E>),
    In(usize, Vec<Option<i64>>, bool),
}

fn s_oi(v: Option<i64>) -> String {
    v.map(|x| x.to_string()).unwrap_or("n".into())
}
fn s_ob(v: Option<bool>) -> String {
    match v {
        Some(true) => "t".into(),
        Some(false) => "f".into(),
        None => "n".into(),
    }
}

impl E {
    fn sexp(&self) -> String {
        match self {
            E::Lit(b) => format!("(lit {})", s_ob(*b)),
            E::Cmp(o, c, l) => format!("(cmp {o} {c} {})", s_oi(*l)),
            E::CmpR(o, l, c) => format!("(cmpr {o} {} {c})", s_oi(*l)),
            E::CC(o, a, b) => format!("(cc {o} {a} {b})"),
            E::IsNull(c) => format!("(isnull {c})"),
            E::IsNotNull(c) => format!("(isnotnull {c})"),
            E::BCol(c) => format!("(bcol {c})"),
            E::Not(e) => format!("(not {})", e.sexp()),
            E::And(a, b) => format!("(and {} {})", a.sexp(), b.sexp()),
            E::Or(a, b) => format!("(or {} {})", a.sexp(), b.sexp()),
            E::In(c, ls, n) => format!(
                "(in {c} ({}) {})",
                ls.iter().map(|l| s_oi(*l)).collect::<Vec<_>>().join(" "),
                if *n { "t" } else { "f" }
            ),
        }
    }
    fn kind(&self) -> &'static str {
        match self {
            E::Lit(_) => "lit",
            E::Cmp(..) => "cmp",
            E::CmpR(..) => "cmpr",
            E::CC(..) => "colcol",
            E::IsNull(_) => "isnull",
            E::IsNotNull(_) => "isnotnull",
            E::BCol(_) => "bcol",
            E::Not(_) => "not",
            E::And(..) => "and",
            E::Or(..) => "or",
            E::In(..) => "in",
        }
    }
    fn count_kinds(&self, run: &mut Run) {
        run.count(&format!("node/{}", self.kind()));
        match self {
            E::Not(e) => e.count_kinds(run),
            E::And(a, b) | E::Or(a, b) => {
                a.count_kinds(run);
                b.count_kinds(run);
            }
            _ => {}
        }
    }
    fn phys(&self, schema: &Schema) -> Arc<dyn PhysicalExpr> {
        let icol = |c: usize| Arc::new(Column::new(&format!("i{c}"), c)) as Arc<dyn PhysicalExpr>;
        let bcol = |c: usize| Arc::new(Column::new(&format!("b{c}"), NI + c)) as Arc<dyn PhysicalExpr>;
        let ilit = |v: Option<i64>| Arc::new(Literal::new(ScalarValue::Int64(v))) as Arc<dyn PhysicalExpr>;
        let op = |o: &str| match o {
            "eq" => Operator::Eq,
            "ne" => Operator::NotEq,
            "lt" => Operator::Lt,
            "le" => Operator::LtEq,
            "gt" => Operator::Gt,
            _ => Operator::GtEq,
        };
        match self {
            E::Lit(b) => Arc::new(Literal::new(ScalarValue::Boolean(*b))),
            E::Cmp(o, c, l) => Arc::new(BinaryExpr::new(icol(*c), op(o), ilit(*l))),
            E::CmpR(o, l, c) => Arc::new(BinaryExpr::new(ilit(*l), op(o), icol(*c))),
            E::CC(o, a, b) => Arc::new(BinaryExpr::new(icol(*a), op(o), icol(*b))),
            E::IsNull(c) => Arc::new(IsNullExpr::new(icol(*c))),
            E::IsNotNull(c) => Arc::new(IsNotNullExpr::new(icol(*c))),
            E::BCol(c) => bcol(*c),
            E::Not(e) => Arc::new(NotExpr::new(e.phys(schema))),
            E::And(a, b) => Arc::new(BinaryExpr::new(a.phys(schema), Operator::And, b.phys(schema))),
            E::Or(a, b) => Arc::new(BinaryExpr::new(a.phys(schema), Operator::Or, b.phys(schema))),
            E::In(c, ls, n) => in_list(icol(*c), ls.iter().map(|l| ilit(*l)).collect(), n, schema).unwrap(),
        }
    }
}

const OPS: [&str; 6] = ["eq", "ne", "lt", "le", "gt", "ge"];

fn gen_lit(rng: &mut Rng) -> Option<i64> {
    match rng.below(12) {
        0 => None,
        1 => Some(i64::MIN),
        2 => Some(i64::MAX),
        _ => Some(rng.range(-4, 4)),
    }
}

fn gen_expr(rng: &mut Rng, depth: u32) -> E {
    let leaf = depth == 0 || rng.chance(1, 3);
    if leaf {
        match rng.below(20) {
            0 => E::Lit(*rng.pick(&[Some(true), Some(false), None])),
            1..=7 => E::Cmp(*rng.pick(&OPS), rng.below(NI as u64) as usize, gen_lit(rng)),
            8..=10 => E::CmpR(*rng.pick(&OPS), gen_lit(rng), rng.below(NI as u64) as usize),
            11 => E::CC(*rng.pick(&OPS), 0, 1),
            12 | 13 => E::IsNull(rng.below(NI as u64) as usize),
            14 | 15 => E::IsNotNull(rng.below(NI as u64) as usize),
            16 => E::BCol(0),
            17 => E::Not(Box::new(E::BCol(0))),
            _ => {
                let n = if rng.chance(1, 12) { 21 + rng.below(3) } else { 1 + rng.below(4) };
                let ls = (0..n).map(|_| gen_lit(rng)).collect();
                E::In(rng.below(NI as u64) as usize, ls, rng.chance(1, 2))
            }
        }
    } else {
        match rng.below(7) {
            0..=2 => E::And(Box::new(gen_expr(rng, depth - 1)), Box::new(gen_expr(rng, depth - 1))),
            3..=5 => E::Or(Box::new(gen_expr(rng, depth - 1)), Box::new(gen_expr(rng, depth - 1))),
            _ => E::Not(Box::new(gen_expr(rng, depth - 1))),
        }
    }
}

#[derive(Clone, Debug)]
struct RowV {
    iv: [Option<i64>; NI],
    bv: [Option<bool>; NB],
}

#[derive(Clone, Debug, Default)]
struct CStat {
    imin: [Option<i64>; NI],
    imax: [Option<i64>; NI],
    inulls: [Option<u64>; NI],
    bmin: [Option<bool>; NB],
    bmax: [Option<bool>; NB],
    rows: Option<u64>,
}
impl CStat {
    fn sexp(&self) -> String {
        let ic: Vec<String> = (0..NI)
            .map(|c| format!("({} {} {})", s_oi(self.imin[c]), s_oi(self.imax[c]), self.inulls[c].map(|x| x.to_string()).unwrap_or("n".into())))
            .collect();
        let bc: Vec<String> = (0..NB).map(|c| format!("({} {})", s_ob(self.bmin[c]), s_ob(self.bmax[c]))).collect();
        format!("((ic {}) (bc {}) {})", ic.join(" "), bc.join(" "), self.rows.map(|x| x.to_string()).unwrap_or("n".into()))
    }
}

fn gen_rows(rng: &mut Rng) -> Vec<RowV> {
    let n = rng.below(6) as usize;
    // per-container flavour: narrow value ranges make pruning fire
    let base = rng.range(-4, 4);
    let spread = rng.below(4) as i64;
    let null_mode = rng.below(4); // 0: no nulls, 1: some, 2: column 0 all null, 3: some
    (0..n)
        .map(|_| {
            let mut iv = [None; NI];
            for (c, slot) in iv.iter_mut().enumerate() {
                let isnull = match null_mode {
                    0 => false,
                    2 => c == 0 || rng.chance(1, 4),
                    _ => rng.chance(1, 4),
                };
                if !isnull {
                    *slot = Some(match rng.below(30) {
                        0 => i64::MIN,
                        1 => i64::MAX,
                        _ => base + rng.range(0, spread),
                    });
                }
            }
            let bmode = rng.below(4);
            let bv = [match bmode {
                0 => Some(true),
                1 => Some(false),
                2 => None,
                _ => Some(rng.chance(1, 2)),
            }];
            RowV { iv, bv }
        })
        .collect()
}

/// exact statistics of the rows, then weakened
fn stats_of(rows: &[RowV], rng: &mut Rng, run: &mut Run) -> CStat {
    let mut s = CStat::default();
    for c in 0..NI {
        let vals: Vec<i64> = rows.iter().filter_map(|r| r.iv[c]).collect();
        let loosen = |rng: &mut Rng| *rng.pick(&[0i64, 0, 0, 1, 2, 5]);
        if let (Some(mn), Some(mx)) = (vals.iter().min(), vals.iter().max()) {
            s.imin[c] = Some(mn.saturating_sub(loosen(rng)));
            s.imax[c] = Some(mx.saturating_add(loosen(rng)));
        } else if rng.chance(1, 3) {
            // no non-null value: any bound is valid ("junk" bounds exercise the null-count wrap)
            s.imin[c] = Some(rng.range(-4, 4));
            s.imax[c] = Some(rng.range(-4, 4));
            run.count("stats/junk-bounds-on-all-null");
        }
        s.inulls[c] = Some(rows.iter().filter(|r| r.iv[c].is_none()).count() as u64);
        if rng.chance(1, 6) {
            s.imin[c] = None;
            run.count("stats/min-unknown");
        }
        if rng.chance(1, 6) {
            s.imax[c] = None;
            run.count("stats/max-unknown");
        }
        if rng.chance(1, 6) {
            s.inulls[c] = None;
            run.count("stats/nulls-unknown");
        }
    }
    for c in 0..NB {
        let vals: Vec<bool> = rows.iter().filter_map(|r| r.bv[c]).collect();
        if let (Some(mn), Some(mx)) = (vals.iter().min(), vals.iter().max()) {
            s.bmin[c] = Some(*mn && rng.chance(5, 6));
            s.bmax[c] = Some(*mx || rng.chance(1, 6));
        }
        if rng.chance(1, 6) {
            s.bmin[c] = None;
        }
        if rng.chance(1, 6) {
            s.bmax[c] = None;
        }
    }
    s.rows = Some(rows.len() as u64);
    if rng.chance(1, 8) {
        s.rows = None;
        run.count("stats/rows-unknown");
    }
    s
}

struct Stats {
    cs: Vec<CStat>,
    /// whole-column "no statistics" switches
    drop_min: [bool; NI],
    drop_max: [bool; NI],
    drop_nulls: [bool; NI],
    drop_rows: bool,
    /// real value sets for `contained` (None = answer unknown)
    values: Option<Vec<Vec<RowV>>>,
}
fn col_index(c: &DfColumn) -> (bool, usize) {
    let n = c.name();
    (n.starts_with('b'), n[1..].parse().unwrap())
}
impl PruningStatistics for Stats {
    fn min_values(&self, column: &DfColumn) -> Option<ArrayRef> {
        let (is_b, c) = col_index(column);
        if is_b {
            Some(Arc::new(BooleanArray::from(self.cs.iter().map(|s| s.bmin[c]).collect::<Vec<_>>())))
        } else if self.drop_min[c] {
            None
        } else {
            Some(Arc::new(Int64Array::from(self.cs.iter().map(|s| s.imin[c]).collect::<Vec<_>>())))
        }
    }
    fn max_values(&self, column: &DfColumn) -> Option<ArrayRef> {
        let (is_b, c) = col_index(column);
        if is_b {
            Some(Arc::new(BooleanArray::from(self.cs.iter().map(|s| s.bmax[c]).collect::<Vec<_>>())))
        } else if self.drop_max[c] {
            None
        } else {
            Some(Arc::new(Int64Array::from(self.cs.iter().map(|s| s.imax[c]).collect::<Vec<_>>())))
        }
    }
    fn num_containers(&self) -> usize {
        self.cs.len()
    }
    fn null_counts(&self, column: &DfColumn) -> Option<ArrayRef> {
        let (is_b, c) = col_index(column);
        if is_b || self.drop_nulls[c] {
            None
        } else {
            Some(Arc::new(UInt64Array::from(self.cs.iter().map(|s| s.inulls[c]).collect::<Vec<_>>())))
        }
    }
    fn row_counts(&self) -> Option<ArrayRef> {
        if self.drop_rows {
            None
        } else {
            Some(Arc::new(UInt64Array::from(self.cs.iter().map(|s| s.rows).collect::<Vec<_>>())))
        }
    }
    fn contained(&self, column: &DfColumn, values: &HashSet<ScalarValue>) -> Option<BooleanArray> {
        let vs = self.values.as_ref()?;
        let (is_b, c) = col_index(column);
        if is_b {
            return None;
        }
        // true: every (non-null) value of the column is in the set; false: none is; else unknown
        Some(BooleanArray::from(
            vs.iter()
                .map(|rows| {
                    let col: Vec<Option<i64>> = rows.iter().map(|r| r.iv[c]).collect();
                    if col.iter().any(|v| v.is_none()) || col.is_empty() {
                        return None; // NULLs: stay unknown
                    }
                    let ins: Vec<bool> = col.iter().map(|v| values.contains(&ScalarValue::Int64(*v))).collect();
                    if ins.iter().all(|x| *x) {
                        Some(true)
                    } else if ins.iter().all(|x| !*x) {
                        Some(false)
                    } else {
                        None
                    }
                })
                .collect::<Vec<_>>(),
        ))
    }
}

fn schema() -> SchemaRef {
    let mut f = vec![];
    for c in 0..NI {
        f.push(Field::new(format!("i{c}"), DataType::Int64, true));
    }
    for c in 0..NB {
        f.push(Field::new(format!("b{c}"), DataType::Boolean, true));
    }
    Arc::new(Schema::new(f))
}

fn batch_of(schema: &SchemaRef, rows: &[RowV]) -> RecordBatch {
    let mut cols: Vec<ArrayRef> = vec![];
    for c in 0..NI {
        cols.push(Arc::new(Int64Array::from(rows.iter().map(|r| r.iv[c]).collect::<Vec<_>>())));
    }
    for c in 0..NB {
        cols.push(Arc::new(BooleanArray::from(rows.iter().map(|r| r.bv[c]).collect::<Vec<_>>())));
    }
    RecordBatch::try_new(Arc::clone(schema), cols).unwrap()
}

/// engine row-by-row truth values
fn engine_eval(p: &Arc<dyn PhysicalExpr>, schema: &SchemaRef, rows: &[RowV]) -> Result<Vec<Option<bool>>, String> {
    if rows.is_empty() {
        return Ok(vec![]);
    }
    let b = batch_of(schema, rows);
    let v = p.evaluate(&b).map_err(|e| e.to_string())?;
    let a = v.into_array(rows.len()).map_err(|e| e.to_string())?;
    let a = a.as_any().downcast_ref::<BooleanArray>().ok_or("not boolean")?.clone();
    Ok((0..a.len()).map(|i| if a.is_null(i) { None } else { Some(a.value(i)) }).collect())
}

pub fn run(run: &mut Run, args: &Args) {
    let mut rng = Rng::new(args.seed);
    let schema = schema();
    let n_cases = run.budget(6000, 120_000);
    for _ in 0..n_cases {
        let depth = 1 + rng.below(3) as u32;
        let e = gen_expr(&mut rng, depth);
        e.count_kinds(run);
        let p = e.phys(&schema);
        let nc = 1 + rng.below(4) as usize;
        let conts: Vec<Vec<RowV>> = (0..nc).map(|_| gen_rows(&mut rng)).collect();
        let cs: Vec<CStat> = conts.iter().map(|r| stats_of(r, &mut rng, run)).collect();
        let mut st = Stats { cs, drop_min: [false; NI], drop_max: [false; NI], drop_nulls: [false; NI], drop_rows: rng.chance(1, 12), values: None };
        for c in 0..NI {
            st.drop_min[c] = rng.chance(1, 15);
            st.drop_max[c] = rng.chance(1, 15);
            st.drop_nulls[c] = rng.chance(1, 15);
        }
        // what the model sees: whole-column drops = every container unknown
        let seen: Vec<CStat> = st
            .cs
            .iter()
            .map(|s| {
                let mut s = s.clone();
                for c in 0..NI {
                    if st.drop_min[c] {
                        s.imin[c] = None;
                    }
                    if st.drop_max[c] {
                        s.imax[c] = None;
                    }
                    if st.drop_nulls[c] {
                        s.inulls[c] = None;
                    }
                }
                if st.drop_rows {
                    s.rows = None;
                }
                s
            })
            .collect();

        let pp = match PruningPredicateBuilder::new().with_file_schema(Arc::clone(&schema)).try_build(Arc::clone(&p)) {
            Ok(pp) => pp,
            Err(_) => {
                run.count("build-error");
                continue;
            }
        };
        // engine truth values per container
        let truth: Vec<Result<Vec<Option<bool>>, String>> = conts.iter().map(|rows| engine_eval(&p, &schema, rows)).collect();
        for (rows, t) in conts.iter().zip(truth.iter()) {
            if let Ok(t) = t {
                if !rows.is_empty() {
                    let rs: Vec<String> = rows
                        .iter()
                        .map(|r| format!("(({}) ({}))", r.iv.iter().map(|v| s_oi(*v)).collect::<Vec<_>>().join(" "), r.bv.iter().map(|v| s_ob(*v)).collect::<Vec<_>>().join(" ")))
                        .collect();
                    let ans: Vec<String> = t.iter().map(|v| s_ob(*v)).collect();
                    run.case("eval", &format!("({} ({}))", e.sexp(), rs.join(" ")), &ans.join(" "), t.iter().any(|v| *v == Some(true)) && t.iter().any(|v| *v != Some(true)));
                }
            } else {
                run.count("engine-eval-error");
            }
        }
        for pass in 0..2 {
            if pass == 1 {
                st.values = Some(conts.clone());
            }
            let bits = match pp.prune(&st) {
                Ok(b) => b,
                Err(_) => {
                    run.count("prune-error");
                    continue;
                }
            };
            let n_skip = bits.iter().filter(|b| !**b).count();
            if pass == 0 {
                run.add("containers", bits.len() as u64);
                run.add("containers-skipped-by-impl", n_skip as u64);
                let bs: Vec<&str> = bits.iter().map(|b| if *b { "k" } else { "s" }).collect();
                let cs: Vec<String> = seen.iter().map(|s| s.sexp()).collect();
                run.case("prune", &format!("({} ({}) ({}))", e.sexp(), cs.join(" "), bs.join(" ")), "ok", n_skip > 0);
            } else {
                run.add("containers-skipped-with-contained", n_skip as u64);
            }
            // (ii) direct oracle
            for (k, keep) in bits.iter().enumerate() {
                if !*keep {
                    if let Ok(t) = &truth[k] {
                        let hit = t.iter().position(|v| *v == Some(true));
                        run.oracle(
                            hit.is_none(),
                            &format!("prune-skips-matching{} expr={} stats={}", if pass == 1 { "-contained" } else { "" }, e.sexp(), seen[k].sexp()),
                            &format!("container {k} skipped but row {:?} = {:?} satisfies the predicate", hit, hit.map(|h| &conts[k][h])),
                        );
                    }
                }
            }
        }
    }
    run.note("rows: 0..5 per container, values base+0..3 in -4..7 plus i64::MIN/MAX, NULLs in 4 modes (none/some/all-null column); stats exact then loosened by 0/1/2/5, unknown per container (1/6) or per column (1/15), junk bounds for all-NULL columns; predicates depth 1..3 over cmp/cmpR/col-col/IS [NOT] NULL/bool col/NOT/AND/OR/IN (1..4 and 21..23 elements, NULL elements)");
}
