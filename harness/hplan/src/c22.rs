//! C22 — statistics-based pruning never skips a container with a matching row.
//!
//! Two generators feed the real `PruningPredicateBuilder::try_build(expr).prune(&stats)`:
//!
//! * **modelled fragment** (`E`): comparisons, `=`/`!=`, IS [NOT] NULL, IS [NOT] DISTINCT FROM a
//!   literal, boolean column / NOT column, NOT, AND, OR, [NOT] IN — every case goes to the Lean
//!   model: `prune` (refinement: impl_skip ⇒ model_skip) and `eval` (Lean row semantics == engine);
//! * **wide generator** (`wide_expr`): everything the rewrite accepts or gives up on — IS [NOT]
//!   DISTINCT FROM over int/bool/string columns, literals incl. NULL and column-column; LIKE / NOT
//!   LIKE / ILIKE / NOT ILIKE on Utf8 and Utf8View with prefixes containing `%`, `_`, `\%`, `\_`,
//!   `\\`, backslash + ordinary character, trailing backslash, empty prefix, non-ASCII, U+007F and
//!   U+10FFFF (`increment_utf8` edges); CAST / TRY_CAST to narrower ints and to strings; `-col`;
//!   `col ± k`, `col * k`; boolean column vs literal; string comparisons; [NOT] IN lists with NULLs,
//!   with > 20 items and with non-literal members; nested AND / OR / NOT of all of these.  The model
//!   answers `unsupported` for these (counted as uncovered); the **model-free oracle** runs on all:
//!
//!   (ii) impl skipped a container ⇒ no row of it satisfies the predicate, the predicate being
//!        evaluated row by row by the ENGINE; run with `contained() = None` and with a
//!        `contained()` computed exactly from the rows (randomly answering None);
//!   (iv) `LiteralGuarantee::analyze(p)`: every row satisfying `p` satisfies every guarantee.
//!
//! Statistics: exact from the rows, then weakened (looser bounds, unknown per container / per
//! column for min, max, null_count, row_count in every combination, junk bounds on all-NULL columns).
use std::cell::RefCell;
use std::collections::HashSet;
use std::sync::Arc;

use arrow::array::{Array, ArrayRef, BooleanArray, Int64Array, RecordBatch, StringArray, StringViewArray, UInt64Array};
use arrow::datatypes::{DataType, Field, Schema, SchemaRef};
use datafusion_common::{Column as DfColumn, ScalarValue};
use datafusion_expr_common::operator::Operator;
use datafusion_physical_expr::PhysicalExpr;
use datafusion_physical_expr::expressions::{BinaryExpr, Column, IsNotNullExpr, IsNullExpr, LikeExpr, Literal, NegativeExpr, NotExpr, cast, in_list, try_cast};
use datafusion_physical_expr::utils::{Guarantee, LiteralGuarantee};
use datafusion_pruning::{PruningPredicateBuilder, PruningStatistics};
use hutil::{Args, Rng, Run};

const NI: usize = 2; // int columns i0, i1          (schema index 0, 1)
const NB: usize = 1; // bool column b0              (schema index 2)
const NS: usize = 2; // string columns s0 Utf8, s1 Utf8View (schema index 3, 4)

type PE = Arc<dyn PhysicalExpr>;

// ------------------------------------------------------------------ modelled fragment

#[derive(Clone, Debug)]
enum E {
    Lit(Option<bool>),
    Cmp(&'static str, usize, Option<i64>),
    CmpR(&'static str, Option<i64>, usize),
    CC(&'static str, usize, usize),
    IsNull(usize),
    IsNotNull(usize),
    BCol(usize),
    Not(Box<E>),
    And(Box<E>, Box<E>),
    Or(Box<E>, Box<E>),
    In(usize, Vec<Option<i64>>, bool),
    /// (negated = IS NOT DISTINCT FROM, column, literal, literal on the left)
    Distinct(bool, usize, Option<i64>, bool),
}

fn s_oi(v: Option<i64>) -> String {
    v.map(|x| x.to_string()).unwrap_or("n".into())
}
fn s_ob(v: Option<bool>) -> String {
    match v {
        Some(true) => "t".into(),
        Some(false) => "f".into(),
        None => "n".into(),
    }
}

fn icol(c: usize) -> PE {
    Arc::new(Column::new(&format!("i{c}"), c))
}
fn bcol(c: usize) -> PE {
    Arc::new(Column::new(&format!("b{c}"), NI + c))
}
fn scol(c: usize) -> PE {
    Arc::new(Column::new(&format!("s{c}"), NI + NB + c))
}
fn ilit(v: Option<i64>) -> PE {
    Arc::new(Literal::new(ScalarValue::Int64(v)))
}
fn blit(v: Option<bool>) -> PE {
    Arc::new(Literal::new(ScalarValue::Boolean(v)))
}
/// string literal of the column's own type (s0: Utf8, s1: Utf8View)
fn slit(c: usize, v: Option<&str>) -> PE {
    let v = v.map(|x| x.to_string());
    Arc::new(Literal::new(if c == 0 { ScalarValue::Utf8(v) } else { ScalarValue::Utf8View(v) }))
}
fn slit_o(c: usize, v: Option<String>) -> PE {
    slit(c, v.as_deref())
}
fn cmp_op(o: &str) -> Operator {
    match o {
        "eq" => Operator::Eq,
        "ne" => Operator::NotEq,
        "lt" => Operator::Lt,
        "le" => Operator::LtEq,
        "gt" => Operator::Gt,
        _ => Operator::GtEq,
    }
}
fn bin(l: PE, op: Operator, r: PE) -> PE {
    Arc::new(BinaryExpr::new(l, op, r))
}

impl E {
    fn sexp(&self) -> String {
        match self {
            E::Lit(b) => format!("(lit {})", s_ob(*b)),
            E::Cmp(o, c, l) => format!("(cmp {o} {c} {})", s_oi(*l)),
            E::CmpR(o, l, c) => format!("(cmpr {o} {} {c})", s_oi(*l)),
            E::CC(o, a, b) => format!("(cc {o} {a} {b})"),
            E::IsNull(c) => format!("(isnull {c})"),
            E::IsNotNull(c) => format!("(isnotnull {c})"),
            E::BCol(c) => format!("(bcol {c})"),
            E::Not(e) => format!("(not {})", e.sexp()),
            E::And(a, b) => format!("(and {} {})", a.sexp(), b.sexp()),
            E::Or(a, b) => format!("(or {} {})", a.sexp(), b.sexp()),
            E::In(c, ls, n) => format!("(in {c} ({}) {})", ls.iter().map(|l| s_oi(*l)).collect::<Vec<_>>().join(" "), if *n { "t" } else { "f" }),
            E::Distinct(neg, c, l, _) => format!("(distinct {} {c} {})", if *neg { "t" } else { "f" }, s_oi(*l)),
        }
    }
    fn kind(&self) -> &'static str {
        match self {
            E::Lit(_) => "lit",
            E::Cmp(..) => "cmp",
            E::CmpR(..) => "cmpr",
            E::CC(..) => "colcol",
            E::IsNull(_) => "isnull",
            E::IsNotNull(_) => "isnotnull",
            E::BCol(_) => "bcol",
            E::Not(_) => "not",
            E::And(..) => "and",
            E::Or(..) => "or",
            E::In(..) => "in",
            E::Distinct(false, ..) => "is-distinct-from",
            E::Distinct(true, ..) => "is-not-distinct-from",
        }
    }
    fn count_kinds(&self, run: &mut Run) {
        run.count(&format!("node/{}", self.kind()));
        match self {
            E::Not(e) => e.count_kinds(run),
            E::And(a, b) | E::Or(a, b) => {
                a.count_kinds(run);
                b.count_kinds(run);
            }
            _ => {}
        }
    }
    fn phys(&self, schema: &Schema) -> PE {
        match self {
            E::Lit(b) => blit(*b),
            E::Cmp(o, c, l) => bin(icol(*c), cmp_op(o), ilit(*l)),
            E::CmpR(o, l, c) => bin(ilit(*l), cmp_op(o), icol(*c)),
            E::CC(o, a, b) => bin(icol(*a), cmp_op(o), icol(*b)),
            E::IsNull(c) => Arc::new(IsNullExpr::new(icol(*c))),
            E::IsNotNull(c) => Arc::new(IsNotNullExpr::new(icol(*c))),
            E::BCol(c) => bcol(*c),
            E::Not(e) => Arc::new(NotExpr::new(e.phys(schema))),
            E::And(a, b) => bin(a.phys(schema), Operator::And, b.phys(schema)),
            E::Or(a, b) => bin(a.phys(schema), Operator::Or, b.phys(schema)),
            E::In(c, ls, n) => in_list(icol(*c), ls.iter().map(|l| ilit(*l)).collect(), n, schema).unwrap(),
            E::Distinct(neg, c, l, left) => {
                let op = if *neg { Operator::IsNotDistinctFrom } else { Operator::IsDistinctFrom };
                if *left { bin(ilit(*l), op, icol(*c)) } else { bin(icol(*c), op, ilit(*l)) }
            }
        }
    }
}

const OPS: [&str; 6] = ["eq", "ne", "lt", "le", "gt", "ge"];

/// values that really occur in the generated containers: literals and patterns are drawn from
/// them half of the time so that predicates hit the data (min == max == literal, prefixes of
/// stored strings, …) instead of almost always missing it
#[derive(Default)]
struct Hints {
    ints: Vec<i64>,
    strs: Vec<String>,
}
impl Hints {
    fn int(&self, rng: &mut Rng) -> Option<i64> {
        if self.ints.is_empty() { None } else { Some(*rng.pick(&self.ints)) }
    }
    fn string(&self, rng: &mut Rng) -> Option<String> {
        if self.strs.is_empty() { None } else { Some(rng.pick(&self.strs).clone()) }
    }
    /// a LIKE pattern built from a stored string: a prefix of it, wildcard characters escaped,
    /// ordinary characters sometimes escaped too (`\x` means `x`), then a tail
    fn pattern(&self, rng: &mut Rng) -> Option<String> {
        let s = self.string(rng)?;
        let chars: Vec<char> = s.chars().collect();
        let k = rng.below(chars.len() as u64 + 1) as usize;
        let mut p = String::new();
        for c in &chars[..k] {
            if matches!(c, '%' | '_' | '\\') || rng.chance(1, 4) {
                p.push('\\');
            }
            p.push(*c);
        }
        p.push_str(*rng.pick(&["%", "%", "", "_", "%z", "_%"]));
        Some(p)
    }
}

fn gen_lit(rng: &mut Rng, h: &Hints) -> Option<i64> {
    if rng.chance(1, 2) {
        if let Some(v) = h.int(rng) {
            return Some(v);
        }
    }
    match rng.below(12) {
        0 => None,
        1 => Some(i64::MIN),
        2 => Some(i64::MAX),
        _ => Some(rng.range(-4, 4)),
    }
}

fn gen_expr(rng: &mut Rng, depth: u32, h: &Hints) -> E {
    let leaf = depth == 0 || rng.chance(1, 3);
    if leaf {
        match rng.below(24) {
            0 => E::Lit(*rng.pick(&[Some(true), Some(false), None])),
            1..=7 => E::Cmp(*rng.pick(&OPS), rng.below(NI as u64) as usize, gen_lit(rng, h)),
            8..=10 => E::CmpR(*rng.pick(&OPS), gen_lit(rng, h), rng.below(NI as u64) as usize),
            11 => E::CC(*rng.pick(&OPS), 0, 1),
            12 | 13 => E::IsNull(rng.below(NI as u64) as usize),
            14 | 15 => E::IsNotNull(rng.below(NI as u64) as usize),
            16 => E::BCol(0),
            17 => E::Not(Box::new(E::BCol(0))),
            18..=21 => {
                let l = if rng.chance(1, 4) { None } else { gen_lit(rng, h) };
                E::Distinct(rng.chance(1, 2), rng.below(NI as u64) as usize, l, rng.chance(1, 3))
            }
            _ => {
                let n = if rng.chance(1, 12) { 21 + rng.below(3) } else { 1 + rng.below(4) };
                let ls = (0..n).map(|_| gen_lit(rng, h)).collect();
                E::In(rng.below(NI as u64) as usize, ls, rng.chance(1, 2))
            }
        }
    } else {
        match rng.below(7) {
            0..=2 => E::And(Box::new(gen_expr(rng, depth - 1, h)), Box::new(gen_expr(rng, depth - 1, h))),
            3..=5 => E::Or(Box::new(gen_expr(rng, depth - 1, h)), Box::new(gen_expr(rng, depth - 1, h))),
            _ => E::Not(Box::new(gen_expr(rng, depth - 1, h))),
        }
    }
}

// ------------------------------------------------------------------ wide generator (oracle only)

/// string values rows are drawn from (base + suffix); patterns are drawn from the same alphabet
const S_BASE: [&str; 10] = ["fo", "foo", "f", "", "é", "fo\u{7f}", "fo\u{10FFFF}", "FO", "fo\\", "\u{10FFFF}"];
const S_SUFFIX: [&str; 14] = ["", "a", "o", "%", "_", "\\", "\u{10FFFF}", "z", "o\\o", "ob", "p", "\u{7f}", "é", "O"];
/// LIKE patterns: prefixes with `%`, `_`, `\%`, `\_`, `\\`, backslash + ordinary char, trailing
/// backslash, empty prefix, non-ASCII, U+007F / U+10FFFF (increment_utf8 edges)
const PATTERNS: [&str; 40] = [
    "foo%", "fo%", "f%", "%", "", "foo", "fo_", "f_o", "_", "%foo", "%o%", "f%o", "foo%a", "fo%%",
    "fo\\%%", "fo\\%", "fo\\_%", "fo\\_", "fo\\\\%", "fo\\\\", "fo\\o%", "f\\oo", "f\\oo%", "\\foo%", "fo\\ob%",
    "foo\\", "fo\\", "\\", "é%", "é", "fo\u{7f}%", "fo\u{10FFFF}%", "\u{10FFFF}%", "\u{10FFFF}\u{10FFFF}%", "fo\u{10FFFF}",
    "FO%", "Fo%", "fO_", "foo_%", "fo\u{7f}\u{10FFFF}%",
];
const S_LITS: [&str; 10] = ["foo", "fo", "", "fop", "é", "fo\u{10FFFF}", "FO", "foo%", "g", "fooa"];

fn gen_str(rng: &mut Rng, base: &str) -> String {
    format!("{base}{}", rng.pick(&S_SUFFIX))
}

/// what a top-level leaf is, for the generator-sensitivity counters (does the run contain inputs on
/// which a plausible defect in that branch of the rewrite would change the answer?)
#[derive(Clone, Debug)]
enum Probe {
    /// `icol IS DISTINCT FROM <non-null int literal>`
    DistinctLit(usize, i64),
    /// `scol LIKE pattern`, pattern containing backslash + ordinary character
    LikeBackslash(usize, String),
    /// `icol IN (literals…, non-literal)` (not negated)
    InNonLiteral(usize, Vec<i64>),
}

fn wide_leaf(rng: &mut Rng, schema: &Schema, tags: &mut Vec<&'static str>, h: &Hints, probe: &mut Option<Probe>) -> PE {
    let ic = rng.below(NI as u64) as usize;
    let sc = rng.below(NS as u64) as usize;
    let small = |rng: &mut Rng| {
        if rng.chance(1, 10) {
            None
        } else if rng.chance(1, 2) {
            h.int(rng).filter(|v| (-100..=100).contains(v)).or(Some(rng.range(-4, 6)))
        } else {
            Some(rng.range(-4, 6))
        }
    };
    // a string literal: from the data half of the time
    let sl = |rng: &mut Rng| -> String {
        if rng.chance(1, 2) {
            if let Some(x) = h.string(rng) {
                return x;
            }
        }
        rng.pick(&S_LITS).to_string()
    };
    match rng.below(30) {
        0..=2 => {
            // IS [NOT] DISTINCT FROM on every column type; literal incl. NULL; either side; col-col
            let op = if rng.chance(1, 2) { tags.push("is-distinct-from"); Operator::IsDistinctFrom } else { tags.push("is-not-distinct-from"); Operator::IsNotDistinctFrom };
            let (c, l): (PE, PE) = match rng.below(4) {
                0 => (bcol(0), blit(*rng.pick(&[Some(true), Some(false), None]))),
                1 => (scol(sc), slit_o(sc, if rng.chance(1, 5) { None } else { Some(sl(rng)) })),
                2 => {
                    tags.push("distinct-col-col");
                    (icol(0), icol(1))
                }
                _ => {
                    let v = small(rng);
                    if let (Some(v), Operator::IsDistinctFrom) = (v, op) {
                        *probe = Some(Probe::DistinctLit(ic, v));
                    }
                    (icol(ic), ilit(v))
                }
            };
            if rng.chance(1, 3) { bin(l, op, c) } else { bin(c, op, l) }
        }
        3..=9 => {
            // LIKE family
            let negated = rng.chance(1, 3);
            let ci = rng.chance(1, 6);
            tags.push(match (negated, ci) {
                (false, false) => "like",
                (true, false) => "not-like",
                (false, true) => "ilike",
                (true, true) => "not-ilike",
            });
            let from_data = if rng.chance(1, 3) { h.pattern(rng) } else { None };
            if from_data.is_some() {
                tags.push("like-pattern-from-data");
            }
            let pat: String = from_data.unwrap_or_else(|| rng.pick(&PATTERNS).to_string());
            let pat = pat.as_str();
            if pat.contains("\\") {
                tags.push("like-pattern-with-backslash");
            }
            if pat.contains('\u{10FFFF}') || pat.contains('\u{7f}') {
                tags.push("like-pattern-increment-edge");
            }
            if !negated && !ci && has_backslash_before_ordinary(pat) {
                *probe = Some(Probe::LikeBackslash(sc, pat.to_string()));
            }
            let pat = if rng.chance(1, 25) { None } else { Some(pat) };
            if pat.is_none() {
                *probe = None;
            }
            Arc::new(LikeExpr::new(negated, ci, scol(sc), slit(sc, pat)))
        }
        10 | 11 => {
            tags.push("string-cmp");
            let l = slit_o(sc, if rng.chance(1, 10) { None } else { Some(sl(rng)) });
            if rng.chance(1, 3) { bin(l, cmp_op(*rng.pick(&OPS)), scol(sc)) } else { bin(scol(sc), cmp_op(*rng.pick(&OPS)), l) }
        }
        12 | 13 => {
            tags.push("bool-vs-literal");
            let l = blit(*rng.pick(&[Some(true), Some(false), None]));
            let op = *rng.pick(&[Operator::Eq, Operator::NotEq, Operator::Eq]);
            let c: PE = if rng.chance(1, 4) { Arc::new(NotExpr::new(bcol(0))) } else { bcol(0) };
            if rng.chance(1, 3) { bin(l, op, c) } else { bin(c, op, l) }
        }
        14..=16 => {
            // CAST / TRY_CAST of the column
            let (dt, lit): (DataType, PE) = match rng.below(5) {
                0 => (DataType::Int32, Arc::new(Literal::new(ScalarValue::Int32(small(rng).map(|x| x as i32))))),
                1 => (DataType::Int16, Arc::new(Literal::new(ScalarValue::Int16(small(rng).map(|x| x as i16))))),
                2 => (DataType::Int8, Arc::new(Literal::new(ScalarValue::Int8(small(rng).map(|x| x as i8))))),
                3 => (DataType::Utf8, Arc::new(Literal::new(ScalarValue::Utf8(Some(rng.range(-4, 12).to_string()))))),
                _ => (DataType::UInt8, Arc::new(Literal::new(ScalarValue::UInt8(Some(rng.below(6) as u8))))),
            };
            let is_try = rng.chance(1, 2);
            tags.push(if is_try { "try_cast" } else { "cast" });
            if dt == DataType::Utf8 {
                tags.push("cast-to-string");
            }
            let c = if is_try { try_cast(icol(ic), schema, dt) } else { cast(icol(ic), schema, dt) }.unwrap();
            bin(c, cmp_op(*rng.pick(&OPS)), lit)
        }
        17 | 18 => {
            tags.push("negated-column");
            bin(Arc::new(NegativeExpr::new(icol(ic))), cmp_op(*rng.pick(&OPS)), ilit(small(rng)))
        }
        19 | 20 => {
            tags.push("column-arithmetic");
            let k = ilit(Some(rng.range(-3, 3)));
            let op = *rng.pick(&[Operator::Plus, Operator::Minus, Operator::Multiply]);
            bin(bin(icol(ic), op, k), cmp_op(*rng.pick(&OPS)), ilit(small(rng)))
        }
        21..=24 => {
            // IN lists: ints / strings, NULL members, > 20 items, non-literal members
            let negated = rng.chance(1, 2);
            tags.push(if negated { "not-in" } else { "in" });
            let n = if rng.chance(1, 8) {
                tags.push("in-more-than-20");
                21 + rng.below(4)
            } else {
                1 + rng.below(4)
            } as usize;
            if rng.chance(1, 4) {
                let list: Vec<PE> = (0..n).map(|_| slit_o(sc, if rng.chance(1, 8) { None } else { Some(sl(rng)) })).collect();
                tags.push("in-strings");
                in_list(scol(sc), list, &negated, schema).unwrap()
            } else {
                let mut has_null = false;
                let mut lits: Vec<i64> = vec![];
                let mut list: Vec<PE> = (0..n)
                    .map(|_| {
                        let v = small(rng);
                        has_null |= v.is_none();
                        lits.extend(v);
                        ilit(v)
                    })
                    .collect();
                if has_null {
                    tags.push("in-with-null");
                }
                if rng.chance(1, 3) {
                    tags.push("in-non-literal-member");
                    let other = icol(1 - ic);
                    let m: PE = if rng.chance(1, 2) { other } else { bin(other, Operator::Plus, ilit(Some(1))) };
                    let at = rng.below(list.len() as u64 + 1) as usize;
                    list.insert(at, m);
                    if !negated {
                        *probe = Some(Probe::InNonLiteral(ic, lits.clone()));
                    }
                }
                in_list(icol(ic), list, &negated, schema).unwrap()
            }
        }
        25 => {
            tags.push("is-null");
            let c = *rng.pick(&[0usize, 1, 2, 3, 4]);
            let col: PE = Arc::new(Column::new(schema.field(c).name(), c));
            if rng.chance(1, 2) { Arc::new(IsNullExpr::new(col)) } else { Arc::new(IsNotNullExpr::new(col)) }
        }
        _ => {
            tags.push("modelled-leaf");
            gen_expr(rng, 0, h).phys(schema)
        }
    }
}

fn has_backslash_before_ordinary(p: &str) -> bool {
    let cs: Vec<char> = p.chars().collect();
    let mut i = 0;
    while i < cs.len() {
        if cs[i] == '\\' {
            if i + 1 < cs.len() && !matches!(cs[i + 1], '%' | '_' | '\\') {
                return true;
            }
            i += 2;
        } else {
            i += 1;
        }
    }
    false
}

fn wide_expr(rng: &mut Rng, schema: &Schema, depth: u32, tags: &mut Vec<&'static str>, h: &Hints, probe: &mut Option<Probe>) -> PE {
    if depth == 0 || rng.chance(1, 3) {
        return wide_leaf(rng, schema, tags, h, probe);
    }
    // probes describe a top-level leaf only
    let mut none: Option<Probe> = None;
    let probe = &mut none;
    match rng.below(7) {
        0..=2 => bin(wide_expr(rng, schema, depth - 1, tags, h, probe), Operator::And, wide_expr(rng, schema, depth - 1, tags, h, probe)),
        3..=5 => bin(wide_expr(rng, schema, depth - 1, tags, h, probe), Operator::Or, wide_expr(rng, schema, depth - 1, tags, h, probe)),
        _ => {
            tags.push("not");
            Arc::new(NotExpr::new(wide_expr(rng, schema, depth - 1, tags, h, probe)))
        }
    }
}

/// Targeted scenarios for predicate/container shapes whose pruning hinges on one disjunct or one
/// un-escaping step (each was once a seeded defect the random generator did not reach):
/// returns (predicate, probe, rows of the first container, tag)
fn targeted(rng: &mut Rng, schema: &Schema) -> (PE, Probe, Vec<RowV>, &'static str) {
    let n = 2 + rng.below(4) as usize;
    let other = |rng: &mut Rng| -> RowV {
        RowV {
            iv: [Some(rng.range(-4, 4)), if rng.chance(1, 4) { None } else { Some(rng.range(-4, 4)) }],
            bv: [*rng.pick(&[Some(true), Some(false), None])],
            sv: [Some(gen_str(rng, "fo")), if rng.chance(1, 4) { None } else { Some(gen_str(rng, "foo")) }],
        }
    };
    match rng.below(3) {
        0 => {
            // constant column with NULL rows: `col IS DISTINCT FROM const` matches exactly the NULL rows
            let v = rng.range(-4, 4);
            let c = rng.below(NI as u64) as usize;
            let mut rows: Vec<RowV> = (0..n).map(|_| other(rng)).collect();
            for (k, r) in rows.iter_mut().enumerate() {
                r.iv[c] = if k == 0 { None } else if k == 1 { Some(v) } else if rng.chance(1, 3) { None } else { Some(v) };
            }
            let p = if rng.chance(1, 3) { bin(ilit(Some(v)), Operator::IsDistinctFrom, icol(c)) } else { bin(icol(c), Operator::IsDistinctFrom, ilit(Some(v))) };
            (p, Probe::DistinctLit(c, v), rows, "targeted/distinct-from-constant-column-with-nulls")
        }
        1 => {
            // all strings share a prefix; the pattern spells it with backslashes before ordinary chars
            let word = *rng.pick(&["foo", "fob", "fo_x", "f%o", "éa", "fo\\o", "FOo"]);
            let c = rng.below(NS as u64) as usize;
            let mut rows: Vec<RowV> = (0..n).map(|_| other(rng)).collect();
            for r in rows.iter_mut() {
                r.sv[c] = if rng.chance(1, 6) { None } else { Some(format!("{word}{}", rng.pick(&S_SUFFIX))) };
            }
            rows[0].sv[c] = Some(word.to_string());
            let chars: Vec<char> = word.chars().collect();
            let forced = rng.below(chars.len() as u64) as usize;
            let mut pat = String::new();
            for (k, ch) in chars.iter().enumerate() {
                let ordinary = !matches!(ch, '%' | '_' | '\\');
                if !ordinary || rng.chance(1, 3) || (k == forced) {
                    pat.push('\\');
                }
                pat.push(*ch);
            }
            pat.push_str(*rng.pick(&["%", "%", ""]));
            let p: PE = Arc::new(LikeExpr::new(false, false, scol(c), slit(c, Some(&pat))));
            (p, Probe::LikeBackslash(c, pat), rows, "targeted/like-backslash-before-ordinary-char")
        }
        _ => {
            // `a IN (literals, b)` with rows where a = b is none of the literals
            let c = rng.below(NI as u64) as usize;
            let lits: Vec<i64> = (0..1 + rng.below(3)).map(|_| rng.range(5, 9)).collect();
            let mut rows: Vec<RowV> = (0..n).map(|_| other(rng)).collect();
            for r in rows.iter_mut() {
                let v = rng.range(-4, 4);
                r.iv[c] = Some(v);
                r.iv[1 - c] = if rng.chance(2, 3) { Some(v) } else { Some(v + 1) };
            }
            rows[0].iv[1 - c] = rows[0].iv[c];
            let mut list: Vec<PE> = lits.iter().map(|v| ilit(Some(*v))).collect();
            let at = rng.below(list.len() as u64 + 1) as usize;
            list.insert(at, icol(1 - c));
            let p = in_list(icol(c), list, &false, schema).unwrap();
            (p, Probe::InNonLiteral(c, lits), rows, "targeted/in-list-with-non-literal-member")
        }
    }
}

// ------------------------------------------------------------------ rows and statistics

#[derive(Clone, Debug)]
struct RowV {
    iv: [Option<i64>; NI],
    bv: [Option<bool>; NB],
    sv: [Option<String>; NS],
}

#[derive(Clone, Debug, Default)]
struct CStat {
    imin: [Option<i64>; NI],
    imax: [Option<i64>; NI],
    inulls: [Option<u64>; NI],
    bmin: [Option<bool>; NB],
    bmax: [Option<bool>; NB],
    bnulls: [Option<u64>; NB],
    smin: [Option<String>; NS],
    smax: [Option<String>; NS],
    snulls: [Option<u64>; NS],
    rows: Option<u64>,
}
impl CStat {
    /// what the Lean model sees (int and bool columns)
    fn sexp(&self) -> String {
        let ic: Vec<String> = (0..NI)
            .map(|c| format!("({} {} {})", s_oi(self.imin[c]), s_oi(self.imax[c]), self.inulls[c].map(|x| x.to_string()).unwrap_or("n".into())))
            .collect();
        let bc: Vec<String> = (0..NB).map(|c| format!("({} {})", s_ob(self.bmin[c]), s_ob(self.bmax[c]))).collect();
        format!("((ic {}) (bc {}) {})", ic.join(" "), bc.join(" "), self.rows.map(|x| x.to_string()).unwrap_or("n".into()))
    }
    fn full(&self) -> String {
        format!("{} smin={:?} smax={:?} snulls={:?} bnulls={:?}", self.sexp(), self.smin, self.smax, self.snulls, self.bnulls)
    }
}

fn gen_rows(rng: &mut Rng) -> Vec<RowV> {
    let n = rng.below(6) as usize;
    // per-container flavour: narrow value ranges make pruning fire
    let base = rng.range(-4, 4);
    let spread = rng.below(4) as i64;
    let null_mode = rng.below(4); // 0: no nulls, 1: some, 2: first column of each kind all null, 3: some
    let sbase = *rng.pick(&S_BASE);
    let sconst = rng.chance(1, 4); // min == max containers
    let sfix = gen_str(rng, sbase);
    let big = rng.chance(1, 12);
    (0..n)
        .map(|_| {
            let mut iv = [None; NI];
            for (c, slot) in iv.iter_mut().enumerate() {
                let isnull = match null_mode {
                    0 => false,
                    2 => c == 0 || rng.chance(1, 4),
                    _ => rng.chance(1, 4),
                };
                if !isnull {
                    *slot = Some(match rng.below(30) {
                        0 if big => i64::MIN,
                        1 if big => i64::MAX,
                        2 if big => 200 + rng.range(0, 200),
                        _ => base + rng.range(0, spread),
                    });
                }
            }
            let bmode = rng.below(4);
            let bv = [match bmode {
                0 => Some(true),
                1 => Some(false),
                2 => None,
                _ => Some(rng.chance(1, 2)),
            }];
            let mut sv: [Option<String>; NS] = [None, None];
            for (c, slot) in sv.iter_mut().enumerate() {
                let isnull = match null_mode {
                    0 => false,
                    2 => c == 0 || rng.chance(1, 4),
                    _ => rng.chance(1, 4),
                };
                if !isnull {
                    *slot = Some(if sconst { sfix.clone() } else { gen_str(rng, sbase) });
                }
            }
            RowV { iv, bv, sv }
        })
        .collect()
}

/// exact statistics of the rows, then weakened
/// exact statistics (targeted scenarios): nothing loosened; the null counts unknown 1/3 of the time
fn stats_exact(rows: &[RowV], rng: &mut Rng) -> CStat {
    let mut s = CStat::default();
    let drop_nulls = rng.chance(1, 3);
    for c in 0..NI {
        s.imin[c] = rows.iter().filter_map(|r| r.iv[c]).min();
        s.imax[c] = rows.iter().filter_map(|r| r.iv[c]).max();
        s.inulls[c] = if drop_nulls { None } else { Some(rows.iter().filter(|r| r.iv[c].is_none()).count() as u64) };
    }
    for c in 0..NB {
        s.bmin[c] = rows.iter().filter_map(|r| r.bv[c]).min();
        s.bmax[c] = rows.iter().filter_map(|r| r.bv[c]).max();
        s.bnulls[c] = Some(rows.iter().filter(|r| r.bv[c].is_none()).count() as u64);
    }
    for c in 0..NS {
        s.smin[c] = rows.iter().filter_map(|r| r.sv[c].clone()).min();
        s.smax[c] = rows.iter().filter_map(|r| r.sv[c].clone()).max();
        s.snulls[c] = if drop_nulls { None } else { Some(rows.iter().filter(|r| r.sv[c].is_none()).count() as u64) };
    }
    s.rows = Some(rows.len() as u64);
    s
}

fn stats_of(rows: &[RowV], rng: &mut Rng, run: &mut Run) -> CStat {
    let mut s = CStat::default();
    for c in 0..NI {
        let vals: Vec<i64> = rows.iter().filter_map(|r| r.iv[c]).collect();
        let loosen = |rng: &mut Rng| *rng.pick(&[0i64, 0, 0, 1, 2, 5]);
        if let (Some(mn), Some(mx)) = (vals.iter().min(), vals.iter().max()) {
            s.imin[c] = Some(mn.saturating_sub(loosen(rng)));
            s.imax[c] = Some(mx.saturating_add(loosen(rng)));
            if s.imin[c] == s.imax[c] {
                run.count("stats/int-min-eq-max");
            }
        } else if rng.chance(1, 3) {
            // no non-null value: any bound is valid ("junk" bounds exercise the null-count wrap)
            s.imin[c] = Some(rng.range(-4, 4));
            s.imax[c] = Some(rng.range(-4, 4));
            run.count("stats/junk-bounds-on-all-null");
        }
        s.inulls[c] = Some(rows.iter().filter(|r| r.iv[c].is_none()).count() as u64);
        if rng.chance(1, 6) {
            s.imin[c] = None;
            run.count("stats/min-unknown");
        }
        if rng.chance(1, 6) {
            s.imax[c] = None;
            run.count("stats/max-unknown");
        }
        if rng.chance(1, 6) {
            s.inulls[c] = None;
            run.count("stats/nulls-unknown");
        }
    }
    for c in 0..NB {
        let vals: Vec<bool> = rows.iter().filter_map(|r| r.bv[c]).collect();
        if let (Some(mn), Some(mx)) = (vals.iter().min(), vals.iter().max()) {
            s.bmin[c] = Some(*mn && rng.chance(5, 6));
            s.bmax[c] = Some(*mx || rng.chance(1, 6));
        }
        s.bnulls[c] = Some(rows.iter().filter(|r| r.bv[c].is_none()).count() as u64);
        if rng.chance(1, 6) {
            s.bmin[c] = None;
        }
        if rng.chance(1, 6) {
            s.bmax[c] = None;
        }
        if rng.chance(1, 5) {
            s.bnulls[c] = None;
        }
    }
    for c in 0..NS {
        let vals: Vec<&String> = rows.iter().filter_map(|r| r.sv[c].as_ref()).collect();
        if let (Some(mn), Some(mx)) = (vals.iter().min(), vals.iter().max()) {
            // valid looser bounds: a proper prefix is <= the string, string + U+10FFFF is >= it
            let mut lo = (**mn).clone();
            let mut hi = (**mx).clone();
            if rng.chance(1, 5) {
                lo.pop();
                run.count("stats/string-min-loosened");
            }
            if rng.chance(1, 5) {
                hi.push('\u{10FFFF}');
                run.count("stats/string-max-loosened");
            }
            if lo == hi {
                run.count("stats/string-min-eq-max");
            }
            s.smin[c] = Some(lo);
            s.smax[c] = Some(hi);
        } else if rng.chance(1, 3) {
            s.smin[c] = Some(gen_str(rng, "fo"));
            s.smax[c] = Some(gen_str(rng, "fo"));
        }
        s.snulls[c] = Some(rows.iter().filter(|r| r.sv[c].is_none()).count() as u64);
        if rng.chance(1, 6) {
            s.smin[c] = None;
        }
        if rng.chance(1, 6) {
            s.smax[c] = None;
        }
        if rng.chance(1, 6) {
            s.snulls[c] = None;
        }
    }
    s.rows = Some(rows.len() as u64);
    if rng.chance(1, 8) {
        s.rows = None;
        run.count("stats/rows-unknown");
    }
    s
}

struct Stats {
    cs: Vec<CStat>,
    /// real value sets for `contained` (None = the provider has no membership information)
    values: Option<Vec<Vec<RowV>>>,
    /// randomness for "sometimes answer None"
    rng: RefCell<Rng>,
    contained_calls: RefCell<(u64, u64)>,
}

/// (kind, index): kind 0 = int, 1 = bool, 2 = string
fn col_index(c: &DfColumn) -> (u8, usize) {
    let n = c.name();
    let k = match n.as_bytes()[0] {
        b'i' => 0,
        b'b' => 1,
        _ => 2,
    };
    (k, n[1..].parse().unwrap())
}
fn str_array(c: usize, vals: Vec<Option<String>>) -> ArrayRef {
    if c == 0 { Arc::new(StringArray::from(vals)) } else { Arc::new(StringViewArray::from(vals)) }
}
impl PruningStatistics for Stats {
    fn min_values(&self, column: &DfColumn) -> Option<ArrayRef> {
        let (k, c) = col_index(column);
        Some(match k {
            0 => Arc::new(Int64Array::from(self.cs.iter().map(|s| s.imin[c]).collect::<Vec<_>>())),
            1 => Arc::new(BooleanArray::from(self.cs.iter().map(|s| s.bmin[c]).collect::<Vec<_>>())),
            _ => str_array(c, self.cs.iter().map(|s| s.smin[c].clone()).collect()),
        })
    }
    fn max_values(&self, column: &DfColumn) -> Option<ArrayRef> {
        let (k, c) = col_index(column);
        Some(match k {
            0 => Arc::new(Int64Array::from(self.cs.iter().map(|s| s.imax[c]).collect::<Vec<_>>())),
            1 => Arc::new(BooleanArray::from(self.cs.iter().map(|s| s.bmax[c]).collect::<Vec<_>>())),
            _ => str_array(c, self.cs.iter().map(|s| s.smax[c].clone()).collect()),
        })
    }
    fn num_containers(&self) -> usize {
        self.cs.len()
    }
    fn null_counts(&self, column: &DfColumn) -> Option<ArrayRef> {
        let (k, c) = col_index(column);
        let v: Vec<Option<u64>> = self
            .cs
            .iter()
            .map(|s| match k {
                0 => s.inulls[c],
                1 => s.bnulls[c],
                _ => s.snulls[c],
            })
            .collect();
        if v.iter().all(|x| x.is_none()) {
            return None; // "no null-count statistics for this column at all"
        }
        Some(Arc::new(UInt64Array::from(v)))
    }
    fn row_counts(&self) -> Option<ArrayRef> {
        let v: Vec<Option<u64>> = self.cs.iter().map(|s| s.rows).collect();
        if v.iter().all(|x| x.is_none()) {
            return None;
        }
        Some(Arc::new(UInt64Array::from(v)))
    }
    fn contained(&self, column: &DfColumn, values: &HashSet<ScalarValue>) -> Option<BooleanArray> {
        let vs = self.values.as_ref()?;
        let (k, c) = col_index(column);
        self.contained_calls.borrow_mut().0 += 1;
        if k == 1 || self.rng.borrow_mut().chance(1, 6) {
            return None;
        }
        let in_set = |r: &RowV| -> Option<bool> {
            // None: the column value is NULL
            match k {
                0 => r.iv[c].map(|v| values.contains(&ScalarValue::Int64(Some(v)))),
                _ => r.sv[c].as_ref().map(|v| {
                    values.contains(&ScalarValue::Utf8(Some(v.clone())))
                        || values.contains(&ScalarValue::Utf8View(Some(v.clone())))
                        || values.contains(&ScalarValue::LargeUtf8(Some(v.clone())))
                }),
            }
        };
        let mut any_definite = false;
        let out: Vec<Option<bool>> = vs
            .iter()
            .map(|rows| {
                if self.rng.borrow_mut().chance(1, 8) {
                    return None;
                }
                let ins: Vec<Option<bool>> = rows.iter().map(in_set).collect();
                // a NULL is not one of `values`: "only contains values from the set" is false with a NULL
                let all_in = ins.iter().all(|x| *x == Some(true));
                let none_in = ins.iter().all(|x| *x != Some(true));
                let r = if ins.is_empty() {
                    None
                } else if all_in {
                    Some(true)
                } else if none_in {
                    Some(false)
                } else {
                    None
                };
                any_definite |= r.is_some();
                r
            })
            .collect();
        if any_definite {
            self.contained_calls.borrow_mut().1 += 1;
        }
        Some(BooleanArray::from(out))
    }
}

fn schema() -> SchemaRef {
    let mut f = vec![];
    for c in 0..NI {
        f.push(Field::new(format!("i{c}"), DataType::Int64, true));
    }
    for c in 0..NB {
        f.push(Field::new(format!("b{c}"), DataType::Boolean, true));
    }
    f.push(Field::new("s0", DataType::Utf8, true));
    f.push(Field::new("s1", DataType::Utf8View, true));
    Arc::new(Schema::new(f))
}

fn batch_of(schema: &SchemaRef, rows: &[RowV]) -> RecordBatch {
    let mut cols: Vec<ArrayRef> = vec![];
    for c in 0..NI {
        cols.push(Arc::new(Int64Array::from(rows.iter().map(|r| r.iv[c]).collect::<Vec<_>>())));
    }
    for c in 0..NB {
        cols.push(Arc::new(BooleanArray::from(rows.iter().map(|r| r.bv[c]).collect::<Vec<_>>())));
    }
    for c in 0..NS {
        cols.push(str_array(c, rows.iter().map(|r| r.sv[c].clone()).collect()));
    }
    RecordBatch::try_new(Arc::clone(schema), cols).unwrap()
}

/// engine row-by-row truth values
fn engine_eval(p: &PE, schema: &SchemaRef, rows: &[RowV]) -> Result<Vec<Option<bool>>, String> {
    if rows.is_empty() {
        return Ok(vec![]);
    }
    let b = batch_of(schema, rows);
    let v = p.evaluate(&b).map_err(|e| e.to_string())?;
    let a = v.into_array(rows.len()).map_err(|e| e.to_string())?;
    let a = a.as_any().downcast_ref::<BooleanArray>().ok_or("not boolean")?.clone();
    Ok((0..a.len()).map(|i| if a.is_null(i) { None } else { Some(a.value(i)) }).collect())
}

/// whole-column "no statistics" switches are expressed by making every container unknown
fn drop_columns(cs: &mut [CStat], rng: &mut Rng) {
    for c in 0..NI {
        if rng.chance(1, 15) {
            cs.iter_mut().for_each(|s| s.imin[c] = None);
        }
        if rng.chance(1, 15) {
            cs.iter_mut().for_each(|s| s.imax[c] = None);
        }
        if rng.chance(1, 15) {
            cs.iter_mut().for_each(|s| s.inulls[c] = None);
        }
    }
    for c in 0..NS {
        if rng.chance(1, 15) {
            cs.iter_mut().for_each(|s| s.smin[c] = None);
        }
        if rng.chance(1, 15) {
            cs.iter_mut().for_each(|s| s.smax[c] = None);
        }
        if rng.chance(1, 15) {
            cs.iter_mut().for_each(|s| s.snulls[c] = None);
        }
    }
    if rng.chance(1, 12) {
        cs.iter_mut().for_each(|s| s.rows = None);
    }
}

/// (iv) every row satisfying `p` satisfies every derived literal guarantee
fn check_guarantees(run: &mut Run, p: &PE, conts: &[Vec<RowV>], truth: &[Result<Vec<Option<bool>>, String>], shown: &str) {
    let gs = LiteralGuarantee::analyze(p);
    run.add("guarantees-derived", gs.len() as u64);
    for g in &gs {
        let name = g.column.name();
        let k = match name.as_bytes()[0] {
            b'i' => 0,
            b'b' => 1,
            _ => 2,
        };
        let c: usize = name[1..].parse().unwrap();
        let mut bad: Option<String> = None;
        for (rows, t) in conts.iter().zip(truth.iter()) {
            let Ok(t) = t else { continue };
            for (r, v) in rows.iter().zip(t.iter()) {
                if *v != Some(true) {
                    continue;
                }
                // is the row's column value one of the literals?  None = the value is NULL
                let member: Option<bool> = match k {
                    0 => r.iv[c].map(|x| g.literals.contains(&ScalarValue::Int64(Some(x)))),
                    1 => r.bv[c].map(|x| g.literals.contains(&ScalarValue::Boolean(Some(x)))),
                    _ => r.sv[c].as_ref().map(|x| {
                        g.literals.contains(&ScalarValue::Utf8(Some(x.clone()))) || g.literals.contains(&ScalarValue::Utf8View(Some(x.clone()))) || g.literals.contains(&ScalarValue::LargeUtf8(Some(x.clone())))
                    }),
                };
                let ok = match g.guarantee {
                    Guarantee::In => member == Some(true),
                    Guarantee::NotIn => member != Some(true),
                };
                if !ok && bad.is_none() {
                    bad = Some(format!("{r:?}"));
                }
            }
        }
        let mut lits: Vec<String> = g.literals.iter().map(|l| l.to_string()).collect();
        lits.sort();
        run.oracle(
            bad.is_none(),
            &format!("guarantee-violated expr=[{shown}] guarantee={} {:?} ({})", name, g.guarantee, lits.join(",")),
            &format!("row {:?} satisfies the predicate but not the guarantee", bad),
        );
    }
}

pub fn run(run: &mut Run, args: &Args) {
    let mut rng = Rng::new(args.seed);
    let schema = schema();
    let n_cases = run.budget(6000, 120_000);
    for case_no in 0..n_cases {
        // even cases: modelled fragment (goes to the Lean model); odd cases: wide generator (oracle only)
        let modelled = case_no % 2 == 0;
        let depth = 1 + rng.below(3) as u32;
        let mut tags: Vec<&'static str> = vec![];
        let mut probe: Option<Probe> = None;
        let nc = 1 + rng.below(4) as usize;
        let mut conts: Vec<Vec<RowV>> = (0..nc).map(|_| gen_rows(&mut rng)).collect();
        let is_targeted = !modelled && case_no % 8 == 1;
        let mut targeted_pred: Option<PE> = None;
        if is_targeted {
            let (tp, pr, rows, tag) = targeted(&mut rng, &schema);
            conts[0] = rows;
            probe = Some(pr);
            tags.push(tag);
            targeted_pred = Some(tp);
        }
        let mut hints = Hints::default();
        for r in conts.iter().flatten() {
            hints.ints.extend(r.iv.iter().flatten());
            hints.strs.extend(r.sv.iter().flatten().cloned());
        }
        let (e, p): (Option<E>, PE) = if modelled {
            let e = gen_expr(&mut rng, depth, &hints);
            e.count_kinds(run);
            let p = e.phys(&schema);
            (Some(e), p)
        } else {
            let p = match targeted_pred {
                Some(tp) => tp,
                None => wide_expr(&mut rng, &schema, depth, &mut tags, &hints, &mut probe),
            };
            tags.sort();
            tags.dedup();
            for t in &tags {
                run.count(&format!("wide/{t}"));
            }
            (None, p)
        };
        let shown = match &e {
            Some(e) => e.sexp(),
            None => p.to_string().replace('\n', " "),
        };
        let mut cs: Vec<CStat> = conts.iter().map(|r| stats_of(r, &mut rng, run)).collect();
        if is_targeted {
            cs[0] = stats_exact(&conts[0], &mut rng);
        } else {
            drop_columns(&mut cs, &mut rng);
        }
        let mut st = Stats { cs, values: None, rng: RefCell::new(rng.fork()), contained_calls: RefCell::new((0, 0)) };

        let pp = match PruningPredicateBuilder::new().with_file_schema(Arc::clone(&schema)).try_build(Arc::clone(&p)) {
            Ok(pp) => pp,
            Err(_) => {
                run.count("build-error");
                continue;
            }
        };
        if !modelled && !pp.always_true() {
            run.count("wide/rewrite-not-always-true");
        }
        // engine truth values per container
        let truth: Vec<Result<Vec<Option<bool>>, String>> = conts.iter().map(|rows| engine_eval(&p, &schema, rows)).collect();
        if let Some(e) = &e {
            for (rows, t) in conts.iter().zip(truth.iter()) {
                if let Ok(t) = t {
                    if !rows.is_empty() {
                        let rs: Vec<String> = rows
                            .iter()
                            .map(|r| format!("(({}) ({}))", r.iv.iter().map(|v| s_oi(*v)).collect::<Vec<_>>().join(" "), r.bv.iter().map(|v| s_ob(*v)).collect::<Vec<_>>().join(" ")))
                            .collect();
                        let ans: Vec<String> = t.iter().map(|v| s_ob(*v)).collect();
                        run.case("eval", &format!("({} ({}))", e.sexp(), rs.join(" ")), &ans.join(" "), t.iter().any(|v| *v == Some(true)) && t.iter().any(|v| *v != Some(true)));
                    }
                }
            }
        }
        // generator sensitivity: inputs on which the three historically seeded defects would show
        if let Some(pr) = &probe {
            for (k, rows) in conts.iter().enumerate() {
                let Ok(t) = &truth[k] else { continue };
                let matching = t.iter().any(|v| *v == Some(true));
                match pr {
                    Probe::DistinctLit(c, v) => {
                        // min == max == literal (known), NULL rows present: kept only by `null_count > 0`
                        let stt = &st.cs[k];
                        if stt.imin[*c] == Some(*v) && stt.imax[*c] == Some(*v) && rows.iter().any(|r| r.iv[*c].is_none()) && matching {
                            run.count(if stt.inulls[*c].is_some() { "sensitive/distinct-from-literal: min=max=literal with NULL rows" } else { "sensitive/distinct-from-literal: min=max=literal, null count unknown" });
                        }
                    }
                    Probe::LikeBackslash(c, pat) => {
                        // a prefix computed WITHOUT un-escaping `\x` would put the container outside the range
                        let wrong: String = pat.chars().take_while(|ch| !matches!(ch, '%' | '_')).collect();
                        let stt = &st.cs[k];
                        if matching && (stt.smax[*c].as_ref().is_some_and(|m| m.as_str() < wrong.as_str()) || stt.smin[*c].as_ref().is_some_and(|m| m.as_str() > wrong.as_str() && !m.starts_with(&wrong))) {
                            run.count("sensitive/like: backslash before ordinary char, matching rows outside the un-unescaped prefix range");
                        }
                    }
                    Probe::InNonLiteral(c, lits) => {
                        // a row satisfies `a IN (lits, b)` through the non-literal member only
                        if rows.iter().zip(t.iter()).any(|(r, v)| *v == Some(true) && r.iv[*c].is_some_and(|x| !lits.contains(&x))) {
                            run.count("sensitive/in-list: row matches through the non-literal member only");
                        }
                    }
                }
            }
        }
        if truth.iter().any(|t| t.is_err()) {
            run.count("engine-eval-error(container skipped by the oracle)");
        }
        for pass in 0..2 {
            if pass == 1 {
                st.values = Some(conts.clone());
            }
            let bits = match pp.prune(&st) {
                Ok(b) => b,
                Err(_) => {
                    run.count("prune-error");
                    continue;
                }
            };
            let n_skip = bits.iter().filter(|b| !**b).count();
            if pass == 0 {
                run.add(if modelled { "containers" } else { "wide/containers" }, bits.len() as u64);
                run.add(if modelled { "containers-skipped-by-impl" } else { "wide/containers-skipped-by-impl" }, n_skip as u64);
                let bs: Vec<&str> = bits.iter().map(|b| if *b { "k" } else { "s" }).collect();
                let csx: Vec<String> = st.cs.iter().map(|s| s.sexp()).collect();
                match &e {
                    Some(e) => run.case("prune", &format!("({} ({}) ({}))", e.sexp(), csx.join(" "), bs.join(" ")), "ok", n_skip > 0),
                    // outside the Lean model: the driver answers `unsupported` (counted as uncovered)
                    None => run.case("prune", &format!("((unsupported {}) ({}))", tags.join(" "), bs.join(" ")), "ok", n_skip > 0),
                }
                if n_skip > 0 {
                    for t in &tags {
                        run.count(&format!("wide-skipped/{t}"));
                    }
                }
            } else {
                run.add("containers-skipped-with-contained", n_skip as u64);
            }
            // (ii) direct oracle
            for (k, keep) in bits.iter().enumerate() {
                if !*keep {
                    if let Ok(t) = &truth[k] {
                        let hit = t.iter().position(|v| *v == Some(true));
                        // the one reproduced defect class: `-col op lit` is rewritten to `col op' -lit`, but the
                        // engine negates with wrapping, so a row holding i64::MIN (−MIN = MIN) matches
                        let class = if tags.contains(&"negated-column") && conts[k].iter().any(|r| r.iv.contains(&Some(i64::MIN))) { "negated-column-int-min" } else { "general" };
                        run.oracle(
                            hit.is_none(),
                            &format!("prune-skips-matching{} class={class} expr=[{}] stats={}", if pass == 1 { "-contained" } else { "" }, shown, st.cs[k].full()),
                            &format!("container {k} skipped but row {:?} = {:?} satisfies the predicate", hit, hit.map(|h| &conts[k][h])),
                        );
                    }
                }
            }
        }
        let (calls, definite) = *st.contained_calls.borrow();
        run.add("contained-calls", calls);
        run.add("contained-calls-with-definite-answer", definite);
        // (iv) literal guarantees against the rows
        check_guarantees(run, &p, &conts, &truth, &shown);
    }
    run.note("columns i0,i1 Int64, b0 Boolean, s0 Utf8, s1 Utf8View; rows 0..5 per container; ints base+0..3 in -4..7 (+ i64::MIN/MAX/200.. in 1/12 containers); strings base{fo,foo,f,'',é,fo\\u7f,fo\\u10FFFF,FO,fo\\,\\u10FFFF} + suffix (14 kinds) or one constant per container (min == max); NULLs in 4 modes; statistics exact then loosened, unknown per container (1/6) / per column (1/15), junk bounds on all-NULL columns; even cases = modelled fragment (Lean), odd cases = wide generator (oracle only, model answers unsupported)");
}
