//! C15 self-test target: a harness-local COPY of the non-test part of
//! `datafusion/physical-plan/src/repartition/distributor_channels.rs` (pinned source) with three
//! switchable, deliberately WRONG variants used only to measure whether the real-thread detectors
//! of `c15.rs` fire for the defect classes they are meant for.  `DEFECT`:
//!   0 = the code as pinned;
//!   1 = class A: `Drop for DistributionReceiver` wakes the channel's parked senders BEFORE it takes
//!       the channel lock and clears `data`;
//!   2 = class B: `RecvFuture::poll` decides "channel still open" from `n_senders > 0` (an atomic the
//!       sender drop updates outside the lock) instead of `recv_wakers.is_some()`;
//!   3 = class A: the last-sender drop wakes the parked receivers BEFORE it takes `recv_wakers`.
//! The copied code is (c) the Apache Software Foundation, Apache License 2.0 (see the header of the
//! original file).  Never linked into anything but the C15 harness self-test.  Regenerate with the snippet in
//! notes/C15.md if the pinned file changes.
#![allow(dead_code)]
use std::sync::atomic::AtomicU8;
pub static DEFECT: AtomicU8 = AtomicU8::new(0);
fn defect() -> u8 {
    DEFECT.load(Ordering::SeqCst)
}

use std::{
    collections::VecDeque,
    future::Future,
    pin::Pin,
    sync::{
        Arc,
        atomic::{AtomicUsize, Ordering},
    },
    task::{Context, Poll, Waker},
};

use parking_lot::Mutex;

/// Create `n` empty channels.
pub fn channels<T>(
    n: usize,
) -> (Vec<DistributionSender<T>>, Vec<DistributionReceiver<T>>) {
    let channels = (0..n)
        .map(|id| Arc::new(Channel::new_with_one_sender(id)))
        .collect::<Vec<_>>();
    let gate = Arc::new(Gate {
        empty_channels: AtomicUsize::new(n),
        send_wakers: Mutex::new(None),
    });
    let senders = channels
        .iter()
        .map(|channel| DistributionSender {
            channel: Arc::clone(channel),
            gate: Arc::clone(&gate),
        })
        .collect();
    let receivers = channels
        .into_iter()
        .map(|channel| DistributionReceiver {
            channel,
            gate: Arc::clone(&gate),
        })
        .collect();
    (senders, receivers)
}

type PartitionAwareSenders<T> = Vec<Vec<DistributionSender<T>>>;
type PartitionAwareReceivers<T> = Vec<Vec<DistributionReceiver<T>>>;

/// Create `n_out` empty channels for each of the `n_in` inputs.
/// This way, each distinct partition will communicate via a dedicated channel.
/// This SPSC structure enables us to track which partition input data comes from.
pub fn partition_aware_channels<T>(
    n_in: usize,
    n_out: usize,
) -> (PartitionAwareSenders<T>, PartitionAwareReceivers<T>) {
    (0..n_in).map(|_| channels(n_out)).unzip()
}

/// Erroring during [send](DistributionSender::send).
///
/// This occurs when the [receiver](DistributionReceiver) is gone.
#[derive(PartialEq, Eq)]
pub struct SendError<T>(pub T);

impl<T> std::fmt::Debug for SendError<T> {
    fn fmt(&self, f: &mut std::fmt::Formatter<'_>) -> std::fmt::Result {
        f.debug_tuple("SendError").finish()
    }
}

impl<T> std::fmt::Display for SendError<T> {
    fn fmt(&self, f: &mut std::fmt::Formatter<'_>) -> std::fmt::Result {
        write!(f, "cannot send data, receiver is gone")
    }
}

impl<T> std::error::Error for SendError<T> {}

/// Sender side of distribution [channels].
///
/// This handle can be cloned. All clones will write into the same channel. Dropping the last sender will close the
/// channel. In this case, the [receiver](DistributionReceiver) will still be able to poll the remaining data, but will
/// receive `None` afterwards.
#[derive(Debug)]
pub struct DistributionSender<T> {
    /// To prevent lock inversion / deadlock, channel lock is always acquired prior to gate lock
    channel: SharedChannel<T>,
    gate: SharedGate,
}

impl<T> DistributionSender<T> {
    /// Send data.
    ///
    /// This fails if the [receiver](DistributionReceiver) is gone.
    pub fn send(&self, element: T) -> SendFuture<'_, T> {
        SendFuture {
            channel: &self.channel,
            gate: &self.gate,
            element: Box::new(Some(element)),
        }
    }
}

impl<T> Clone for DistributionSender<T> {
    fn clone(&self) -> Self {
        self.channel.n_senders.fetch_add(1, Ordering::SeqCst);

        Self {
            channel: Arc::clone(&self.channel),
            gate: Arc::clone(&self.gate),
        }
    }
}

impl<T> Drop for DistributionSender<T> {
    fn drop(&mut self) {
        let n_senders_pre = self.channel.n_senders.fetch_sub(1, Ordering::SeqCst);
        // is the last copy of the sender side?
        if n_senders_pre > 1 {
            return;
        }

        if defect() == 3 {
            let early: Vec<Waker> = {
                let state = self.channel.state.lock();
                state.recv_wakers.clone().unwrap_or_default()
            };
            for recv in early {
                recv.wake();
            }
        }
        let receivers = {
            let mut state = self.channel.state.lock();

            // During the shutdown of a empty channel, both the sender and the receiver side will be dropped. However we
            // only want to decrement the "empty channels" counter once.
            //
            // We are within a critical section here, so we we can safely assume that either the last sender or the
            // receiver (there's only one) will be dropped first.
            //
            // If the last sender is dropped first, `state.data` will still exists and the sender side decrements the
            // signal. The receiver side then MUST check the `n_senders` counter during the section and if it is zero,
            // it infers that it is dropped afterwards and MUST NOT decrement the counter.
            //
            // If the receiver end is dropped first, it will infer -- based on `n_senders` -- that there are still
            // senders and it will decrement the `empty_channels` counter. It will also set `data` to `None`. The sender
            // side will then see that `data` is `None` and can therefore infer that the receiver end was dropped, and
            // hence it MUST NOT decrement the `empty_channels` counter.
            if state.data.as_ref().is_some_and(|data| data.is_empty()) {
                // channel is gone, so we need to clear our signal
                self.gate.decr_empty_channels();
            }

            // make sure that nobody can add wakers anymore
            state.recv_wakers.take().expect("not closed yet")
        };

        // wake outside of lock scope
        if defect() != 3 {
            for recv in receivers {
                recv.wake();
            }
        }
    }
}

/// Future backing [send](DistributionSender::send).
#[derive(Debug)]
pub struct SendFuture<'a, T> {
    channel: &'a SharedChannel<T>,
    gate: &'a SharedGate,
    // the additional Box is required for `Self: Unpin`
    element: Box<Option<T>>,
}

impl<T> Future for SendFuture<'_, T> {
    type Output = Result<(), SendError<T>>;

    fn poll(mut self: Pin<&mut Self>, cx: &mut Context<'_>) -> Poll<Self::Output> {
        let this = &mut *self;
        assert!(this.element.is_some(), "polled ready future");

        // lock scope
        let to_wake = {
            let mut guard_channel_state = this.channel.state.lock();

            let Some(data) = guard_channel_state.data.as_mut() else {
                // receiver end dead
                return Poll::Ready(Err(SendError(
                    this.element.take().expect("just checked"),
                )));
            };

            // does ANY receiver need data?
            // if so, allow sender to create another
            if this.gate.empty_channels.load(Ordering::SeqCst) == 0 {
                let mut guard = this.gate.send_wakers.lock();
                if let Some(send_wakers) = &mut *guard {
                    send_wakers.push((cx.waker().clone(), this.channel.id));
                    return Poll::Pending;
                }
            }

            let was_empty = data.is_empty();
            data.push_back(this.element.take().expect("just checked"));

            if was_empty {
                this.gate.decr_empty_channels();
                guard_channel_state.take_recv_wakers()
            } else {
                Vec::with_capacity(0)
            }
        };

        // wake outside of lock scope
        for receiver in to_wake {
            receiver.wake();
        }

        Poll::Ready(Ok(()))
    }
}

/// Receiver side of distribution [channels].
#[derive(Debug)]
pub struct DistributionReceiver<T> {
    channel: SharedChannel<T>,
    gate: SharedGate,
}

impl<T> DistributionReceiver<T> {
    /// Receive data from channel.
    ///
    /// Returns `None` if the channel is empty and no [senders](DistributionSender) are left.
    pub fn recv(&mut self) -> RecvFuture<'_, T> {
        RecvFuture {
            channel: &mut self.channel,
            gate: &mut self.gate,
            rdy: false,
        }
    }
}

impl<T> Drop for DistributionReceiver<T> {
    fn drop(&mut self) {
        if defect() == 1 {
            self.gate.wake_channel_senders(self.channel.id);
        }
        let mut guard_channel_state = self.channel.state.lock();
        let data = guard_channel_state.data.take().expect("not dropped yet");

        // See `DistributedSender::drop` for an explanation of the drop order and when the "empty channels" counter is
        // decremented.
        if data.is_empty() && (self.channel.n_senders.load(Ordering::SeqCst) > 0) {
            // channel is gone, so we need to clear our signal
            self.gate.decr_empty_channels();
        }

        // senders may be waiting for gate to open but should error now that the channel is closed
        if defect() != 1 {
            self.gate.wake_channel_senders(self.channel.id);
        }
    }
}

/// Future backing [recv](DistributionReceiver::recv).
pub struct RecvFuture<'a, T> {
    channel: &'a mut SharedChannel<T>,
    gate: &'a mut SharedGate,
    rdy: bool,
}

impl<T> Future for RecvFuture<'_, T> {
    type Output = Option<T>;

    fn poll(mut self: Pin<&mut Self>, cx: &mut Context<'_>) -> Poll<Self::Output> {
        let this = &mut *self;
        assert!(!this.rdy, "polled ready future");

        let mut guard_channel_state = this.channel.state.lock();
        let channel_state = &mut *guard_channel_state;
        let data = channel_state.data.as_mut().expect("not dropped yet");

        match data.pop_front() {
            Some(element) => {
                // change "empty" signal for this channel?
                let still_open = if defect() == 2 {
                    this.channel.n_senders.load(Ordering::SeqCst) > 0
                } else {
                    channel_state.recv_wakers.is_some()
                };
                if data.is_empty() && still_open {
                    // update counter
                    let old_counter =
                        this.gate.empty_channels.fetch_add(1, Ordering::SeqCst);

                    // open gate?
                    let to_wake = if old_counter == 0 {
                        let mut guard = this.gate.send_wakers.lock();

                        // check after lock to see if we should still change the state
                        if this.gate.empty_channels.load(Ordering::SeqCst) > 0 {
                            guard.take().unwrap_or_default()
                        } else {
                            Vec::with_capacity(0)
                        }
                    } else {
                        Vec::with_capacity(0)
                    };

                    drop(guard_channel_state);

                    // wake outside of lock scope
                    for (waker, _channel_id) in to_wake {
                        waker.wake();
                    }
                }

                this.rdy = true;
                Poll::Ready(Some(element))
            }
            None => {
                if let Some(recv_wakers) = channel_state.recv_wakers.as_mut() {
                    recv_wakers.push(cx.waker().clone());
                    Poll::Pending
                } else {
                    this.rdy = true;
                    Poll::Ready(None)
                }
            }
        }
    }
}

/// Links senders and receivers.
#[derive(Debug)]
struct Channel<T> {
    /// Reference counter for the sender side.
    n_senders: AtomicUsize,

    /// Channel ID.
    ///
    /// This is used to address [send wakers](Gate::send_wakers).
    id: usize,

    /// Mutable state.
    state: Mutex<ChannelState<T>>,
}

impl<T> Channel<T> {
    /// Create new channel with one sender (so we don't need to [fetch-add](AtomicUsize::fetch_add) directly afterwards).
    fn new_with_one_sender(id: usize) -> Self {
        Channel {
            n_senders: AtomicUsize::new(1),
            id,
            state: Mutex::new(ChannelState {
                data: Some(VecDeque::default()),
                recv_wakers: Some(Vec::default()),
            }),
        }
    }
}

#[derive(Debug)]
struct ChannelState<T> {
    /// Buffered data.
    ///
    /// This is [`None`] when the receiver is gone.
    data: Option<VecDeque<T>>,

    /// Wakers for the receiver side.
    ///
    /// The receiver will be pending if the [buffer](Self::data) is empty and
    /// there are senders left (otherwise this is set to [`None`]).
    recv_wakers: Option<Vec<Waker>>,
}

impl<T> ChannelState<T> {
    /// Get all [`recv_wakers`](Self::recv_wakers) and replace with identically-sized buffer.
    ///
    /// The wakers should be woken AFTER the lock to [this state](Self) was dropped.
    ///
    /// # Panics
    /// Assumes that channel is NOT closed yet, i.e. that [`recv_wakers`](Self::recv_wakers) is not [`None`].
    fn take_recv_wakers(&mut self) -> Vec<Waker> {
        let to_wake = self.recv_wakers.as_mut().expect("not closed");
        let mut tmp = Vec::with_capacity(to_wake.capacity());
        std::mem::swap(to_wake, &mut tmp);
        tmp
    }
}

/// Shared channel.
///
/// One or multiple senders and a single receiver will share a channel.
type SharedChannel<T> = Arc<Channel<T>>;

/// The "all channels have data" gate.
#[derive(Debug)]
struct Gate {
    /// Number of currently empty (and still open) channels.
    empty_channels: AtomicUsize,

    /// Wakers for the sender side, including their channel IDs.
    ///
    /// This is `None` if the there are non-empty channels.
    send_wakers: Mutex<Option<Vec<(Waker, usize)>>>,
}

impl Gate {
    /// Wake senders for a specific channel.
    ///
    /// This is helpful to signal that the receiver side is gone and the senders shall now error.
    fn wake_channel_senders(&self, id: usize) {
        // lock scope
        let to_wake = {
            let mut guard = self.send_wakers.lock();

            if let Some(send_wakers) = &mut *guard {
                // `drain_filter` is unstable, so implement our own
                let (wake, keep) =
                    send_wakers.drain(..).partition(|(_waker, id2)| id == *id2);

                *send_wakers = keep;

                wake
            } else {
                Vec::with_capacity(0)
            }
        };

        // wake outside of lock scope
        for (waker, _id) in to_wake {
            waker.wake();
        }
    }

    fn decr_empty_channels(&self) {
        let old_count = self.empty_channels.fetch_sub(1, Ordering::SeqCst);

        if old_count == 1 {
            let mut guard = self.send_wakers.lock();

            // double-check state during lock
            if self.empty_channels.load(Ordering::SeqCst) == 0 && guard.is_none() {
                *guard = Some(Vec::new());
            }
        }
    }
}

/// Gate shared by all senders and receivers.
type SharedGate = Arc<Gate>;

