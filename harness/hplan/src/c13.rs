//! C13 — group key interning numbers distinct keys densely and consistently.
//!
//! Drives the real `GroupValues` implementations obtained from the public
//! `new_group_values(schema, &GroupOrdering::None)` — `GroupValuesPrimitive` (every primitive width,
//! floats, dates, timestamps, decimals), `GroupValuesBytes` / `GroupValuesBytesView`,
//! `GroupValuesBoolean`, `GroupValuesColumn` (multi-column mixes, dictionary, fixed-size binary,
//! nested row-backed column) and the `GroupValuesRows` fallback — with random histories of
//! `intern(batch)` / `emit(All)` / `emit(First n)` / `clear_shrink`, keys drawn from small
//! collision-prone domains (NULLs, ±0.0, empty / 12-byte / 13-byte / long strings, sliced input
//! arrays, dictionaries whose layout changes from batch to batch).
//!
//! Correspondence (equality, after every op): group ids, emitted keys, `len()` against the Lean
//! models (`Spec`, `Prim`, `Bytes`, `Bool3`).  Implementation-level oracle (no model): ids dense and
//! consistent, new keys numbered from the group count upward, emit returns the keys of ids 0..n in
//! id order with the declared types and renumbers the rest, `len()` = number of distinct live keys.
use std::sync::Arc;

use arrow::array::*;
use arrow::compute::cast;
use arrow::datatypes::{DataType, Field, Int32Type, Schema, TimeUnit};
use arrow::util::display::{ArrayFormatter, FormatOptions};
use datafusion_expr::EmitTo;
use datafusion_physical_plan::aggregates::group_values::{GroupValues, new_group_values};
use datafusion_physical_plan::aggregates::order::GroupOrdering;
use hutil::{Args, Rng, Run};

#[derive(Clone, Debug)]
enum Col {
    /// built by casting an Int64 array of small values
    FromInt(DataType),
    F32,
    F64,
    Str(DataType),
    Bin(DataType),
    Bool,
    DictStr,
    Fsb,
    /// `true`: the domain contains the empty list, whose hash collides with NULL's
    ListInt(bool),
    /// view column whose domain contains 11/12/13-byte values and values large enough to fill and
    /// release whole 2 MiB data blocks (`BYTE_VIEW_MAX_BLOCK_SIZE`); `true` = BinaryView
    BigView(bool),
}

const INTS: [i64; 6] = [0, 1, 2, 7, 100, 127];
const STRS: [&str; 6] = ["", "a", "ab", "abcdefghijkl", "abcdefghijklm", "abcdefghijklm_nopqrstuvwxyz0123456789"];
/// domain of `Col::BigView`: 0 "", 1 eleven bytes, 2 twelve bytes (largest inline value), 3 thirteen
/// bytes (smallest out-of-line value), 4 another twelve bytes, 5/6/7 three 1 000 000-byte values
/// (two fit into one 2 MiB block, the third opens the next), 8 300 000 bytes, 9 97 152 bytes
/// (= 2 MiB − 2 000 000: fills a block exactly)
fn big_dom() -> Vec<String> {
    let mut v: Vec<String> = vec!["".into(), "elevenbytes".into(), "twelve_bytes".into(), "thirteenbytes".into(), "TWELVE_BYTE2".into()];
    v.push("a".repeat(1_000_000));
    v.push("b".repeat(1_000_000));
    v.push("c".repeat(1_000_000));
    v.push("d".repeat(300_000));
    v.push("e".repeat(2 * 1024 * 1024 - 2_000_000));
    v
}
const FSBS: [&[u8; 3]; 4] = [b"abc", b"abd", &[0, 0, 0], b"zzz"];

impl Col {
    fn data_type(&self) -> DataType {
        match self {
            Col::FromInt(d) | Col::Str(d) | Col::Bin(d) => d.clone(),
            Col::F32 => DataType::Float32,
            Col::F64 => DataType::Float64,
            Col::Bool => DataType::Boolean,
            Col::DictStr => DataType::Dictionary(Box::new(DataType::Int32), Box::new(DataType::Utf8)),
            Col::Fsb => DataType::FixedSizeBinary(3),
            Col::BigView(false) => DataType::Utf8View,
            Col::BigView(true) => DataType::BinaryView,
            Col::ListInt(_) => DataType::List(Arc::new(Field::new_list_field(DataType::Int32, true))),
        }
    }
    fn domain(&self) -> usize {
        match self {
            Col::FromInt(_) => INTS.len(),
            Col::F32 | Col::F64 => 5,
            Col::Str(_) | Col::Bin(_) | Col::DictStr => STRS.len(),
            Col::Bool => 2,
            Col::Fsb => FSBS.len(),
            Col::ListInt(_) => 5,
            Col::BigView(_) => 10,
        }
    }
    /// array for the given cells: (code, variant); variant selects an equivalent representation
    fn make(&self, cells: &[Option<(usize, u64)>]) -> ArrayRef {
        match self {
            Col::FromInt(d) => {
                let a: Int64Array = cells.iter().map(|c| c.map(|(k, _)| INTS[k])).collect();
                match cast(&a, d) {
                    Ok(x) => x,
                    Err(_) => cast(&cast(&a, &DataType::Int32).unwrap(), d).unwrap(),
                }
            }
            Col::F32 => {
                let v = [0.0f32, 1.5, f32::NAN, f32::NEG_INFINITY, f32::MIN_POSITIVE];
                Arc::new(cells.iter().map(|c| c.map(|(k, var)| if k == 0 && var % 2 == 1 { -0.0f32 } else { v[k] })).collect::<Float32Array>())
            }
            Col::F64 => {
                let v = [0.0f64, 1.5, f64::NAN, f64::NEG_INFINITY, f64::MIN_POSITIVE];
                Arc::new(cells.iter().map(|c| c.map(|(k, var)| if k == 0 && var % 2 == 1 { -0.0f64 } else { v[k] })).collect::<Float64Array>())
            }
            Col::Str(d) => {
                let a: StringArray = cells.iter().map(|c| c.map(|(k, _)| STRS[k])).collect();
                cast(&a, d).unwrap()
            }
            Col::Bin(d) => {
                let a: BinaryArray = cells.iter().map(|c| c.map(|(k, _)| STRS[k].as_bytes())).collect();
                cast(&a, d).unwrap()
            }
            Col::Bool => Arc::new(cells.iter().map(|c| c.map(|(k, _)| k == 1)).collect::<BooleanArray>()),
            Col::BigView(bin) => {
                let dom = big_dom();
                if *bin {
                    Arc::new(cells.iter().map(|c| c.map(|(k, _)| dom[k].as_bytes())).collect::<BinaryViewArray>())
                } else {
                    Arc::new(cells.iter().map(|c| c.map(|(k, _)| dom[k].as_str())).collect::<StringViewArray>())
                }
            }
            Col::DictStr => {
                // dictionary layout depends on the batch content and on the variant of the first cell
                let rev = cells.iter().flatten().next().map(|(_, v)| v % 2 == 1).unwrap_or(false);
                if rev {
                    // explicit dictionary with all strings in reverse order (unused entries included)
                    let dict: StringArray = STRS.iter().rev().map(|s| Some(*s)).collect();
                    let keys: Int32Array = cells.iter().map(|c| c.map(|(k, _)| (STRS.len() - 1 - k) as i32)).collect();
                    Arc::new(DictionaryArray::<Int32Type>::try_new(keys, Arc::new(dict)).unwrap())
                } else {
                    let a: DictionaryArray<Int32Type> = cells.iter().map(|c| c.map(|(k, _)| STRS[k])).collect();
                    Arc::new(a)
                }
            }
            Col::Fsb => Arc::new(FixedSizeBinaryArray::try_from_sparse_iter_with_size(cells.iter().map(|c| c.map(|(k, _)| FSBS[k].to_vec())), 3).unwrap()),
            Col::ListInt(with_empty) => {
                let dom: [Vec<Option<i32>>; 5] = [if *with_empty { vec![] } else { vec![Some(7)] }, vec![Some(1)], vec![Some(1), Some(2)], vec![None], vec![Some(2), Some(1)]];
                let mut b = ListBuilder::new(Int32Builder::new());
                for c in cells {
                    match c {
                        None => b.append(false),
                        Some((k, _)) => {
                            for x in &dom[*k] {
                                b.values().append_option(*x);
                            }
                            b.append(true);
                        }
                    }
                }
                Arc::new(b.finish())
            }
        }
    }
}

fn texts(a: &ArrayRef) -> Vec<Option<String>> {
    let opt = FormatOptions::default().with_null("NULL");
    let f = ArrayFormatter::try_new(a.as_ref(), &opt).unwrap();
    let nulls = a.logical_nulls();
    (0..a.len())
        .map(|i| {
            if nulls.as_ref().map(|n| n.is_null(i)).unwrap_or(false) {
                None
            } else {
                let t = f.value(i).to_string();
                Some(if t == "-0.0" { "0.0".to_string() } else { t })
            }
        })
        .collect()
}

struct SchemaCase {
    name: &'static str,
    kind: &'static str,
    cols: Vec<Col>,
}

fn schemas() -> Vec<SchemaCase> {
    use DataType::*;
    let p = |name: &'static str, d: DataType| SchemaCase { name, kind: "prim", cols: vec![Col::FromInt(d)] };
    vec![
        p("int8", Int8),
        p("int16", Int16),
        p("int32", Int32),
        p("int64", Int64),
        p("uint8", UInt8),
        p("uint16", UInt16),
        p("uint32", UInt32),
        p("uint64", UInt64),
        p("date32", Date32),
        p("date64", Date64),
        p("ts_ns", Timestamp(TimeUnit::Nanosecond, None)),
        p("ts_s_tz", Timestamp(TimeUnit::Second, Some("UTC".into()))),
        p("time32s", Time32(TimeUnit::Second)),
        p("time64us", Time64(TimeUnit::Microsecond)),
        p("dec128", Decimal128(20, 2)),
        p("dec256", Decimal256(40, 3)),
        p("duration_ms", Duration(TimeUnit::Millisecond)),
        SchemaCase { name: "float32", kind: "prim", cols: vec![Col::F32] },
        SchemaCase { name: "float64", kind: "prim", cols: vec![Col::F64] },
        SchemaCase { name: "utf8", kind: "bytes", cols: vec![Col::Str(Utf8)] },
        SchemaCase { name: "large_utf8", kind: "bytes", cols: vec![Col::Str(LargeUtf8)] },
        SchemaCase { name: "utf8view", kind: "bytes", cols: vec![Col::Str(Utf8View)] },
        SchemaCase { name: "binary", kind: "bytes", cols: vec![Col::Bin(Binary)] },
        SchemaCase { name: "large_binary", kind: "bytes", cols: vec![Col::Bin(LargeBinary)] },
        SchemaCase { name: "binaryview", kind: "bytes", cols: vec![Col::Bin(BinaryView)] },
        SchemaCase { name: "boolean", kind: "bool", cols: vec![Col::Bool] },
        // GroupValuesColumn
        SchemaCase { name: "dict_utf8", kind: "spec", cols: vec![Col::DictStr] },
        SchemaCase { name: "fsb3", kind: "spec", cols: vec![Col::Fsb] },
        SchemaCase { name: "list_int32(row-backed)", kind: "spec", cols: vec![Col::ListInt(false)] },
        // NULL and the empty list hash alike: the colliding key is interned by `scalarized_intern_remaining`,
        // after the batch's other new keys (ids are still dense, but not in first-seen order)
        SchemaCase { name: "list_int32(null/empty hash collision)", kind: "unordered", cols: vec![Col::ListInt(true)] },
        SchemaCase { name: "int32+bool+fsb3", kind: "spec", cols: vec![Col::FromInt(Int32), Col::Bool, Col::Fsb] },
        SchemaCase { name: "int32+utf8", kind: "spec", cols: vec![Col::FromInt(Int32), Col::Str(Utf8)] },
        SchemaCase { name: "utf8view+int64+bool", kind: "spec", cols: vec![Col::Str(Utf8View), Col::FromInt(Int64), Col::Bool] },
        SchemaCase { name: "dict+int32", kind: "spec", cols: vec![Col::DictStr, Col::FromInt(Int32)] },
        SchemaCase { name: "fsb3+float64", kind: "spec", cols: vec![Col::Fsb, Col::F64] },
        SchemaCase { name: "dec128+large_utf8", kind: "spec", cols: vec![Col::FromInt(Decimal128(20, 2)), Col::Str(LargeUtf8)] },
        SchemaCase { name: "binaryview+list(row-backed)+uint8", kind: "spec", cols: vec![Col::Bin(BinaryView), Col::ListInt(false), Col::FromInt(UInt8)] },
        SchemaCase { name: "float32+date32", kind: "spec", cols: vec![Col::F32, Col::FromInt(Date32)] },
        // GroupValuesRows fallback (Decimal64 has no GroupColumn)
        SchemaCase { name: "dec64+int32(rows)", kind: "rows", cols: vec![Col::FromInt(Decimal64(10, 2)), Col::FromInt(Int32)] },
        SchemaCase { name: "dec32+utf8(rows)", kind: "rows", cols: vec![Col::FromInt(Decimal32(9, 1)), Col::Str(Utf8)] },
    ]
}

type Key = Vec<Option<usize>>;

fn key_txt(k: &Key) -> String {
    k.iter().map(|c| c.map(|x| x.to_string()).unwrap_or_else(|| "n".into())).collect::<Vec<_>>().join(",")
}

#[derive(Clone)]
enum HOp {
    Intern(Vec<Vec<Option<(usize, u64)>>>), // rows × cols
    EmitAll,
    EmitFirst(usize),
    Clear,
}

/// decode emitted arrays to keys through the per-column text → code tables
fn decode(cols: &[ArrayRef], tables: &[Vec<String>]) -> Result<Vec<Key>, String> {
    let n = cols.first().map(|c| c.len()).unwrap_or(0);
    let per_col: Vec<Vec<Option<String>>> = cols.iter().map(texts).collect();
    let mut out = vec![];
    for r in 0..n {
        let mut k = vec![];
        for (c, t) in per_col.iter().enumerate() {
            match &t[r] {
                None => k.push(None),
                Some(s) => match tables[c].iter().position(|x| x == s) {
                    Some(code) => k.push(Some(code)),
                    None => return Err(format!("emitted value `{s}` of column {c} is not a value that was interned")),
                },
            }
        }
        out.push(k);
    }
    Ok(out)
}

fn one_history(run: &mut Run, rng: &mut Rng, sc: &SchemaCase, h: u64, script: Option<&[HOp]>) {
    let nullable = script.is_some() || !rng.chance(1, 8);
    let schema = Arc::new(Schema::new(sc.cols.iter().enumerate().map(|(i, c)| Field::new(format!("c{i}"), c.data_type(), nullable)).collect::<Vec<_>>()));
    let mut gv: Box<dyn GroupValues> = match new_group_values(schema.clone(), &GroupOrdering::None) {
        Ok(g) => g,
        Err(e) => {
            run.oracle(false, &format!("new_group_values-failed schema={}", sc.name), &e.to_string());
            return;
        }
    };
    // text of every domain value per column (cached per schema: the big-view domains are megabytes)
    static TABLES: std::sync::OnceLock<std::sync::Mutex<std::collections::HashMap<String, Arc<Vec<Vec<String>>>>>> = std::sync::OnceLock::new();
    let tables: Arc<Vec<Vec<String>>> = {
        let mut cache = TABLES.get_or_init(Default::default).lock().unwrap();
        cache
            .entry(sc.name.to_string())
            .or_insert_with(|| {
                Arc::new(
                    sc.cols
                        .iter()
                        .map(|c| {
                            let cells: Vec<Option<(usize, u64)>> = (0..c.domain()).map(|k| Some((k, 0))).collect();
                            texts(&c.make(&cells)).into_iter().map(|t| t.unwrap()).collect()
                        })
                        .collect(),
                )
            })
            .clone()
    };
    let dom_cap = *rng.pick(&[2usize, 2, 3, 6]);
    let hashmod = rng.below(4);
    let len = match script {
        Some(sc) => sc.len(),
        None => 3 + rng.below(if run.thorough() { 30 } else { 12 }) as usize,
    };
    let mut req = format!("({} {hashmod}", sc.kind);
    let mut ans: Vec<String> = vec![];
    let mut live: Vec<Key> = vec![]; // the oracle's view: key of every live id, built from impl answers only
    let mut fails: Vec<(String, String)> = vec![];
    let mut unflushed_clear = false;
    // GroupValuesColumn: an emit(All) of a non-empty store not (yet) followed by clear_shrink
    let mut stale_emit_all = false;
    // builders that use `get_unchecked` abort the process (UB check) when driven with the stale table
    let abort_prone = sc.kind != "prim" && sc.kind != "bytes" && sc.kind != "bool" && sc.cols.len() > 1 && sc.cols.iter().any(|c| matches!(c, Col::Str(_) | Col::Bin(_) | Col::BigView(_)));
    let mut force_clear = false;
    let mut kinds = std::collections::BTreeSet::new();
    let mut interned_once = false;
    for step in 0..len {
        let cur_len = gv.len();
        let c = rng.below(100);
        let op = if let Some(sc) = script {
            sc[step].clone()
        } else if force_clear {
            force_clear = false;
            HOp::Clear
        } else if c < 55 || step == 0 && c < 90 {
            let rows = *rng.pick(&[0usize, 1, 2, 3, 5, 8, 12]);
            HOp::Intern(
                (0..rows)
                    .map(|_| {
                        sc.cols
                            .iter()
                            .map(|col| if nullable && rng.chance(1, 5) { None } else { Some((rng.below(col.domain().min(dom_cap) as u64) as usize, rng.below(4))) })
                            .collect()
                    })
                    .collect(),
            )
        } else if c < 67 {
            HOp::EmitAll
        } else if c < 92 {
            let n = match rng.below(5) {
                0 => 0,
                1 => 1.min(cur_len),
                2 => cur_len,
                3 => cur_len.saturating_sub(1),
                _ => rng.below(cur_len as u64 + 1) as usize,
            };
            HOp::EmitFirst(n)
        } else {
            HOp::Clear
        };
        let stale_now = stale_emit_all;
        let fail = |fails: &mut Vec<(String, String)>, what: &str, detail: String, unflushed: bool| {
            if fails.is_empty() {
                fails.push((format!("{what} kind={} after-unflushed-clear={unflushed} after-emit-all-no-clear={stale_now}", sc.kind), detail));
            }
        };
        match op {
            HOp::Intern(rows) => {
                let nrows = rows.len();
                // column arrays, sliced out of a longer array (offset 2) half of the time
                let sliced = rng.chance(1, 2);
                let arrays: Vec<ArrayRef> = sc
                    .cols
                    .iter()
                    .enumerate()
                    .map(|(ci, col)| {
                        let mut cells: Vec<Option<(usize, u64)>> = rows.iter().map(|r| r[ci]).collect();
                        if sliced {
                            let mut padded = vec![Some((col.domain() - 1, 0)), if nullable { None } else { Some((0, 0)) }];
                            padded.append(&mut cells);
                            col.make(&padded).slice(2, nrows)
                        } else {
                            col.make(&cells)
                        }
                    })
                    .collect();
                let keys: Vec<Key> = rows.iter().map(|r| r.iter().map(|c| c.map(|(k, _)| k)).collect()).collect();
                req.push_str(" (i");
                for k in &keys {
                    req.push_str(&format!(" ({})", k.iter().map(|c| c.map(|x| x.to_string()).unwrap_or_else(|| "n".into())).collect::<Vec<_>>().join(" ")));
                }
                req.push(')');
                let mut groups = vec![usize::MAX; 3];
                let r = hutil::catch(std::panic::AssertUnwindSafe(|| gv.intern(&arrays, &mut groups)));
                match r {
                    Ok(Ok(())) => {}
                    Ok(Err(e)) => {
                        fail(&mut fails, "intern-error", e.to_string(), unflushed_clear);
                        ans.push("error".into());
                        break;
                    }
                    Err(p) => {
                        fail(&mut fails, "intern-panic", p, unflushed_clear);
                        ans.push("panic".into());
                        break;
                    }
                }
                interned_once = true;
                kinds.insert(if nrows == 0 { "intern-empty" } else { "intern" });
                // ---- oracle on the impl's answer
                if groups.len() != nrows {
                    fail(&mut fails, "ids-length", format!("{} ids for {nrows} rows", groups.len()), unflushed_clear);
                }
                // existing keys keep their id; the batch's new keys get exactly the ids
                // before..before+k, one each (first-seen order unless hashes collide)
                let before = live.len();
                let mut newly: std::collections::BTreeMap<usize, Key> = std::collections::BTreeMap::new();
                let mut in_order = true;
                for (k, g) in keys.iter().zip(groups.iter()) {
                    if let Some(pos) = live.iter().position(|x| x == k) {
                        if pos != *g {
                            fail(&mut fails, "equal-keys-different-ids", format!("step {step}: key ({}) has id {pos} but got id {g}", key_txt(k)), unflushed_clear);
                        } else {
                            kinds.insert("existing-key");
                        }
                    } else if *g < before {
                        fail(&mut fails, "new-key-got-existing-id", format!("step {step}: key ({}) got id {g} which is the id of ({})", key_txt(k), key_txt(&live[*g])), unflushed_clear);
                    } else {
                        match newly.get(g) {
                            Some(k2) if k2 != k => fail(&mut fails, "distinct-keys-same-id", format!("step {step}: keys ({}) and ({}) both got id {g}", key_txt(k), key_txt(k2)), unflushed_clear),
                            Some(_) => {}
                            None => {
                                if let Some((g2, _)) = newly.iter().find(|(_, k2)| *k2 == k) {
                                    fail(&mut fails, "equal-keys-different-ids", format!("step {step}: key ({}) got ids {g2} and {g}", key_txt(k)), unflushed_clear);
                                }
                                if *g != before + newly.len() {
                                    in_order = false;
                                }
                                newly.insert(*g, k.clone());
                            }
                        }
                    }
                }
                for (i, (g, k)) in newly.iter().enumerate() {
                    if *g != before + i {
                        fail(&mut fails, "id-not-dense", format!("step {step}: new keys got ids {:?} while {before} groups existed", newly.keys().collect::<Vec<_>>()), unflushed_clear);
                        break;
                    }
                    live.push(k.clone());
                }
                if !newly.is_empty() {
                    kinds.insert(if before > 0 { "new-key-after-existing" } else { "new-key" });
                    if !in_order {
                        kinds.insert("new-keys-not-in-first-seen-order(hash collision)");
                    }
                }
                ans.push(format!("ids:{}|{}", groups.iter().map(|g| g.to_string()).collect::<Vec<_>>().join(","), gv.len()));
            }
            HOp::EmitAll | HOp::EmitFirst(_) => {
                let (emit_to, n) = match op {
                    HOp::EmitAll => {
                        req.push_str(" (ea)");
                        if cur_len > 0 && (sc.kind == "spec" || sc.kind == "unordered") {
                            if abort_prone {
                                force_clear = true; // the engine's pattern: emit(All) then clear_shrink
                            } else {
                                stale_emit_all = true;
                            }
                        }
                        (EmitTo::All, cur_len)
                    }
                    HOp::EmitFirst(n) => {
                        req.push_str(&format!(" (ef {n})"));
                        (EmitTo::First(n), n)
                    }
                    _ => unreachable!(),
                };
                let r = hutil::catch(std::panic::AssertUnwindSafe(|| gv.emit(emit_to)));
                let arrays = match r {
                    Ok(Ok(a)) => a,
                    Ok(Err(e)) => {
                        fail(&mut fails, "emit-error", e.to_string(), unflushed_clear);
                        ans.push("error".into());
                        break;
                    }
                    Err(p) => {
                        let what = if !interned_once { "emit-before-first-intern-panics" } else { "emit-panic" };
                        fail(&mut fails, what, format!("step {step}: emit({emit_to:?}) panicked: {p}"), unflushed_clear);
                        ans.push("panic".into());
                        break;
                    }
                };
                kinds.insert(match emit_to {
                    EmitTo::All => "emit-all",
                    EmitTo::First(0) => "emit-first-0",
                    EmitTo::First(k) if k == cur_len => "emit-first-len",
                    EmitTo::First(_) => "emit-first-n",
                });
                if arrays.len() != sc.cols.len() {
                    fail(&mut fails, "emit-columns", format!("{} arrays for {} columns", arrays.len(), sc.cols.len()), unflushed_clear);
                }
                for (a, c) in arrays.iter().zip(sc.cols.iter()) {
                    if a.data_type() != &c.data_type() {
                        fail(&mut fails, "emit-type", format!("emitted {:?} for a column declared {:?}", a.data_type(), c.data_type()), unflushed_clear);
                    }
                }
                match decode(&arrays, &tables) {
                    Ok(keys) => {
                        let want: Vec<Key> = live.iter().take(n).cloned().collect();
                        if keys != want || n > live.len() {
                            fail(
                                &mut fails,
                                "emit-wrong-keys",
                                format!("step {step}: emit({emit_to:?}) returned [{}] but ids 0..{n} hold [{}]", keys.iter().map(key_txt).collect::<Vec<_>>().join(";"), want.iter().map(key_txt).collect::<Vec<_>>().join(";")),
                                unflushed_clear,
                            );
                        }
                        live.drain(..n.min(live.len()));
                        ans.push(format!("keys:{}|{}", keys.iter().map(key_txt).collect::<Vec<_>>().join(";"), gv.len()));
                    }
                    Err(e) => {
                        fail(&mut fails, "emit-unknown-value", e, unflushed_clear);
                        ans.push("undecodable".into());
                        break;
                    }
                }
            }
            HOp::Clear => {
                req.push_str(" (c)");
                stale_emit_all = false;
                if cur_len > 0 {
                    unflushed_clear = true;
                    kinds.insert("clear-nonempty");
                } else {
                    kinds.insert("clear-empty");
                }
                gv.clear_shrink(*rng.pick(&[0usize, 1, 8]));
                live.clear();
                ans.push(format!("unit|{}", gv.len()));
            }
        }
        if gv.len() != live.len() {
            fail(&mut fails, "len-mismatch", format!("step {step}: len()={} but {} distinct live keys", gv.len(), live.len()), unflushed_clear);
        }
        if gv.is_empty() != (gv.len() == 0) {
            fail(&mut fails, "is_empty-mismatch", format!("step {step}"), unflushed_clear);
        }
    }
    req.push(')');
    for k in &kinds {
        run.count(k);
    }
    run.count(&format!("kind:{}", sc.kind));
    let nontrivial = kinds.contains("existing-key") && kinds.contains("new-key-after-existing") && kinds.iter().any(|k| k.starts_with("emit"));
    run.case("run", &req, &ans.join(" "), nontrivial);
    if fails.is_empty() {
        run.oracle(true, "", "");
    }
    for (sig, d) in &fails {
        run.oracle(false, &format!("{sig} schema={} history#{h} {req}", sc.name), d);
    }
}

pub fn run(run: &mut Run, args: &Args) {
    if std::env::var("VERIF_LOUD").is_err() {
        hutil::quiet_panics();
    }
    let mut rng = Rng::new(args.seed);
    let scs = schemas();
    let per_schema = run.budget(60, 2500);
    let mut h = 0;
    for sc in &scs {
        for _ in 0..per_schema {
            one_history(run, &mut rng, sc, h, None);
            h += 1;
        }
    }
    directed(run, &mut rng, &scs, h);
}

fn row_of(sc: &SchemaCase, first: Option<usize>) -> Vec<Option<(usize, u64)>> {
    // the first column carries the key, the others a constant; a NULL key is NULL in every column
    sc.cols.iter().enumerate().map(|(i, c)| first.map(|k| if i == 0 { (k % c.domain(), 0) } else { (1 % c.domain(), 0) })).collect()
}

/// hand-shaped histories for boundaries random histories do not reach
fn directed(run: &mut Run, rng: &mut Rng, scs: &[SchemaCase], mut h: u64) {
    // (1) byte-view data blocks: enough long values to fill (exactly / nearly) a 2 MiB block, `First(n)`
    //     at every cut (so that whole blocks, partial blocks and no block are released), remaining keys of
    //     exactly 11 / 12 / 13 bytes, re-interning of everything afterwards, a second partial emit, final
    //     emit. Multi-column store (`ByteViewGroupValueBuilder::take_n`) and the single-column store
    //     (`ArrowBytesViewMap`), Utf8View and BinaryView.
    let big: Vec<SchemaCase> = vec![
        SchemaCase { name: "big utf8view+int64 (2 MiB blocks)", kind: "spec", cols: vec![Col::BigView(false), Col::FromInt(DataType::Int64)] },
        SchemaCase { name: "big binaryview+bool (2 MiB blocks)", kind: "spec", cols: vec![Col::BigView(true), Col::Bool] },
        SchemaCase { name: "big utf8view single (2 MiB blocks)", kind: "bytes", cols: vec![Col::BigView(false)] },
        SchemaCase { name: "big binaryview single (2 MiB blocks)", kind: "bytes", cols: vec![Col::BigView(true)] },
    ];
    let orders: Vec<Vec<Option<usize>>> = vec![
        vec![Some(5), Some(6), Some(2), Some(7), Some(1), Some(3), Some(8), Some(4)],
        vec![Some(2), Some(5), Some(3), Some(6), Some(9), Some(4), Some(7), Some(1)],
        vec![Some(5), Some(6), Some(2), None, Some(7), Some(3)],
        vec![Some(4), Some(2), Some(1), Some(3), Some(0)],
        vec![Some(5), Some(2), Some(6), Some(4), Some(9), Some(1), Some(8), Some(3), Some(7)],
    ];
    for sc in &big {
        for order in &orders {
            for n in 1..order.len() {
                let rows: Vec<_> = order.iter().map(|k| row_of(sc, *k)).collect();
                let mut dup = rows.clone();
                dup.extend(rows.iter().take(2).cloned());
                let mut rev = rows.clone();
                rev.reverse();
                let script = vec![HOp::Intern(dup), HOp::Intern(rev.clone()), HOp::EmitFirst(n), HOp::Intern(rows.clone()), HOp::EmitFirst(1), HOp::Intern(rev), HOp::EmitAll];
                one_history(run, rng, sc, h, Some(&script));
                run.count("directed:view-block-release");
                h += 1;
            }
        }
    }
    // (2) NULL-buffer fast paths: no NULL seen before a `First(n)`, first NULL afterwards; and the NULL
    //     group emitted by `First(1)` and re-created. Every schema.
    for sc in scs {
        let k = |i: usize| row_of(sc, Some(i));
        let nul = row_of(sc, None);
        let s1 = vec![
            HOp::Intern(vec![k(0), k(1), k(0), k(2), k(3)]),
            HOp::EmitFirst(2.min(sc.cols[0].domain())),
            HOp::Intern(vec![nul.clone(), k(2), k(3)]),
            HOp::EmitFirst(1),
            HOp::Intern(vec![k(0), nul.clone(), k(3)]),
            HOp::EmitAll,
        ];
        let s2 = vec![
            HOp::Intern(vec![nul.clone(), k(0), k(1)]),
            HOp::EmitFirst(1),
            HOp::Intern(vec![k(0), nul.clone()]),
            HOp::EmitFirst(2),
            HOp::Intern(vec![k(1), nul.clone()]),
            HOp::EmitAll,
        ];
        for s in [s1, s2] {
            one_history(run, rng, sc, h, Some(&s));
            run.count("directed:null-fast-path");
            h += 1;
        }
    }
    // (3) boolean store: every first-seen order of false / true / NULL × every `First(n)` (false's, true's
    //     and NULL's id equal to n, n−1, n+1), then everything re-interned
    if let Some(sc) = scs.iter().find(|s| s.kind == "bool") {
        let vals = [Some(0usize), Some(1), None];
        for perm in [[0, 1, 2], [0, 2, 1], [1, 0, 2], [1, 2, 0], [2, 0, 1], [2, 1, 0]] {
            for upto in 1..=3usize {
                for n in 0..=upto {
                    let rows: Vec<_> = perm.iter().take(upto).map(|i| row_of(sc, vals[*i])).collect();
                    let all: Vec<_> = vals.iter().map(|v| row_of(sc, *v)).collect();
                    let s = vec![HOp::Intern(rows), HOp::EmitFirst(n), HOp::Intern(all.clone()), HOp::EmitFirst(1), HOp::Intern(all), HOp::EmitAll];
                    one_history(run, rng, sc, h, Some(&s));
                    run.count("directed:boolean-ids");
                    h += 1;
                }
            }
        }
    }
}
