//! C12 — row hashes depend only on the logical row value.
//!
//! For a random logical column of a random (possibly nested) type the harness builds 2–6
//! PHYSICALLY different Arrow encodings from an explicit physical description `P`
//! (sliced from padded arrays, validity buffer present/absent, garbage under NULLs, re-keyed
//! dictionaries with unused/duplicate values, views with different buffer layouts, split runs and
//! slice offsets for run-end arrays, list offsets with gaps under NULL parents) and checks
//!  * implementation-level oracle: `create_hashes` / `with_hashes` (foldhash `RandomState`, the
//!    quality state, and a transparent FNV state) agree ACROSS encodings, alone and as 1–4 column keys;
//!    `create_hashes_with_hasher` agrees across encodings too;
//!  * correspondence `hash`: with the transparent FNV `HashState` plugged into the real
//!    `create_hashes`, the hash VALUES must equal the Lean model `hashCol` evaluated on the same
//!    physical description (equality);
//!  * correspondence `logical`: the logical content read back from the real array equals the
//!    model's `logical` of the description (ties the description to the array);
//!  * correspondence `path`: the kernel path chosen (null_count / buffers facts) equals the model's.
use std::hash::{BuildHasher, Hasher};
use std::sync::Arc;

use arrow::array::builder::make_view;
use arrow::array::*;
use arrow::buffer::{Buffer, NullBuffer, OffsetBuffer, ScalarBuffer};
use arrow::datatypes::{DataType, Field, Fields, Int32Type};
use datafusion_common::hash_utils::{HashState, QualityRandomState, RandomState, create_hashes, create_hashes_with_hasher, with_hashes};
use hutil::{Args, Rng, Run};

// ---------------------------------------------------------------- transparent hash state
#[derive(Clone, Default)]
struct TState;
struct TSeeded(u64);
struct THasher(u64);
const BASIS: u64 = 0xcbf29ce484222325;
impl Hasher for THasher {
    fn write(&mut self, bytes: &[u8]) {
        for b in bytes {
            self.0 = (self.0 ^ (*b as u64)).wrapping_mul(0x100000001b3);
        }
    }
    fn finish(&self) -> u64 {
        self.0
    }
}
impl BuildHasher for TState {
    type Hasher = THasher;
    fn build_hasher(&self) -> THasher {
        THasher(BASIS)
    }
}
impl BuildHasher for TSeeded {
    type Hasher = THasher;
    fn build_hasher(&self) -> THasher {
        THasher(BASIS ^ self.0.wrapping_mul(0x9E3779B97F4A7C15))
    }
}
impl HashState for TState {
    type SeededState = TSeeded;
    fn seeded_state(&self, seed: u64) -> TSeeded {
        TSeeded(seed)
    }
}

// ---------------------------------------------------------------- logical values and types
#[derive(Clone, Debug, PartialEq)]
enum L {
    Null,
    Int(i64),
    Str(Vec<u8>),
    List(Vec<L>),
    Struct(Box<L>, Box<L>),
}
#[derive(Clone, Debug, PartialEq)]
enum T {
    Prim,
    Bytes,
    View,
    Dict(Box<T>),
    Ree(Box<T>),
    List(Box<T>),
    Struct(Box<T>, Box<T>),
}
type Valid = Option<Vec<bool>>;
#[derive(Clone, Debug)]
enum V {
    Inline(Vec<u8>),
    Ref { len: usize, buf: usize, off: usize },
}
/// physical description — mirrors `Mech.RowHash.Phys`
#[derive(Clone, Debug)]
enum P {
    Prim { vals: Vec<i64>, valid: Valid },
    Bytes { offsets: Vec<usize>, data: Vec<u8>, valid: Valid },
    View { views: Vec<V>, bufs: Vec<Vec<u8>>, valid: Valid },
    Dict { keys: Vec<usize>, kvalid: Valid, values: Box<P> },
    Ree { run_ends: Vec<usize>, values: Box<P>, off: usize, len: usize },
    List { offsets: Vec<usize>, child: Box<P>, valid: Valid },
    Struct { c1: Box<P>, c2: Box<P>, valid: Valid, len: usize },
}

fn dtype(t: &T) -> DataType {
    match t {
        T::Prim => DataType::Int64,
        T::Bytes => DataType::Utf8,
        T::View => DataType::Utf8View,
        T::Dict(v) => DataType::Dictionary(Box::new(DataType::Int32), Box::new(dtype(v))),
        T::Ree(v) => DataType::RunEndEncoded(Arc::new(Field::new("run_ends", DataType::Int32, false)), Arc::new(Field::new("values", dtype(v), true))),
        T::List(c) => DataType::List(Arc::new(Field::new_list_field(dtype(c), true))),
        T::Struct(a, b) => DataType::Struct(Fields::from(vec![Field::new("a", dtype(a), true), Field::new("b", dtype(b), true)])),
    }
}

fn nulls(v: &Valid) -> Option<NullBuffer> {
    v.as_ref().map(|bs| NullBuffer::from(bs.clone()))
}

fn make_views(views: &[V], bufs: &[Vec<u8>]) -> Vec<u128> {
    views
        .iter()
        .map(|v| match v {
            V::Inline(b) => make_view(b, 0, 0),
            V::Ref { len, buf, off } => make_view(&bufs[*buf][*off..*off + *len], *buf as u32, *off as u32),
        })
        .collect()
}

fn build(p: &P, t: &T) -> ArrayRef {
    match (p, t) {
        (P::Prim { vals, valid }, T::Prim) => Arc::new(Int64Array::new(ScalarBuffer::from(vals.clone()), nulls(valid))),
        (P::Bytes { offsets, data, valid }, T::Bytes) => {
            let offs: Vec<i32> = offsets.iter().map(|o| *o as i32).collect();
            Arc::new(StringArray::new(OffsetBuffer::new(ScalarBuffer::from(offs)), Buffer::from(data.clone()), nulls(valid)))
        }
        (P::View { views, bufs, valid }, T::View) => {
            let vs = make_views(views, bufs);
            let bs: Vec<Buffer> = bufs.iter().map(|b| Buffer::from(b.clone())).collect();
            Arc::new(StringViewArray::new(ScalarBuffer::from(vs), bs, nulls(valid)))
        }
        (P::Dict { keys, kvalid, values }, T::Dict(vt)) => {
            let ks = Int32Array::new(ScalarBuffer::from(keys.iter().map(|k| *k as i32).collect::<Vec<_>>()), nulls(kvalid));
            Arc::new(DictionaryArray::<Int32Type>::try_new(ks, build(values, vt)).unwrap())
        }
        (P::Ree { run_ends, values, off, len }, T::Ree(vt)) => {
            let re = Int32Array::from(run_ends.iter().map(|e| *e as i32).collect::<Vec<_>>());
            let ra = RunArray::<Int32Type>::try_new(&re, build(values, vt).as_ref()).unwrap();
            Arc::new(ra.slice(*off, *len))
        }
        (P::List { offsets, child, valid }, T::List(ct)) => {
            let offs: Vec<i32> = offsets.iter().map(|o| *o as i32).collect();
            Arc::new(ListArray::new(Arc::new(Field::new_list_field(dtype(ct), true)), OffsetBuffer::new(ScalarBuffer::from(offs)), build(child, ct), nulls(valid)))
        }
        (P::Struct { c1, c2, valid, len }, T::Struct(a, b)) => {
            let fields = Fields::from(vec![Field::new("a", dtype(a), true), Field::new("b", dtype(b), true)]);
            let arr = StructArray::new(fields, vec![build(c1, a), build(c2, b)], nulls(valid));
            assert_eq!(arr.len(), *len);
            Arc::new(arr)
        }
        _ => panic!("description/type mismatch"),
    }
}

fn valid_sexp(v: &Valid) -> String {
    match v {
        None => "none".into(),
        Some(bs) => format!("({})", bs.iter().map(|b| if *b { "t" } else { "f" }).collect::<Vec<_>>().join(" ")),
    }
}
fn nums<Tn: ToString>(xs: &[Tn]) -> String {
    format!("({})", xs.iter().map(|x| x.to_string()).collect::<Vec<_>>().join(" "))
}
fn sexp(p: &P) -> String {
    match p {
        P::Prim { vals, valid } => format!("(prim {} {})", nums(vals), valid_sexp(valid)),
        P::Bytes { offsets, data, valid } => format!("(bytes {} {} {})", nums(offsets), nums(data), valid_sexp(valid)),
        P::View { views, bufs, valid } => {
            let vs: Vec<String> = views
                .iter()
                .map(|v| match v {
                    V::Inline(b) => {
                        let mut d = b.clone();
                        d.resize(12, 0);
                        format!("(i {} {})", b.len(), nums(&d))
                    }
                    V::Ref { len, buf, off } => format!("(r {len} {buf} {off})"),
                })
                .collect();
            format!("(view ({}) ({}) {})", vs.join(" "), bufs.iter().map(|b| nums(b)).collect::<Vec<_>>().join(" "), valid_sexp(valid))
        }
        P::Dict { keys, kvalid, values } => format!("(dict {} {} {})", nums(keys), valid_sexp(kvalid), sexp(values)),
        P::Ree { run_ends, values, off, len } => format!("(ree {} {} {off} {len})", nums(run_ends), sexp(values)),
        P::List { offsets, child, valid } => format!("(list {} {} {})", nums(offsets), sexp(child), valid_sexp(valid)),
        P::Struct { c1, c2, valid, len } => format!("(struct {} {} {} {len})", sexp(c1), sexp(c2), valid_sexp(valid)),
    }
}

// ---------------------------------------------------------------- generators
fn gen_str(rng: &mut Rng) -> Vec<u8> {
    let l = *rng.pick(&[0usize, 1, 3, 11, 12, 13, 20]);
    (0..l).map(|_| b'a' + rng.below(4) as u8).collect()
}
fn gen_logical(t: &T, n: usize, rng: &mut Rng, nullable: bool) -> Vec<L> {
    (0..n)
        .map(|_| {
            if nullable && rng.chance(1, 4) {
                return L::Null;
            }
            match t {
                T::Prim => L::Int(*rng.pick(&[0i64, 1, 1, -1, 7, i64::MIN, i64::MAX])),
                T::Bytes | T::View => L::Str(gen_str(rng)),
                T::Dict(v) | T::Ree(v) => gen_logical(v, 1, rng, false).pop().unwrap(),
                T::List(c) => {
                    let k = rng.below(4) as usize;
                    L::List(gen_logical(c, k, rng, true))
                }
                T::Struct(a, b) => L::Struct(Box::new(gen_logical(a, 1, rng, true).pop().unwrap()), Box::new(gen_logical(b, 1, rng, true).pop().unwrap())),
            }
        })
        .collect()
}
/// an arbitrary non-null logical value of type t (used as garbage under NULLs)
fn garbage(t: &T, rng: &mut Rng) -> L {
    gen_logical(t, 1, rng, false).pop().unwrap()
}
/// validity: present when there are NULLs, and sometimes present (all set) when there are none
fn mk_valid(ls: &[L], rng: &mut Rng) -> Valid {
    let any = ls.iter().any(|l| *l == L::Null);
    if any || rng.chance(1, 3) { Some(ls.iter().map(|l| *l != L::Null).collect()) } else { None }
}
/// `hidden`: allow NULLs of dictionary / run-end columns to be stored as NULL *values* even when the
/// values array cannot show them in `null_count()` (nested dict / ree)
fn encode(t: &T, ls: &[L], rng: &mut Rng) -> P {
    match t {
        T::Prim => {
            let vals = ls.iter().map(|l| if let L::Int(x) = l { *x } else { rng.range(-5, 5) }).collect();
            P::Prim { vals, valid: mk_valid(ls, rng) }
        }
        T::Bytes => {
            let mut offsets = vec![0usize];
            let mut data = vec![];
            // optional garbage prefix in the data buffer (first offset > 0)
            if rng.chance(1, 3) {
                data.extend_from_slice(b"zz");
                offsets[0] = 2;
            }
            for l in ls {
                match l {
                    L::Str(s) => data.extend_from_slice(s),
                    _ => {
                        if rng.chance(1, 2) {
                            data.extend_from_slice(b"garbage")
                        }
                    }
                }
                offsets.push(data.len());
            }
            P::Bytes { offsets, data, valid: mk_valid(ls, rng) }
        }
        T::View => {
            let nb = 1 + rng.below(3) as usize;
            let mut bufs: Vec<Vec<u8>> = vec![vec![]; nb];
            if rng.chance(1, 2) {
                bufs[0].extend_from_slice(b"pad");
            }
            let mut views = vec![];
            let mut any_long = false;
            for l in ls {
                let s: Vec<u8> = match l {
                    L::Str(s) => s.clone(),
                    _ => if rng.chance(1, 2) { b"under-null-garbage".to_vec() } else { vec![] },
                };
                if s.len() <= 12 {
                    views.push(V::Inline(s));
                } else {
                    any_long = true;
                    let b = rng.below(nb as u64) as usize;
                    let off = bufs[b].len();
                    bufs[b].extend_from_slice(&s);
                    views.push(V::Ref { len: s.len(), buf: b, off });
                }
            }
            // all-inline arrays: with or without (unused) data buffers
            if !any_long && rng.chance(1, 2) {
                bufs.clear();
            }
            P::View { views, bufs, valid: mk_valid(ls, rng) }
        }
        T::Dict(vt) => {
            // values: distinct logical values in random order + unused garbage + duplicates
            let nullable_values = matches!(**vt, T::Prim | T::Bytes | T::View | T::List(_) | T::Struct(_, _));
            let mut vals: Vec<L> = vec![];
            for _ in 0..rng.below(3) {
                vals.push(garbage(vt, rng));
            }
            let null_as_value = nullable_values && rng.chance(1, 2);
            if null_as_value {
                vals.push(L::Null);
            }
            let mut keys = vec![];
            let mut kvalid_bits = vec![];
            for l in ls {
                if *l == L::Null {
                    if null_as_value && rng.chance(2, 3) {
                        keys.push(vals.iter().position(|v| *v == L::Null).unwrap());
                        kvalid_bits.push(true);
                    } else {
                        keys.push(rng.below(vals.len().max(1) as u64) as usize);
                        kvalid_bits.push(false);
                    }
                    continue;
                }
                // reuse an existing slot or append a duplicate
                let pos = vals.iter().position(|v| v == l);
                let k = match pos {
                    Some(k) if rng.chance(2, 3) => k,
                    _ => {
                        vals.push(l.clone());
                        vals.len() - 1
                    }
                };
                keys.push(k);
                kvalid_bits.push(true);
            }
            if vals.is_empty() {
                vals.push(garbage(vt, rng));
            }
            for k in keys.iter_mut() {
                if *k >= vals.len() {
                    *k = 0;
                }
            }
            let kvalid = if kvalid_bits.iter().any(|b| !*b) || rng.chance(1, 3) { Some(kvalid_bits) } else { None };
            P::Dict { keys, kvalid, values: Box::new(encode(vt, &vals, rng)) }
        }
        T::Ree(vt) => {
            // pad in front and behind, split runs at random
            let front = rng.below(3) as usize;
            let back = rng.below(3) as usize;
            let mut all: Vec<L> = vec![];
            for _ in 0..front {
                all.push(garbage(vt, rng));
            }
            all.extend_from_slice(ls);
            for _ in 0..back {
                all.push(garbage(vt, rng));
            }
            let mut run_ends = vec![];
            let mut vals: Vec<L> = vec![];
            for (i, l) in all.iter().enumerate() {
                let same = vals.last() == Some(l);
                if i > 0 && same && !rng.chance(1, 3) {
                    *run_ends.last_mut().unwrap() = i + 1;
                } else {
                    vals.push(l.clone());
                    run_ends.push(i + 1);
                }
            }
            if all.is_empty() {
                // arrow needs at least a consistent (possibly empty) run array
                return P::Ree { run_ends: vec![], values: Box::new(encode(vt, &[], rng)), off: 0, len: 0 };
            }
            P::Ree { run_ends, values: Box::new(encode(vt, &vals, rng)), off: front, len: ls.len() }
        }
        T::List(ct) => {
            let mut child: Vec<L> = vec![];
            let mut offsets = vec![];
            // leading unreferenced child values
            for _ in 0..rng.below(3) {
                child.push(garbage(ct, rng));
            }
            offsets.push(child.len());
            for l in ls {
                match l {
                    L::List(xs) => child.extend_from_slice(xs),
                    _ => {
                        // a NULL list may still span child values
                        for _ in 0..rng.below(3) {
                            child.push(if rng.chance(1, 2) { L::Null } else { garbage(ct, rng) });
                        }
                    }
                }
                offsets.push(child.len());
            }
            for _ in 0..rng.below(2) {
                child.push(garbage(ct, rng));
            }
            // the child must be nullable-encodable: dict/ree children take NULLs as keys / runs
            P::List { offsets, child: Box::new(encode(ct, &child, rng)), valid: mk_valid(ls, rng) }
        }
        T::Struct(a, b) => {
            let mut xs = vec![];
            let mut ys = vec![];
            for l in ls {
                match l {
                    L::Struct(x, y) => {
                        xs.push((**x).clone());
                        ys.push((**y).clone());
                    }
                    _ => {
                        xs.push(if rng.chance(1, 2) { L::Null } else { garbage(a, rng) });
                        ys.push(if rng.chance(1, 2) { L::Null } else { garbage(b, rng) });
                    }
                }
            }
            P::Struct { c1: Box::new(encode(a, &xs, rng)), c2: Box::new(encode(b, &ys, rng)), valid: mk_valid(ls, rng), len: ls.len() }
        }
    }
}

/// pad a flat-ish description in front/behind with garbage rows and return (padded, offset):
/// the array handed to the kernels is `build(padded).slice(offset, n)`, whose description is
/// `slice_desc(padded, offset, n)`.
fn slice_valid(v: &Valid, off: usize, n: usize) -> Valid {
    v.as_ref().map(|bs| bs[off..off + n].to_vec())
}
fn slice_desc(p: &P, off: usize, n: usize) -> Option<P> {
    Some(match p {
        P::Prim { vals, valid } => P::Prim { vals: vals[off..off + n].to_vec(), valid: slice_valid(valid, off, n) },
        P::Bytes { offsets, data, valid } => P::Bytes { offsets: offsets[off..off + n + 1].to_vec(), data: data.clone(), valid: slice_valid(valid, off, n) },
        P::View { views, bufs, valid } => P::View { views: views[off..off + n].to_vec(), bufs: bufs.clone(), valid: slice_valid(valid, off, n) },
        P::Dict { keys, kvalid, values } => P::Dict { keys: keys[off..off + n].to_vec(), kvalid: slice_valid(kvalid, off, n), values: values.clone() },
        P::List { offsets, child, valid } => P::List { offsets: offsets[off..off + n + 1].to_vec(), child: child.clone(), valid: slice_valid(valid, off, n) },
        _ => return None,
    })
}

fn gen_type(rng: &mut Rng, depth: u32) -> T {
    let leaf = |rng: &mut Rng| match rng.below(3) {
        0 => T::Prim,
        1 => T::Bytes,
        _ => T::View,
    };
    if depth == 0 {
        return leaf(rng);
    }
    match rng.below(8) {
        0..=2 => leaf(rng),
        3 => T::Dict(Box::new(gen_type(rng, depth - 1))),
        4 => T::Ree(Box::new(gen_type(rng, depth - 1))),
        5 | 6 => T::List(Box::new(gen_type(rng, depth - 1))),
        _ => T::Struct(Box::new(gen_type(rng, depth - 1)), Box::new(gen_type(rng, depth - 1))),
    }
}
/// does this type nest a dictionary / run-end array directly as the VALUES of a dictionary /
/// run-end array?  (NULLs of such values are invisible to `null_count()`; see notes/C12.md)
fn hidden_null_nesting(t: &T) -> bool {
    match t {
        T::Dict(v) | T::Ree(v) => matches!(**v, T::Dict(_) | T::Ree(_)) || hidden_null_nesting(v),
        T::List(c) => hidden_null_nesting(c),
        T::Struct(a, b) => hidden_null_nesting(a) || hidden_null_nesting(b),
        _ => false,
    }
}

// ---------------------------------------------------------------- reading the real arrays back
fn show_logical(a: &dyn Array) -> Vec<String> {
    (0..a.len()).map(|i| show_at(a, i)).collect()
}
fn hex(b: &[u8]) -> String {
    hutil::hex(b)
}
fn show_at(a: &dyn Array, i: usize) -> String {
    if a.is_null(i) && !matches!(a.data_type(), DataType::RunEndEncoded(_, _) | DataType::Dictionary(_, _)) {
        return "N".into();
    }
    match a.data_type() {
        DataType::Int64 => a.as_any().downcast_ref::<Int64Array>().unwrap().value(i).to_string(),
        DataType::Utf8 => hex(a.as_any().downcast_ref::<StringArray>().unwrap().value(i).as_bytes()),
        DataType::Utf8View => hex(a.as_any().downcast_ref::<StringViewArray>().unwrap().value(i).as_bytes()),
        DataType::Dictionary(_, _) => {
            let d = a.as_any().downcast_ref::<DictionaryArray<Int32Type>>().unwrap();
            if d.keys().is_null(i) { "N".into() } else { show_at(d.values().as_ref(), d.keys().value(i) as usize) }
        }
        DataType::RunEndEncoded(_, _) => {
            let r = a.as_any().downcast_ref::<RunArray<Int32Type>>().unwrap();
            show_at(r.values().as_ref(), r.get_physical_index(i))
        }
        DataType::List(_) => {
            let l = a.as_any().downcast_ref::<ListArray>().unwrap();
            let v = l.value(i);
            format!("[{}]", show_logical(v.as_ref()).join(","))
        }
        DataType::Struct(_) => {
            let s = a.as_any().downcast_ref::<StructArray>().unwrap();
            format!("{{{},{}}}", show_at(s.column(0).as_ref(), i), show_at(s.column(1).as_ref(), i))
        }
        t => panic!("unexpected type {t}"),
    }
}

fn path_of(a: &dyn Array) -> String {
    match a.data_type() {
        DataType::Int64 => if a.null_count() == 0 { "prim:nonull".into() } else { "prim:valid_indices".into() },
        DataType::Utf8 => if a.null_count() == 0 { "bytes:nonull".into() } else { "bytes:valid_indices".into() },
        DataType::Utf8View => {
            let v = a.as_any().downcast_ref::<StringViewArray>().unwrap();
            format!("view:nulls={},buffers={}", a.null_count() != 0, !v.data_buffers().is_empty())
        }
        DataType::Dictionary(_, _) => {
            let d = a.as_any().downcast_ref::<DictionaryArray<Int32Type>>().unwrap();
            format!("dict:nullkeys={},nullvalues={}", d.keys().null_count() != 0, d.values().null_count() != 0)
        }
        DataType::RunEndEncoded(_, _) => {
            let r = a.as_any().downcast_ref::<RunArray<Int32Type>>().unwrap();
            format!("ree:nullvalues={}", r.values().null_count() != 0)
        }
        DataType::List(_) => if a.null_count() == 0 { "list:nonull".into() } else { "list:nulls".into() },
        DataType::Struct(_) => if a.null_count() != 0 { "struct:nulls".into() } else { "struct:nonull".into() },
        t => panic!("unexpected type {t}"),
    }
}

fn hashes<S: HashState>(cols: &[ArrayRef], st: &S, n: usize) -> Result<Vec<u64>, String> {
    let mut buf = vec![0u64; n];
    create_hashes(cols, st, &mut buf).map_err(|e| e.to_string())?;
    Ok(buf)
}
fn show_hashes(h: &Result<Vec<u64>, String>) -> String {
    match h {
        Ok(v) if v.is_empty() => "-".into(),
        Ok(v) => v.iter().map(|x| x.to_string()).collect::<Vec<_>>().join(" "),
        Err(e) => format!("err:{e}"),
    }
}

/// one encoding of a logical column: description as the kernels see it + the real array
fn encode_real(t: &T, ls: &[L], rng: &mut Rng) -> (P, ArrayRef) {
    let n = ls.len();
    // pad + slice where the description supports it
    if matches!(t, T::Prim | T::Bytes | T::View | T::Dict(_) | T::List(_)) && rng.chance(1, 2) {
        let front = rng.below(3) as usize;
        let back = rng.below(3) as usize;
        let mut all: Vec<L> = vec![];
        for _ in 0..front {
            all.push(if rng.chance(1, 3) { L::Null } else { garbage(t, rng) });
        }
        all.extend_from_slice(ls);
        for _ in 0..back {
            all.push(if rng.chance(1, 3) { L::Null } else { garbage(t, rng) });
        }
        let padded = encode(t, &all, rng);
        let arr = build(&padded, t).slice(front, n);
        let desc = slice_desc(&padded, front, n).unwrap();
        return (desc, arr);
    }
    let p = encode(t, ls, rng);
    let arr = build(&p, t);
    (p, arr)
}

pub fn run(run: &mut Run, args: &Args) {
    hutil::quiet_panics();
    let mut rng = Rng::new(args.seed);
    let fast = RandomState::default();
    let quality = QualityRandomState::default();
    let tstate = TState;
    // ---- fixed minimal probe for the hidden-NULL nesting (notes/C12.md): a two-column key whose
    // second column is REE<Int32, Dictionary<Int32, Int64>> holding one logical NULL, encoded as
    // (A) a valid dictionary key pointing at a NULL dictionary value, (B) a NULL dictionary key.
    {
        let t = T::Ree(Box::new(T::Dict(Box::new(T::Prim))));
        let pa = P::Ree { run_ends: vec![1], values: Box::new(P::Dict { keys: vec![0], kvalid: None, values: Box::new(P::Prim { vals: vec![0], valid: Some(vec![false]) }) }), off: 0, len: 1 };
        let pb = P::Ree { run_ends: vec![1], values: Box::new(P::Dict { keys: vec![0], kvalid: Some(vec![false]), values: Box::new(P::Prim { vals: vec![0], valid: None }) }), off: 0, len: 1 };
        let c0: ArrayRef = Arc::new(Int64Array::from(vec![1i64]));
        let ha = hashes(&[c0.clone(), build(&pa, &t)], &fast, 1);
        let hb = hashes(&[c0.clone(), build(&pb, &t)], &fast, 1);
        run.count(if ha == hb { "fixed_probe_hidden_null_equal" } else { "fixed_probe_hidden_null_differs" });
        run.oracle(
            ha == hb,
            &format!("create_hashes(RandomState) differs across encodings [nested-dict/ree-values] fixed probe: key (Int64 [1], REE<Dictionary<Int64>> [NULL]) A={} B={}", sexp(&pa), sexp(&pb)),
            &format!("A hashes {ha:?}, B hashes {hb:?}"),
        );
        run.case("hash", &format!("(1 (prim (1) none) {})", sexp(&pa)), &show_hashes(&hashes(&[c0.clone(), build(&pa, &t)], &tstate, 1)), true);
        run.case("hash", &format!("(1 (prim (1) none) {})", sexp(&pb)), &show_hashes(&hashes(&[c0, build(&pb, &t)], &tstate, 1)), true);
    }
    let n_cases = run.budget(700, 25_000);
    for case in 0..n_cases {
        let ncols = 1 + rng.below(4) as usize;
        let n = *rng.pick(&[0usize, 1, 2, 3, 5, 8]);
        let nenc = 2 + rng.below(5) as usize;
        // per column: type, logical column, encodings
        let mut types = vec![];
        let mut encs: Vec<Vec<(P, ArrayRef)>> = vec![];
        let mut hidden = false;
        for _ in 0..ncols {
            let t = gen_type(&mut rng, 2);
            hidden |= hidden_null_nesting(&t);
            let ls = gen_logical(&t, n, &mut rng, true);
            let mut es = vec![];
            for _ in 0..nenc {
                let r = hutil::catch(std::panic::AssertUnwindSafe(|| encode_real(&t, &ls, &mut rng.fork())));
                match r {
                    Ok(e) => es.push(e),
                    Err(m) => {
                        run.note(&format!("generator failed to build an array of type {t:?}: {m}"));
                    }
                }
            }
            run.count(&format!("type_{}", format!("{t:?}").split(['(', ' ']).next().unwrap_or("?")));
            types.push(t);
            encs.push(es);
        }
        if encs.iter().any(|e| e.len() < 2) {
            run.count("skipped_generator_failure");
            continue;
        }
        let nenc = encs.iter().map(|e| e.len()).min().unwrap();
        run.count(&format!("ncols_{ncols}"));
        run.count(&format!("rows_{n}"));
        if hidden {
            run.count("nested_dict_or_ree_values");
        }

        // ---- per encoding: model correspondences on each single column description
        for (ci, es) in encs.iter().enumerate() {
            for (p, a) in es.iter().take(nenc) {
                let sx = sexp(p);
                run.case("logical", &sx, &show_logical(a.as_ref()).join("|"), n > 0);
                run.case("path", &sx, &path_of(a.as_ref()), n > 0);
                let _ = ci;
            }
        }
        // ---- hashes of the k-column key under each encoding choice e (column j uses encoding e)
        let mut per_enc: Vec<[String; 5]> = vec![];
        for e in 0..nenc {
            let cols: Vec<ArrayRef> = encs.iter().map(|es| es[e].1.clone()).collect();
            let descs: Vec<String> = encs.iter().map(|es| sexp(&es[e].0)).collect();
            let ht = hutil::catch(std::panic::AssertUnwindSafe(|| hashes(&cols, &tstate, n))).unwrap_or_else(|m| Err(format!("panic:{m}")));
            let hf = hutil::catch(std::panic::AssertUnwindSafe(|| hashes(&cols, &fast, n))).unwrap_or_else(|m| Err(format!("panic:{m}")));
            let hq = hutil::catch(std::panic::AssertUnwindSafe(|| hashes(&cols, &quality, n))).unwrap_or_else(|m| Err(format!("panic:{m}")));
            let hw = hutil::catch(std::panic::AssertUnwindSafe(|| {
                if n == 0 && cols.is_empty() {
                    return Ok(vec![]);
                }
                with_hashes(&cols, &fast, |h| Ok(h.to_vec())).map_err(|e| e.to_string())
            }))
            .unwrap_or_else(|m| Err(format!("panic:{m}")));
            let hb = hutil::catch(std::panic::AssertUnwindSafe(|| {
                let mut buf = vec![0u64; n];
                create_hashes_with_hasher(&cols, &tstate, &mut buf).map_err(|e| e.to_string())?;
                Ok(buf)
            }))
            .unwrap_or_else(|m| Err(format!("panic:{m}")));
            // correspondence: hash values under the transparent state = the model's
            run.case("hash", &format!("({n} {})", descs.join(" ")), &show_hashes(&ht), n > 0 && nenc >= 2);
            // buffered entry point = direct entry point
            run.oracle(
                show_hashes(&hw) == show_hashes(&hf),
                &format!("with_hashes != create_hashes for ({n} {})", descs.join(" ")),
                &format!("with_hashes `{}` create_hashes `{}`", show_hashes(&hw), show_hashes(&hf)),
            );
            per_enc.push([show_hashes(&ht), show_hashes(&hf), show_hashes(&hq), show_hashes(&hw), show_hashes(&hb)]);
        }
        // ---- implementation-level oracle: all encodings of the same logical key hash equally
        let names = ["create_hashes(transparent)", "create_hashes(RandomState)", "create_hashes(QualityRandomState)", "with_hashes(RandomState)", "create_hashes_with_hasher(transparent)"];
        for e in 1..nenc {
            for (k, name) in names.iter().enumerate() {
                let ok = per_enc[e][k] == per_enc[0][k];
                let d0: Vec<String> = encs.iter().map(|es| sexp(&es[0].0)).collect();
                let de: Vec<String> = encs.iter().map(|es| sexp(&es[e].0)).collect();
                let kind = if hidden { "nested-dict/ree-values" } else { "plain" };
                run.oracle(
                    ok,
                    &format!("{name} differs across encodings [{kind}] types={types:?} A=({n} {}) B=({n} {})", d0.join(" "), de.join(" ")),
                    &format!("case {case}: encoding 0 hashes `{}`, encoding {e} hashes `{}`", per_enc[0][k], per_enc[e][k]),
                );
            }
        }
    }
}
