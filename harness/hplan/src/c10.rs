//! C10 — repartitioning delivers every row exactly once, to the right partition.
//!
//! Correspondence with the Lean model `Mech.Repart` (equality):
//!   * `range`  : `range_partition_id` (hook H1) on nullable-i64 tuple keys, every sort-option
//!                combination, valid and invalid split points; plus `validate_range_split_points`;
//!   * `rsplit` : the `Range` arm of `BatchPartitioner::partition_iter` (routing + grouped take);
//!   * `hsplit` : the `Hash` arm, hashes recomputed through public `create_hashes`;
//!   * `rr`     : the round-robin arm for (n outputs, m inputs, input i, k batches).
//! Implementation-level oracles (no model): id = #{split points <= key} via the implementation's own
//! `compare_rows`; `RangeExpr::evaluate` agrees with the partitioner; per batch every row id comes
//! out exactly once in the partition of its route; and END-TO-END `RepartitionExec::execute` over
//! multi-partition inputs whose rows carry unique ids: hash / range / round-robin x 1..8 outputs x
//! preserve_order x batch sizes x memory budgets forcing spill x outputs dropped early, on a
//! multi-threaded runtime: every row exactly once, in the output of its route, fully read outputs
//! complete even when others were dropped, order preserved when requested, no hang.
//! The order / marker-protocol part of the end-to-end oracle (zero-row and sliced batches, pools
//! that alternate between fitting and not fitting, per-(input, output) FIFO) is in `rt10.rs`.
use std::collections::{BTreeMap, BTreeSet};
use std::sync::Arc;

use arrow::array::{Array, ArrayRef, Int64Array, RecordBatch, StringArray, UInt64Array};
use arrow::compute::SortOptions;
use arrow::datatypes::{DataType, Field, Schema, SchemaRef};
use datafusion_common::hash_utils::create_hashes;
use datafusion_common::utils::compare_rows;
use datafusion_common::{ScalarValue, SplitPoint, validate_range_split_points};
use datafusion_datasource::memory::MemorySourceConfig;
use datafusion_datasource::source::DataSourceExec;
use datafusion_execution::TaskContext;
use datafusion_execution::config::SessionConfig;
use datafusion_execution::runtime_env::RuntimeEnvBuilder;
use datafusion_physical_expr::expressions::{Column, col};
use datafusion_physical_expr::{LexOrdering, Partitioning, PhysicalExpr, PhysicalSortExpr, RangePartitioning};
use datafusion_physical_plan::ExecutionPlan;
use datafusion_physical_plan::metrics;
use datafusion_physical_plan::repartition::{
    BatchPartitioner, REPARTITION_RANDOM_STATE, RangeExpr, RepartitionExec, verif,
};
use futures::StreamExt;
use hutil::{Args, Rng, Run};

pub(crate) type Key = Vec<Option<i64>>;

fn cell(c: &Option<i64>) -> String {
    match c {
        None => "n".into(),
        Some(v) => v.to_string(),
    }
}
pub(crate) fn tuple(t: &Key) -> String {
    format!("({})", t.iter().map(cell).collect::<Vec<_>>().join(" "))
}
fn tuples(ts: &[Key]) -> String {
    format!("({})", ts.iter().map(tuple).collect::<Vec<_>>().join(" "))
}
fn opts_s(os: &[SortOptions]) -> String {
    format!("({})", os.iter().map(|o| format!("({} {})", o.descending as u8, o.nulls_first as u8)).collect::<Vec<_>>().join(" "))
}
pub(crate) fn scalars(t: &Key) -> Vec<ScalarValue> {
    t.iter().map(|c| ScalarValue::Int64(*c)).collect()
}
fn show_parts(parts: &[(usize, Vec<u64>)]) -> String {
    parts.iter().map(|(p, ids)| format!("{p}:{}", ids.iter().map(|i| i.to_string()).collect::<Vec<_>>().join(","))).collect::<Vec<_>>().join(" ")
}

fn gen_cell(rng: &mut Rng) -> Option<i64> {
    match rng.below(20) {
        0..=2 => None,
        3 => Some(i64::MIN),
        4 => Some(i64::MAX),
        5 => Some(-1),
        _ => Some(rng.range(0, 6)),
    }
}
pub(crate) fn gen_key(rng: &mut Rng, w: usize) -> Key {
    (0..w).map(|_| gen_cell(rng)).collect()
}
fn gen_opts(rng: &mut Rng, w: usize) -> Vec<SortOptions> {
    (0..w).map(|_| SortOptions { descending: rng.chance(1, 2), nulls_first: rng.chance(1, 2) }).collect()
}
/// split points: random tuples, sorted + deduplicated with the implementation's own comparison
/// (valid), or left as generated (usually invalid)
fn gen_splits(rng: &mut Rng, w: usize, opts: &[SortOptions]) -> (Vec<Key>, bool) {
    let k = *rng.pick(&[0usize, 1, 1, 2, 3, 4, 5, 7, 8, 12]);
    let mut s: Vec<Key> = (0..k).map(|_| gen_key(rng, w)).collect();
    let sorted = rng.chance(4, 5);
    if sorted {
        s.sort_by(|a, b| compare_rows(&scalars(a), &scalars(b), opts).unwrap());
        s.dedup_by(|a, b| compare_rows(&scalars(a), &scalars(b), opts).unwrap() == std::cmp::Ordering::Equal);
    }
    (s, sorted)
}

fn range_ids(run: &mut Run, rng: &mut Rng) {
    let n = run.budget(1500, 60_000);
    for i in 0..n {
        let w = 1 + rng.below(3) as usize;
        let opts = gen_opts(rng, w);
        let (splits, _) = gen_splits(rng, w, &opts);
        let sps: Vec<SplitPoint> = splits.iter().map(|s| SplitPoint::new(scalars(s))).collect();
        let valid = validate_range_split_points(&sps, &opts).is_ok();
        // keys: random + every split point itself (boundary rule) + neighbours
        let mut keys: Vec<Key> = (0..6).map(|_| gen_key(rng, w)).collect();
        for s in &splits {
            keys.push(s.clone());
            let mut t = s.clone();
            if let Some(Some(v)) = t.last_mut().map(|c| c.as_mut()) {
                *v = v.saturating_add(1);
            }
            keys.push(t);
        }
        let mut ans = vec![];
        let mut ok = true;
        let mut detail = String::new();
        for k in &keys {
            let id = verif::range_partition_id(&scalars(k), &sps, &opts).unwrap();
            ans.push(id.to_string());
            if valid {
                let want = splits.iter().filter(|s| compare_rows(&scalars(k), &scalars(s), &opts).unwrap() != std::cmp::Ordering::Less).count();
                if id != want && ok {
                    ok = false;
                    detail = format!("range_partition_id(key={}, splits={}, opts={}) = {id}, but {want} split points are <= key", tuple(k), tuples(&splits), opts_s(&opts));
                }
            }
            if id > splits.len() && ok {
                ok = false;
                detail = format!("range_partition_id(key={}, splits={}) = {id} exceeds the partition count", tuple(k), tuples(&splits));
            }
        }
        ans.push(format!("v:{}", valid as u8));
        run.count(if valid { "range_valid_splits" } else { "range_invalid_splits" });
        run.count(&format!("range_width{w}"));
        run.case("range", &format!("({} {} {})", opts_s(&opts), tuples(&splits), tuples(&keys)), &ans.join(" "), !splits.is_empty());
        run.oracle(ok, &format!("range-id #{i} opts={} splits={}", opts_s(&opts), tuples(&splits)), &detail);
    }
}

fn key_batch(keys: &[Key], w: usize, id0: u64) -> (SchemaRef, RecordBatch) {
    let mut fields: Vec<Field> = (0..w).map(|c| Field::new(format!("k{c}"), DataType::Int64, true)).collect();
    fields.push(Field::new("id", DataType::UInt64, false));
    let schema = Arc::new(Schema::new(fields));
    let mut cols: Vec<ArrayRef> = (0..w).map(|c| Arc::new(Int64Array::from(keys.iter().map(|k| k[c]).collect::<Vec<_>>())) as ArrayRef).collect();
    cols.push(Arc::new(UInt64Array::from((0..keys.len() as u64).map(|i| id0 + i).collect::<Vec<_>>())));
    let b = RecordBatch::try_new(schema.clone(), cols).unwrap();
    (schema, b)
}
pub(crate) fn ids_of(b: &RecordBatch) -> Vec<u64> {
    let c = b.column(b.num_columns() - 1).as_any().downcast_ref::<UInt64Array>().unwrap();
    c.values().to_vec()
}
pub(crate) fn range_partitioning(schema: &SchemaRef, w: usize, opts: &[SortOptions], splits: &[Key]) -> Option<RangePartitioning> {
    let ordering = LexOrdering::new((0..w).map(|c| PhysicalSortExpr::new(col(&format!("k{c}"), schema).unwrap(), opts[c])))?;
    RangePartitioning::try_new(ordering, splits.iter().map(|s| SplitPoint::new(scalars(s))).collect()).ok()
}

/// the Range arm of `partition_iter` + `RangeExpr::evaluate`
fn range_split(run: &mut Run, rng: &mut Rng) {
    let n = run.budget(600, 20_000);
    for i in 0..n {
        let w = 1 + rng.below(3) as usize;
        let opts = gen_opts(rng, w);
        let (splits, _) = gen_splits(rng, w, &opts);
        let rows = *rng.pick(&[0usize, 1, 2, 5, 9, 17, 40]);
        let mut keys: Vec<Key> = (0..rows).map(|_| gen_key(rng, w)).collect();
        for (j, k) in keys.iter_mut().enumerate() {
            if !splits.is_empty() && j % 3 == 0 {
                *k = rng.pick(&splits).clone();
            }
        }
        let (schema, batch) = key_batch(&keys, w, 0);
        let Some(rp) = range_partitioning(&schema, w, &opts, &splits) else {
            run.count("rsplit_invalid_splits_rejected");
            continue;
        };
        let nparts = rp.partition_count();
        let mut p = BatchPartitioner::new_range_partitioner(&rp, metrics::Time::new());
        let mut parts: Vec<(usize, Vec<u64>)> = vec![];
        p.partition(batch.clone(), |part, b| {
            parts.push((part, ids_of(&b)));
            Ok(())
        })
        .unwrap();
        run.case("rsplit", &format!("({} {} {})", opts_s(&opts), tuples(&splits), tuples(&keys)), &show_parts(&parts), rows > 1 && splits.len() > 1);
        // oracle: exactly once, in the partition the routing function names; RangeExpr agrees
        let sps: Vec<SplitPoint> = splits.iter().map(|s| SplitPoint::new(scalars(s))).collect();
        let want: Vec<usize> = keys.iter().map(|k| verif::range_partition_id(&scalars(k), &sps, &opts).unwrap()).collect();
        let mut seen = vec![0u32; rows];
        let mut ok = true;
        let mut detail = String::new();
        for (part, ids) in &parts {
            for id in ids {
                seen[*id as usize] += 1;
                if want[*id as usize] != *part || *part >= nparts {
                    ok = false;
                    detail = format!("row {id} key {} delivered to partition {part}, routing function says {}", tuple(&keys[*id as usize]), want[*id as usize]);
                }
            }
        }
        if seen.iter().any(|c| *c != 1) {
            ok = false;
            detail = format!("rows not delivered exactly once: counts {seen:?}");
        }
        let on: Vec<Arc<dyn PhysicalExpr>> = (0..w).map(|c| Arc::new(Column::new(&format!("k{c}"), c)) as Arc<dyn PhysicalExpr>).collect();
        let re = RangeExpr::try_new(on, &rp).unwrap();
        let got = re.evaluate(&batch).unwrap().into_array(rows).unwrap();
        let got: Vec<usize> = got.as_any().downcast_ref::<UInt64Array>().unwrap().values().iter().map(|v| *v as usize).collect();
        if got != want {
            ok = false;
            detail = format!("RangeExpr::evaluate = {got:?} but partitioner routes = {want:?}");
        }
        run.oracle(ok, &format!("range-split #{i} opts={} splits={} keys={}", opts_s(&opts), tuples(&splits), tuples(&keys)), &detail);
    }
}

fn hash_cols(rng: &mut Rng, rows: usize, kind: u64) -> (Vec<Field>, Vec<ArrayRef>) {
    let ints: Vec<Option<i64>> = (0..rows).map(|_| if rng.chance(1, 6) { None } else { Some(rng.range(-2, 9)) }).collect();
    let strs: Vec<Option<String>> = (0..rows).map(|_| if rng.chance(1, 6) { None } else { Some(format!("s{}", rng.below(5))) }).collect();
    match kind {
        0 => (vec![Field::new("k0", DataType::Int64, true)], vec![Arc::new(Int64Array::from(ints))]),
        1 => (vec![Field::new("k0", DataType::Utf8, true)], vec![Arc::new(StringArray::from(strs))]),
        _ => (
            vec![Field::new("k0", DataType::Int64, true), Field::new("k1", DataType::Utf8, true)],
            vec![Arc::new(Int64Array::from(ints)), Arc::new(StringArray::from(strs))],
        ),
    }
}

fn hash_split(run: &mut Run, rng: &mut Rng) {
    let n = run.budget(600, 20_000);
    for i in 0..n {
        let big = rng.chance(1, 5);
        let nparts = 1 + rng.below(if big { 200 } else { 9 }) as usize;
        let rows = *rng.pick(&[1usize, 2, 5, 17, 64]);
        let kind = rng.below(3);
        let (mut fields, mut cols) = hash_cols(rng, rows, kind);
        let nk = cols.len();
        fields.push(Field::new("id", DataType::UInt64, false));
        cols.push(Arc::new(UInt64Array::from((0..rows as u64).collect::<Vec<_>>())));
        let schema = Arc::new(Schema::new(fields));
        let batch = RecordBatch::try_new(schema.clone(), cols.clone()).unwrap();
        let mut hashes = vec![0u64; rows];
        create_hashes(&cols[..nk], REPARTITION_RANDOM_STATE.random_state(), &mut hashes).unwrap();
        let exprs: Vec<Arc<dyn PhysicalExpr>> = (0..nk).map(|c| col(&format!("k{c}"), &schema).unwrap()).collect();
        let mut p = BatchPartitioner::new_hash_partitioner(exprs, nparts, metrics::Time::new()).unwrap();
        let mut parts: Vec<(usize, Vec<u64>)> = vec![];
        p.partition(batch, |part, b| {
            parts.push((part, ids_of(&b)));
            Ok(())
        })
        .unwrap();
        run.case("hsplit", &format!("({nparts} ({}))", hashes.iter().map(|h| h.to_string()).collect::<Vec<_>>().join(" ")), &show_parts(&parts), nparts > 1 && rows > 1);
        let mut seen = vec![0u32; rows];
        let mut ok = true;
        let mut detail = String::new();
        for (part, ids) in &parts {
            for id in ids {
                seen[*id as usize] += 1;
                if (hashes[*id as usize] % nparts as u64) as usize != *part {
                    ok = false;
                    detail = format!("row {id} hash {} delivered to partition {part} of {nparts}", hashes[*id as usize]);
                }
            }
        }
        if seen.iter().any(|c| *c != 1) {
            ok = false;
            detail = format!("rows not delivered exactly once: counts {seen:?}");
        }
        run.count(&format!("hash_kind{kind}"));
        run.oracle(ok, &format!("hash-split #{i} n={nparts} hashes={hashes:?}"), &detail);
    }
}

fn round_robin(run: &mut Run, rng: &mut Rng) {
    let n = run.budget(400, 10_000);
    let schema = Arc::new(Schema::new(vec![Field::new("id", DataType::UInt64, false)]));
    for it in 0..n {
        let np = 1 + rng.below(9) as usize;
        let m = 1 + rng.below(9) as usize;
        let i = rng.below(m as u64) as usize;
        let k = rng.below(2 * np as u64 + 3) as usize;
        let mut p = BatchPartitioner::new_round_robin_partitioner(np, metrics::Time::new(), i, m);
        let mut seq = vec![];
        let mut ok = true;
        for b in 0..k {
            let batch = RecordBatch::try_new(schema.clone(), vec![Arc::new(UInt64Array::from(vec![b as u64, 1000 + b as u64]))]).unwrap();
            let mut outs = vec![];
            p.partition(batch, |part, bb| {
                outs.push((part, ids_of(&bb)));
                Ok(())
            })
            .unwrap();
            // one output per batch, the whole batch
            if outs.len() != 1 || outs[0].1 != vec![b as u64, 1000 + b as u64] || outs[0].0 >= np {
                ok = false;
            }
            seq.push(outs.first().map(|o| o.0).unwrap_or(usize::MAX));
        }
        // successive batches go to successive outputs
        for w in seq.windows(2) {
            if w[1] != (w[0] + 1) % np {
                ok = false;
            }
        }
        run.case("rr", &format!("({np} {m} {i} {k})"), &seq.iter().map(|s| s.to_string()).collect::<Vec<_>>().join(" "), k > 1 && np > 1);
        run.oracle(ok, &format!("round-robin #{it} n={np} m={m} i={i} k={k}"), &format!("sequence {seq:?}"));
    }
}

#[derive(Clone, Copy, Debug, PartialEq)]
enum Scheme {
    Hash,
    Range,
    RoundRobin,
}

/// end to end through `RepartitionExec::execute`
fn end_to_end(run: &mut Run, rng: &mut Rng, known_class_hangs: &mut u32) {
    let n = run.budget(160, 6_000);
    let new_rt = || tokio::runtime::Builder::new_multi_thread().worker_threads(3).enable_all().build().unwrap();
    let mut rt = Some(new_rt());
    // once the known deadlock (notes/C10.md) has been recorded 3 times, configurations of that
    // class are no longer run (each hang costs a full deadline)
    for it in 0..n {
        let scheme = *rng.pick(&[Scheme::Hash, Scheme::Hash, Scheme::Range, Scheme::Range, Scheme::RoundRobin]);
        let m = 1 + rng.below(4) as usize;
        let nout_req = 1 + rng.below(8) as usize;
        let preserve = scheme != Scheme::RoundRobin && m > 1 && rng.chance(1, 3);
        let w = 1 + rng.below(2) as usize;
        let opts = if preserve { (0..w).map(|_| SortOptions { descending: false, nulls_first: false }).collect() } else { gen_opts(rng, w) };
        // inputs: m partitions x 0..5 batches x 0..40 rows, unique ids
        let mut next_id = 0u64;
        let mut all_keys: Vec<Key> = vec![];
        let mut parts: Vec<Vec<RecordBatch>> = vec![];
        let mut schema_o: Option<SchemaRef> = None;
        for _ in 0..m {
            let nb = rng.below(6) as usize;
            let mut keys_p: Vec<Key> = vec![];
            let mut sizes = vec![];
            for _ in 0..nb {
                let rows = *rng.pick(&[0usize, 1, 3, 8, 21, 40]);
                sizes.push(rows);
                for _ in 0..rows {
                    keys_p.push(gen_key(rng, w));
                }
            }
            if preserve {
                keys_p.sort_by(|a, b| compare_rows(&scalars(a), &scalars(b), &opts).unwrap());
            }
            let mut off = 0;
            let mut bs = vec![];
            for rows in sizes {
                let (schema, b) = key_batch(&keys_p[off..off + rows], w, next_id);
                schema_o = Some(schema);
                next_id += rows as u64;
                off += rows;
                bs.push(b);
            }
            all_keys.extend(keys_p);
            parts.push(bs);
        }
        let schema = schema_o.unwrap_or_else(|| key_batch(&[], w, 0).0);
        let total = next_id as usize;
        let (splits, nout, partitioning) = match scheme {
            Scheme::Range => {
                let (mut splits, _) = gen_splits(rng, w, &opts);
                splits.sort_by(|a, b| compare_rows(&scalars(a), &scalars(b), &opts).unwrap());
                splits.dedup_by(|a, b| compare_rows(&scalars(a), &scalars(b), &opts).unwrap() == std::cmp::Ordering::Equal);
                splits.truncate(7);
                let rp = range_partitioning(&schema, w, &opts, &splits).unwrap();
                let k = rp.partition_count();
                (splits, k, Partitioning::Range(rp))
            }
            Scheme::Hash => {
                let exprs: Vec<Arc<dyn PhysicalExpr>> = (0..w).map(|c| col(&format!("k{c}"), &schema).unwrap()).collect();
                (vec![], nout_req, Partitioning::Hash(exprs, nout_req))
            }
            Scheme::RoundRobin => (vec![], nout_req, Partitioning::RoundRobinBatch(nout_req)),
        };
        // expected route per id
        let route: Vec<Option<usize>> = match scheme {
            Scheme::Range => {
                let sps: Vec<SplitPoint> = splits.iter().map(|s| SplitPoint::new(scalars(s))).collect();
                all_keys.iter().map(|k| Some(verif::range_partition_id(&scalars(k), &sps, &opts).unwrap())).collect()
            }
            Scheme::Hash => {
                let cols: Vec<ArrayRef> = (0..w).map(|c| Arc::new(Int64Array::from(all_keys.iter().map(|k| k[c]).collect::<Vec<_>>())) as ArrayRef).collect();
                let mut h = vec![0u64; total];
                if total > 0 {
                    create_hashes(&cols, REPARTITION_RANDOM_STATE.random_state(), &mut h).unwrap();
                }
                h.iter().map(|x| Some((x % nout as u64) as usize)).collect()
            }
            Scheme::RoundRobin => vec![None; total],
        };
        let mut src = MemorySourceConfig::try_new(&parts, schema.clone(), None).unwrap();
        if preserve {
            let ordering = LexOrdering::new((0..w).map(|c| PhysicalSortExpr::new(col(&format!("k{c}"), &schema).unwrap(), opts[c]))).unwrap();
            src = src.try_with_sort_information(vec![ordering]).unwrap();
        }
        let input: Arc<dyn ExecutionPlan> = DataSourceExec::from_data_source(src);
        let mut exec = RepartitionExec::try_new(input, partitioning).unwrap();
        if preserve {
            exec = exec.with_preserve_order();
        }
        let exec = Arc::new(exec);
        let mem = *rng.pick(&[1usize, 600, 4096, 1 << 30, 1 << 30]);
        let batch_size = *rng.pick(&[1usize, 4, 16, 8192]);
        let runtime = RuntimeEnvBuilder::default().with_memory_limit(mem, 1.0).build_arc().unwrap();
        let ctx = Arc::new(TaskContext::default().with_runtime(runtime).with_session_config(SessionConfig::new().with_batch_size(batch_size)));
        // which outputs are dropped early, and after how many batches
        let drop_after: Vec<Option<usize>> = (0..nout).map(|_| if rng.chance(1, 4) { Some(rng.below(3) as usize) } else { None }).collect();
        let any_drop = drop_after.iter().any(|d| d.is_some());
        if *known_class_hangs >= 3 && !preserve && m >= 2 && mem < (1 << 20) {
            run.count("e2e_skipped_deadlock_prone_after_3_hangs");
            continue;
        }
        let exec2 = exec.clone();
        let da = drop_after.clone();
        let aborts: Arc<std::sync::Mutex<Vec<tokio::task::AbortHandle>>> = Default::default();
        let aborts2 = aborts.clone();
        let res: Result<Vec<Result<Vec<Vec<u64>>, String>>, _> = rt.as_ref().unwrap().block_on(async move {
            tokio::time::timeout(std::time::Duration::from_secs(20), async move {
                let mut handles = vec![];
                for p in 0..nout {
                    let exec = exec2.clone();
                    let ctx = ctx.clone();
                    let lim = da[p];
                    handles.push(tokio::spawn(async move {
                        let mut st = exec.execute(p, ctx).map_err(|e| e.to_string())?;
                        let mut got: Vec<Vec<u64>> = vec![];
                        if lim == Some(0) {
                            return Ok(got);
                        }
                        while let Some(b) = st.next().await {
                            let b = b.map_err(|e| e.to_string())?;
                            got.push(ids_of(&b));
                            if Some(got.len()) == lim {
                                break;
                            }
                            if got.len() % 3 == 0 {
                                tokio::task::yield_now().await;
                            }
                        }
                        Ok::<_, String>(got)
                    }));
                }
                aborts2.lock().unwrap().extend(handles.iter().map(|h: &tokio::task::JoinHandle<_>| h.abort_handle()));
                let mut out = vec![];
                for h in handles {
                    out.push(h.await.unwrap_or_else(|e| Err(format!("join error {e}"))));
                }
                out
            })
            .await
        });
        let sig = format!(
            "e2e #{it} scheme={scheme:?} m={m} n={nout} preserve={preserve} mem={mem} batch_size={batch_size} opts={} splits={} drop_after={drop_after:?} rows={total}",
            opts_s(&opts),
            tuples(&splits)
        );
        run.count(&format!("e2e_{scheme:?}"));
        if preserve {
            run.count("e2e_preserve_order");
        }
        if mem < 1 << 20 {
            run.count("e2e_small_memory");
        }
        if any_drop {
            run.count("e2e_early_drop");
        }
        let spilled = exec.metrics().and_then(|m| m.spill_count()).unwrap_or(0);
        if spilled > 0 {
            run.count("e2e_spilled");
        }
        let outs = match res {
            Err(_) => {
                // the one class with a known mechanism gets a stable prefix (see notes/C10.md)
                let known = !preserve && m >= 2 && spilled >= 1;
                let class = if known { "hang exchange non-preserve-order multi-input spilled:" } else { "hang" };
                if known {
                    *known_class_hangs += 1;
                }
                run.oracle(false, &format!("{class} {sig}"), &format!("RepartitionExec outputs did not finish within 20 s (spill_count={spilled})"));
                // stop the stuck consumers and replace the runtime so nothing leaks into later cases
                for a in aborts.lock().unwrap().drain(..) {
                    a.abort();
                }
                if let Some(old) = rt.take() {
                    old.shutdown_timeout(std::time::Duration::from_secs(2));
                }
                rt = Some(new_rt());
                continue;
            }
            Ok(o) => o,
        };
        let mut ok = true;
        let mut detail = String::new();
        let mut seen: BTreeMap<u64, usize> = BTreeMap::new();
        let mut resource_err = false;
        for (p, r) in outs.iter().enumerate() {
            match r {
                Err(e) => {
                    // a clean resources error under a tiny budget is allowed (C18); anything else is not
                    if e.contains("Resources exhausted") || e.contains("memory") {
                        resource_err = true;
                    } else {
                        ok = false;
                        detail = format!("output {p} failed: {e}");
                    }
                }
                Ok(batches) => {
                    let ids: Vec<u64> = batches.iter().flatten().copied().collect();
                    for id in &ids {
                        if let Some(prev) = seen.insert(*id, p) {
                            ok = false;
                            detail = format!("row id {id} delivered twice (outputs {prev} and {p})");
                        }
                        if let Some(Some(want)) = route.get(*id as usize) {
                            if *want != p {
                                ok = false;
                                detail = format!("row id {id} key {} delivered to output {p}, its route is {want}", tuple(&all_keys[*id as usize]));
                            }
                        }
                    }
                    // fully read outputs are complete (hash / range: exactly the rows routed there)
                    if drop_after[p].is_none() && scheme != Scheme::RoundRobin {
                        let want: BTreeSet<u64> = (0..total as u64).filter(|i| route[*i as usize] == Some(p)).collect();
                        let got: BTreeSet<u64> = ids.iter().copied().collect();
                        if want != got {
                            let missing: Vec<_> = want.difference(&got).take(5).collect();
                            ok = false;
                            detail = format!("output {p} was read to the end but misses rows {missing:?} ({} of {} delivered)", got.len(), want.len());
                        }
                    }
                    if preserve {
                        let ks: Vec<&Key> = ids.iter().map(|i| &all_keys[*i as usize]).collect();
                        for wdw in ks.windows(2) {
                            if compare_rows(&scalars(wdw[0]), &scalars(wdw[1]), &opts).unwrap() == std::cmp::Ordering::Greater {
                                ok = false;
                                detail = format!("output {p} is not sorted: {} before {}", tuple(wdw[0]), tuple(wdw[1]));
                            }
                        }
                    }
                }
            }
        }
        if !any_drop && !resource_err && ok && seen.len() != total {
            ok = false;
            detail = format!("{} of {total} rows delivered although every output was read to the end", seen.len());
        }
        if resource_err {
            run.count("e2e_resources_error");
        }
        run.oracle(ok, &sig, &detail);
    }
}

/// Directed search for the many-to-one spilling deadlock: `m` inputs, one output, round robin,
/// a memory pool that forces (almost) every batch to spill, batch_size 1. Stops at the first hang.
fn exchange_spill_liveness(run: &mut Run, rng: &mut Rng) {
    let rt = tokio::runtime::Builder::new_multi_thread().worker_threads(3).enable_all().build().unwrap();
    let iters = run.budget(80, 600);
    let mut hang: Option<String> = None;
    let mut done = 0;
    for it in 0..iters {
        let m = 4;
        let mut next_id = 0u64;
        let mut parts = vec![];
        let mut schema_o = None;
        for _ in 0..m {
            let mut bsv = vec![];
            for _ in 0..(1 + rng.below(5)) {
                let rows = *rng.pick(&[1usize, 3, 8, 21]);
                let keys: Vec<Key> = (0..rows).map(|_| gen_key(rng, 1)).collect();
                let (schema, b) = key_batch(&keys, 1, next_id);
                next_id += rows as u64;
                schema_o = Some(schema);
                bsv.push(b);
            }
            parts.push(bsv);
        }
        let schema: SchemaRef = schema_o.unwrap();
        let src = MemorySourceConfig::try_new(&parts, schema.clone(), None).unwrap();
        let input: Arc<dyn ExecutionPlan> = DataSourceExec::from_data_source(src);
        let exec = Arc::new(RepartitionExec::try_new(input, Partitioning::RoundRobinBatch(1)).unwrap());
        let runtime = RuntimeEnvBuilder::default().with_memory_limit(600, 1.0).build_arc().unwrap();
        let ctx = Arc::new(TaskContext::default().with_runtime(runtime).with_session_config(SessionConfig::new().with_batch_size(1)));
        let total = next_id;
        let exec2 = exec.clone();
        let r = rt.block_on(async move {
            tokio::time::timeout(std::time::Duration::from_secs(10), async move {
                let mut st = exec2.execute(0, ctx).unwrap();
                let mut ids = vec![];
                while let Some(b) = st.next().await {
                    ids.extend(ids_of(&b.unwrap()));
                }
                ids
            })
            .await
        });
        done += 1;
        match r {
            Ok(mut ids) => {
                ids.sort_unstable();
                let ok = ids == (0..total).collect::<Vec<_>>();
                run.oracle(ok, &format!("exchange many-to-one spilled #{it} rows={total}"), &format!("delivered ids {ids:?}, expected each of 0..{total} once"));
            }
            Err(_) => {
                let spilled = exec.metrics().and_then(|m| m.spill_count()).unwrap_or(0);
                hang = Some(format!("iteration {it}: RepartitionExec(RoundRobinBatch(1)) over {m} input partitions / {total} rows, memory pool 600 B, batch_size 1, 3 worker threads: output 0 did not finish within 10 s (spill_count={spilled}); mechanism: notes/C10.md"));
                break;
            }
        }
    }
    rt.shutdown_timeout(std::time::Duration::from_secs(2));
    run.add("liveness_directed_runs", done);
    run.oracle(
        hang.is_none(),
        "hang exchange non-preserve-order multi-input spilled: directed m=4 n=1 round-robin mem=600 batch_size=1",
        hang.as_deref().unwrap_or(""),
    );
}

/// Pool-level probe of the mechanism: two sinks of one `mpsc_channel` push one batch each at the
/// same time (=> two open files). The reader gets the first batch, and is then `Pending` on the
/// exhausted-but-unfinished first file although the second batch is stored, until writers act.
fn spill_pool_probe(run: &mut Run) {
    use datafusion_physical_plan::SpillManager;
    use datafusion_physical_plan::metrics::{ExecutionPlanMetricsSet, SpillMetrics};
    use datafusion_physical_plan::spill::spill_pool::mpsc_channel;
    let iters = run.budget(30, 300);
    let rt = tokio::runtime::Builder::new_multi_thread().worker_threads(1).enable_all().build().unwrap();
    let _guard = rt.enter(); // the pool reader uses spawn_blocking
    let (schema, _) = key_batch(&[], 1, 0);
    let waker = futures::task::noop_waker();
    let mut cx = std::task::Context::from_waker(&waker);
    let mut withheld = 0;
    let mut lost = 0;
    for _ in 0..iters {
        let env = Arc::new(RuntimeEnvBuilder::new().build().unwrap());
        let sm = Arc::new(SpillManager::new(env, SpillMetrics::new(&ExecutionPlanMetricsSet::new(), 0), schema.clone()));
        let (w, mut rd) = mpsc_channel(1 << 20, sm);
        let s1 = w.new_sink();
        let s2 = w.new_sink();
        let bar = Arc::new(std::sync::Barrier::new(2));
        let (b1, b2) = (key_batch(&[vec![Some(1)]], 1, 0).1, key_batch(&[vec![Some(2)]], 1, 1).1);
        let (bar1, bar2) = (bar.clone(), bar.clone());
        let t1 = std::thread::spawn(move || {
            bar1.wait();
            s1.push_batch(&b1).unwrap();
            s1
        });
        let t2 = std::thread::spawn(move || {
            bar2.wait();
            s2.push_batch(&b2).unwrap();
            s2
        });
        let s1 = t1.join().unwrap();
        let s2 = t2.join().unwrap();
        let mut got = 0;
        // both pushes have returned: two batches are stored
        let mut polls = 0;
        while got < 2 && polls < 1000 {
            polls += 1;
            match rd.poll_next_unpin(&mut cx) {
                std::task::Poll::Ready(Some(Ok(_))) => got += 1,
                std::task::Poll::Ready(_) => break,
                std::task::Poll::Pending => {
                    if got == 1 {
                        break;
                    }
                    std::thread::yield_now(); // blocking-pool read in flight
                    std::thread::sleep(std::time::Duration::from_millis(1));
                }
            }
        }
        if got == 1 {
            withheld += 1;
        }
        drop(s1);
        drop(s2);
        drop(w);
        for _ in 0..15000 {
            if got == 2 {
                break;
            }
            match rd.poll_next_unpin(&mut cx) {
                std::task::Poll::Ready(Some(Ok(_))) => got += 1,
                std::task::Poll::Ready(_) => break,
                std::task::Poll::Pending => std::thread::sleep(std::time::Duration::from_millis(1)),
            }
        }
        if got != 2 {
            lost += 1;
        }
    }
    run.add("pool_probe_runs", iters);
    run.add("pool_probe_second_batch_withheld_while_writers_idle", withheld);
    run.oracle(lost == 0, "spill pool probe: both pushed batches delivered after all writers dropped", &format!("{lost} of {iters} probes lost a batch"));
}

/// diagnostic (tier `stress`): repeat one small-memory many-to-one exchange and count hangs
fn stress(run: &mut Run, rng: &mut Rng) {
    let rt = tokio::runtime::Builder::new_multi_thread().worker_threads(3).enable_all().build().unwrap();
    let iters: usize = std::env::var("VERIF_C10_STRESS_ITERS").ok().and_then(|s| s.parse().ok()).unwrap_or(300);
    let mem: usize = std::env::var("VERIF_C10_STRESS_MEM").ok().and_then(|s| s.parse().ok()).unwrap_or(600);
    let bs: usize = std::env::var("VERIF_C10_STRESS_BS").ok().and_then(|s| s.parse().ok()).unwrap_or(1);
    let m: usize = std::env::var("VERIF_C10_STRESS_M").ok().and_then(|s| s.parse().ok()).unwrap_or(4);
    let mut hangs = 0;
    for it in 0..iters {
        let mut next_id = 0u64;
        let mut parts = vec![];
        let mut schema_o = None;
        for _ in 0..m {
            let mut bsv = vec![];
            for _ in 0..(1 + rng.below(5)) {
                let rows = *rng.pick(&[1usize, 3, 8, 21]);
                let keys: Vec<Key> = (0..rows).map(|_| gen_key(rng, 1)).collect();
                let (schema, b) = key_batch(&keys, 1, next_id);
                next_id += rows as u64;
                schema_o = Some(schema);
                bsv.push(b);
            }
            parts.push(bsv);
        }
        let schema: SchemaRef = schema_o.unwrap();
        let src = MemorySourceConfig::try_new(&parts, schema.clone(), None).unwrap();
        let input: Arc<dyn ExecutionPlan> = DataSourceExec::from_data_source(src);
        let exec = Arc::new(RepartitionExec::try_new(input, Partitioning::RoundRobinBatch(1)).unwrap());
        let runtime = RuntimeEnvBuilder::default().with_memory_limit(mem, 1.0).build_arc().unwrap();
        let ctx = Arc::new(TaskContext::default().with_runtime(runtime).with_session_config(SessionConfig::new().with_batch_size(bs)));
        let total = next_id;
        let exec2 = exec.clone();
        let r = rt.block_on(async move {
            tokio::time::timeout(std::time::Duration::from_secs(10), async move {
                let h = tokio::spawn(async move {
                    let mut st = exec2.execute(0, ctx).unwrap();
                    let mut n = 0u64;
                    while let Some(b) = st.next().await {
                        n += b.unwrap().num_rows() as u64;
                    }
                    n
                });
                h.await.unwrap()
            })
            .await
        });
        match r {
            Ok(n) if n == total => {}
            Ok(n) => eprintln!("iter {it}: delivered {n} of {total}"),
            Err(_) => {
                hangs += 1;
                let spilled = exec.metrics().and_then(|m| m.spill_count()).unwrap_or(0);
                eprintln!("iter {it}: HANG (rows={total}, spill_count={spilled})");
            }
        }
    }
    eprintln!("stress: {hangs} hangs in {iters} iterations (m={m} mem={mem} batch_size={bs})");
    run.note(&format!("stress: {hangs} hangs in {iters} iterations"));
}

pub fn run(run: &mut Run, args: &Args) {
    let mut rng = Rng::new(args.seed);
    if args.tier == "stress" {
        stress(run, &mut rng);
        return;
    }
    range_ids(run, &mut rng);
    range_split(run, &mut rng);
    hash_split(run, &mut rng);
    round_robin(run, &mut rng);
    spill_pool_probe(run);
    let mut known_class_hangs = 0u32;
    end_to_end(run, &mut rng, &mut known_class_hangs);
    crate::rt10::exchange_order(run, &mut rng, &mut known_class_hangs);
    exchange_spill_liveness(run, &mut rng);
}
