//! C11 — hash partition index = hash mod partition count.
//! Tie (K): validates translator T1 + hook H1: the real `partition_indices` loop (through
//! `repartition::verif::partition_index`) vs the generated Lean model, on boundary + random
//! (hash, n) pairs.  Oracle (implementation level): bucket == hash % n.
//! Plus end-to-end: `BatchPartitioner` with hashes recomputed through public `create_hashes`.
use std::sync::Arc;

use arrow::array::{ArrayRef, Int64Array, RecordBatch, UInt64Array};
use arrow::datatypes::{DataType, Field, Schema};
use datafusion_common::hash_utils::create_hashes;
use datafusion_physical_expr::expressions::col;
use datafusion_physical_plan::metrics;
use datafusion_physical_plan::repartition::{BatchPartitioner, REPARTITION_RANDOM_STATE, verif};
use hutil::{Args, Run};

fn one(run: &mut Run, v: u64, d: u64) {
    // keep the remainder addressable by the hook's capped bucket vector
    hutil::quiet_panics();
    let got = hutil::catch(move || verif::partition_index(v, d));
    let _ = std::panic::take_hook();
    let ans = match &got {
        Ok(b) => b.to_string(),
        Err(_) => "panic".to_string(),
    };
    run.case("bucket", &format!("({v} {d})"), &ans, d != 1);
    let expect = (v % d) as usize;
    run.oracle(
        got.as_ref().ok() == Some(&expect),
        &format!("bucket v={v} d={d}"),
        &format!("partition_index(hash={v}, n={d}) = {ans}, expected hash % n = {expect}"),
    );
    if d.is_power_of_two() {
        run.count("pow2");
    } else {
        run.count("reciprocal");
    }
}

/// choose v with v % d < 2^12 (the hook caps its bucket vector) near interesting multiples
fn vs_for(d: u64, rng: &mut hutil::Rng) -> Vec<u64> {
    let mut out = vec![];
    let cap = d.min(1 << 12);
    let kmax = u64::MAX / d;
    for k in [0u64, 1, 2, kmax / 2, kmax.saturating_sub(1), kmax] {
        let Some(base) = k.checked_mul(d) else { continue };
        for r in [0u64, 1, cap - 1] {
            if r < cap {
                if let Some(v) = base.checked_add(r) {
                    out.push(v);
                }
            }
        }
    }
    // u64::MAX and neighbours when their remainder is addressable
    for v in [u64::MAX, u64::MAX - 1, 1u64 << 63, (1u64 << 32) - 1, 1u64 << 32] {
        if v % d < cap {
            out.push(v);
        }
    }
    for _ in 0..4 {
        let v = rng.next();
        let v = (v - (v % d)).saturating_add(rng.below(cap));
        if v % d < cap && v >= v % d {
            out.push(v);
        }
    }
    out
}

pub fn run(run: &mut Run, args: &Args) {
    let mut rng = hutil::Rng::new(args.seed);
    // divisors: small range, powers of two and neighbours, 3*2^k, near 2^64
    let mut ds: Vec<u64> = vec![];
    let small = run.budget(1 << 9, 1 << 13);
    ds.extend(1..=small);
    for k in 0..64u32 {
        let p = 1u64 << k;
        for d in [p, p.wrapping_add(1), p.wrapping_sub(1), p.wrapping_mul(3), p.wrapping_mul(5), p.wrapping_mul(7)] {
            if d != 0 {
                ds.push(d);
            }
        }
    }
    for d in [u64::MAX, u64::MAX - 1, u64::MAX - 2, u64::MAX / 3, u64::MAX / 5] {
        ds.push(d);
    }
    let n_rand = run.budget(2_000, 200_000);
    for _ in 0..n_rand {
        let bits = 1 + rng.below(64);
        let d = rng.next() >> (64 - bits);
        if d != 0 {
            ds.push(d);
        }
    }
    for d in ds {
        for v in vs_for(d, &mut rng) {
            one(run, v, d);
        }
    }

    // end-to-end through the public BatchPartitioner (no hook): ONE partitioner is reused for
    // 1..4 batches (the hash buffer is recycled between batches), 1..3 key expressions (possibly
    // the same column twice) over nullable Int64 / Int32 / Utf8 / Utf8View / Boolean columns;
    // row i of each batch must land in partition create_hashes(keys of row i) % n, where the
    // expected hash is recomputed independently with the public `create_hashes` on a fresh buffer.
    let e2e = run.budget(120, 3_000);
    for case_i in 0..e2e {
        let big = rng.chance(1, 4);
        let n = 1 + rng.below(if big { 300 } else { 17 }) as usize;
        let schema = Arc::new(Schema::new(vec![
            Field::new("k0", DataType::Int64, true),
            Field::new("k1", DataType::Utf8, true),
            Field::new("k2", DataType::Int32, true),
            Field::new("k3", DataType::Utf8View, true),
            Field::new("k4", DataType::Boolean, true),
            Field::new("id", DataType::UInt64, false),
        ]));
        let nkeys = 1 + rng.below(3) as usize;
        let key_cols: Vec<usize> = (0..nkeys).map(|_| rng.below(5) as usize).collect();
        let exprs = key_cols
            .iter()
            .map(|c| col(&format!("k{c}"), &schema).unwrap())
            .collect::<Vec<_>>();
        let mut p = BatchPartitioner::new_hash_partitioner(exprs, n, metrics::Time::new()).unwrap();
        let nbatches = 1 + rng.below(4);
        let mut ok = true;
        let mut detail = String::new();
        for bi in 0..nbatches {
            let rows = *rng.pick(&[1usize, 2, 5, 17, 64]);
            let nullp = *rng.pick(&[0u64, 1, 3]);
            let mut isnull = |rng: &mut hutil::Rng| nullp > 0 && rng.below(6) < nullp;
            let k0: Int64Array = (0..rows).map(|_| if isnull(&mut rng) { None } else { Some(rng.range(-5, 40)) }).collect();
            let k1: Vec<Option<String>> = (0..rows).map(|_| if isnull(&mut rng) { None } else { Some(format!("s{}", rng.below(9))) }).collect();
            let k2: arrow::array::Int32Array = (0..rows).map(|_| if isnull(&mut rng) { None } else { Some(rng.range(-2, 7) as i32) }).collect();
            let k3: Vec<Option<String>> = (0..rows).map(|_| if isnull(&mut rng) { None } else { Some(format!("a-rather-long-view-value-{}", rng.below(5))) }).collect();
            let k4: arrow::array::BooleanArray = (0..rows).map(|_| if isnull(&mut rng) { None } else { Some(rng.chance(1, 2)) }).collect();
            let cols: Vec<ArrayRef> = vec![
                Arc::new(k0),
                Arc::new(arrow::array::StringArray::from(k1)),
                Arc::new(k2),
                Arc::new(arrow::array::StringViewArray::from(k3)),
                Arc::new(k4),
                Arc::new(UInt64Array::from((0..rows as u64).collect::<Vec<_>>())),
            ];
            let batch = RecordBatch::try_new(schema.clone(), cols.clone()).unwrap();
            let keys: Vec<ArrayRef> = key_cols.iter().map(|c| cols[*c].clone()).collect();
            let mut hashes = vec![0u64; rows];
            create_hashes(&keys, REPARTITION_RANDOM_STATE.random_state(), &mut hashes).unwrap();
            let mut seen = vec![usize::MAX; rows];
            let res = p.partition(batch, |part, b| {
                let idc = b.column(5).as_any().downcast_ref::<UInt64Array>().unwrap();
                for i in 0..idc.len() {
                    let id = idc.value(i) as usize;
                    if seen[id] != usize::MAX {
                        ok = false;
                        detail = format!("batch {bi}: row {id} delivered twice");
                    }
                    seen[id] = part;
                }
                Ok(())
            });
            if res.is_err() {
                ok = false;
                detail = format!("partition error {:?}", res.err());
            }
            for i in 0..rows {
                let want = (hashes[i] % n as u64) as usize;
                if seen[i] != want && ok {
                    ok = false;
                    detail = format!(
                        "batch {bi} (of {nbatches}, same partitioner) row {i}: keys k{key_cols:?} hash {} n {n}: delivered to partition {} expected {want}",
                        hashes[i], seen[i]
                    );
                }
                // feed the same (hash, n) to the model as well
                run.case("bucket", &format!("({} {})", hashes[i], n), &seen[i].to_string(), n != 1);
            }
            run.count("e2e_batches");
        }
        run.count(&format!("e2e_keys_{nkeys}"));
        run.oracle(ok, &format!("e2e case#{case_i} n={n} keycols={key_cols:?} batches={nbatches}"), &detail);
    }
}
