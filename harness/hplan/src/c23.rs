//! C23 — interval arithmetic and constraint propagation are sound.
//! Tie (K, refinement): the real `Interval::{add,sub,mul,div,gt,gt_eq,lt,lt_eq,equal,and,or,not,
//! intersect,union,contains}`, `satisfy_greater`, `propagate_comparison`, `propagate_arithmetic`
//! on integer intervals built from boundary endpoint sets (+ random endpoints) for
//! i8..i64/u8..u64.  Each request carries the implementation's answer; the Lean model answers
//! `ok` iff γ(model) ⊆ γ(impl).
//! Oracle (implementation level, no model): for concrete a ∈ I, b ∈ J with `a op b`
//! representable, `a op b` ∈ impl result (value grids; exhaustive for 8-bit in thorough);
//! comparison/boolean truth values; propagation keeps every satisfying assignment.
use datafusion_common::ScalarValue;
use datafusion_expr_common::interval_arithmetic::{Interval, satisfy_greater};
use datafusion_expr_common::operator::Operator;
use datafusion_physical_expr::intervals::cp_solver::{propagate_arithmetic, propagate_comparison};
use hutil::{Args, Rng, Run};

use std::sync::Arc;

use arrow::array::{Array, ArrayRef, BooleanArray, Int64Array, RecordBatch};
use arrow::datatypes::{DataType, Field, Schema};
use datafusion_common::stats::Precision;
use datafusion_physical_expr::PhysicalExpr;
use datafusion_physical_expr::analysis::{AnalysisContext, ExprBoundaries, analyze};
use datafusion_physical_expr::expressions::{BinaryExpr, Column, Literal};

#[derive(Clone, Copy, PartialEq, Eq, Debug)]
enum T {
    I8,
    I16,
    I32,
    I64,
    U8,
    U16,
    U32,
    U64,
}
const ALL_T: [T; 8] = [T::I8, T::U8, T::I16, T::U16, T::I32, T::U32, T::I64, T::U64];

type B = Option<i128>;

impl T {
    fn name(self) -> &'static str {
        match self {
            T::I8 => "i8",
            T::I16 => "i16",
            T::I32 => "i32",
            T::I64 => "i64",
            T::U8 => "u8",
            T::U16 => "u16",
            T::U32 => "u32",
            T::U64 => "u64",
        }
    }
    fn unsigned(self) -> bool {
        matches!(self, T::U8 | T::U16 | T::U32 | T::U64)
    }
    fn bits(self) -> u32 {
        match self {
            T::I8 | T::U8 => 8,
            T::I16 | T::U16 => 16,
            T::I32 | T::U32 => 32,
            T::I64 | T::U64 => 64,
        }
    }
    fn min(self) -> i128 {
        if self.unsigned() { 0 } else { -(1i128 << (self.bits() - 1)) }
    }
    fn max(self) -> i128 {
        if self.unsigned() { (1i128 << self.bits()) - 1 } else { (1i128 << (self.bits() - 1)) - 1 }
    }
    fn fits(self, v: i128) -> bool {
        self.min() <= v && v <= self.max()
    }
    fn sv(self, v: B) -> ScalarValue {
        match self {
            T::I8 => ScalarValue::Int8(v.map(|x| x as i8)),
            T::I16 => ScalarValue::Int16(v.map(|x| x as i16)),
            T::I32 => ScalarValue::Int32(v.map(|x| x as i32)),
            T::I64 => ScalarValue::Int64(v.map(|x| x as i64)),
            T::U8 => ScalarValue::UInt8(v.map(|x| x as u8)),
            T::U16 => ScalarValue::UInt16(v.map(|x| x as u16)),
            T::U32 => ScalarValue::UInt32(v.map(|x| x as u32)),
            T::U64 => ScalarValue::UInt64(v.map(|x| x as u64)),
        }
    }
}

fn from_sv(s: &ScalarValue) -> Result<B, ()> {
    Ok(match s {
        ScalarValue::Int8(v) => v.map(|x| x as i128),
        ScalarValue::Int16(v) => v.map(|x| x as i128),
        ScalarValue::Int32(v) => v.map(|x| x as i128),
        ScalarValue::Int64(v) => v.map(|x| x as i128),
        ScalarValue::UInt8(v) => v.map(|x| x as i128),
        ScalarValue::UInt16(v) => v.map(|x| x as i128),
        ScalarValue::UInt32(v) => v.map(|x| x as i128),
        ScalarValue::UInt64(v) => v.map(|x| x as i128),
        _ => return Err(()),
    })
}

/// plain copy of an implementation interval: (lower, upper), None = NULL endpoint
#[derive(Clone, Copy, PartialEq, Eq, Debug)]
struct Iv {
    lo: B,
    hi: B,
}
impl Iv {
    fn of(i: &Interval) -> Option<Iv> {
        Some(Iv { lo: from_sv(i.lower()).ok()?, hi: from_sv(i.upper()).ok()? })
    }
    fn has(&self, v: i128) -> bool {
        self.lo.is_none_or(|l| l <= v) && self.hi.is_none_or(|u| v <= u)
    }
    fn show(&self) -> String {
        format!("({} {})", sb(self.lo), sb(self.hi))
    }
}
fn sb(b: B) -> String {
    match b {
        None => "n".into(),
        Some(v) => v.to_string(),
    }
}
/// boolean interval of the implementation as (lower, upper)
fn bool_iv(i: &Interval) -> Option<(bool, bool)> {
    match (i.lower(), i.upper()) {
        (ScalarValue::Boolean(Some(l)), ScalarValue::Boolean(Some(u))) => Some((*l, *u)),
        _ => None,
    }
}
fn show_b(b: (bool, bool)) -> String {
    let f = |x| if x { "t" } else { "f" };
    format!("({} {})", f(b.0), f(b.1))
}
fn mk_bool(b: (bool, bool)) -> Interval {
    Interval::try_new(ScalarValue::Boolean(Some(b.0)), ScalarValue::Boolean(Some(b.1))).unwrap()
}

fn mk(t: T, lo: B, hi: B) -> Option<Interval> {
    Interval::try_new(t.sv(lo), t.sv(hi)).ok()
}

/// endpoint candidates: the boundary set of DESIGN §5 C23 plus seeded random ones
fn endpoints(t: T, rng: &mut Rng, extra: usize) -> Vec<B> {
    let (mn, mx) = (t.min(), t.max());
    let mut e: Vec<B> = vec![None, Some(mn), Some(mn + 1), Some(0), Some(1), Some(mx - 1), Some(mx)];
    if !t.unsigned() {
        e.push(Some(-1));
    } else {
        e.push(Some(2));
    }
    for _ in 0..extra {
        let v = match rng.below(5) {
            0 => rng.range(-12, 12) as i128,
            1 => {
                // around ±sqrt(MAX): products at the overflow edge
                let r = (mx as f64).sqrt() as i128;
                let d = rng.range(-2, 2) as i128;
                if rng.chance(1, 2) { r + d } else { -(r + d) }
            }
            2 => mx / 2 + rng.range(-2, 2) as i128,
            3 => mn / 2 + rng.range(-2, 2) as i128,
            _ => {
                let span = (mx - mn) as u128;
                mn + (((rng.next() as u128) << 64 | rng.next() as u128) % (span + 1)) as i128
            }
        };
        if t.fits(v) {
            e.push(Some(v));
        }
    }
    e.sort();
    e.dedup();
    e
}

fn intervals(t: T, eps: &[B]) -> Vec<(Iv, Interval)> {
    let mut out = vec![];
    for &lo in eps {
        for &hi in eps {
            if let (Some(l), Some(h)) = (lo, hi) {
                if l > h {
                    continue;
                }
            }
            if let Some(i) = mk(t, lo, hi) {
                // the implementation normalises (unsigned NULL lower -> 0): use what it stores
                let iv = Iv::of(&i).unwrap();
                if !out.iter().any(|(x, _): &(Iv, Interval)| *x == iv) {
                    out.push((iv, i));
                }
            }
        }
    }
    out
}

/// concrete members of `i` used by the value oracle
fn members(t: T, i: &Iv, grid: &[i128], exhaustive: bool) -> Vec<i128> {
    if exhaustive && t.bits() == 8 {
        return (t.min()..=t.max()).filter(|v| i.has(*v)).collect();
    }
    let mut v: Vec<i128> = grid.iter().copied().filter(|v| i.has(*v)).collect();
    for b in [i.lo, i.hi].into_iter().flatten() {
        for d in [-1i128, 0, 1] {
            if t.fits(b + d) && i.has(b + d) {
                v.push(b + d);
            }
        }
    }
    v.sort();
    v.dedup();
    v
}

fn grid(t: T, rng: &mut Rng) -> Vec<i128> {
    let (mn, mx) = (t.min(), t.max());
    let mut g = vec![mn, mn + 1, mn + 2, mx - 2, mx - 1, mx, mn / 2, mx / 2, mx / 3];
    for v in -4..=4 {
        g.push(v);
    }
    let r = (mx as f64).sqrt() as i128;
    for d in -1..=1 {
        g.push(r + d);
        g.push(-(r + d));
    }
    for _ in 0..6 {
        let span = (mx - mn) as u128;
        g.push(mn + (((rng.next() as u128) << 64 | rng.next() as u128) % (span + 1)) as i128);
        g.push(rng.range(-130, 130) as i128);
    }
    g.retain(|v| t.fits(*v));
    g.sort();
    g.dedup();
    g
}

#[derive(Clone, Copy, PartialEq, Eq, Debug)]
enum AOp {
    Add,
    Sub,
    Mul,
    Div,
}
impl AOp {
    fn name(self) -> &'static str {
        match self {
            AOp::Add => "add",
            AOp::Sub => "sub",
            AOp::Mul => "mul",
            AOp::Div => "div",
        }
    }
    fn operator(self) -> Operator {
        match self {
            AOp::Add => Operator::Plus,
            AOp::Sub => Operator::Minus,
            AOp::Mul => Operator::Multiply,
            AOp::Div => Operator::Divide,
        }
    }
    /// the mathematical result if it exists and is representable in `t`
    fn exact(self, t: T, a: i128, b: i128) -> Option<i128> {
        let v = match self {
            AOp::Add => a + b,
            AOp::Sub => a - b,
            AOp::Mul => a.checked_mul(b)?,
            AOp::Div => {
                if b == 0 {
                    return None;
                }
                a / b // i128 division truncates toward zero like Rust's fixed-width `/`
            }
        };
        t.fits(v).then_some(v)
    }
    fn apply(self, a: &Interval, b: &Interval) -> datafusion_common::Result<Interval> {
        match self {
            AOp::Add => a.add(b),
            AOp::Sub => a.sub(b),
            AOp::Mul => a.mul(b),
            AOp::Div => a.div(b),
        }
    }
}
const AOPS: [AOp; 4] = [AOp::Add, AOp::Sub, AOp::Mul, AOp::Div];

#[derive(Clone, Copy, PartialEq, Eq, Debug)]
enum COp {
    Eq,
    Gt,
    Ge,
    Lt,
    Le,
}
impl COp {
    fn name(self) -> &'static str {
        match self {
            COp::Eq => "eq",
            COp::Gt => "gt",
            COp::Ge => "ge",
            COp::Lt => "lt",
            COp::Le => "le",
        }
    }
    fn operator(self) -> Operator {
        match self {
            COp::Eq => Operator::Eq,
            COp::Gt => Operator::Gt,
            COp::Ge => Operator::GtEq,
            COp::Lt => Operator::Lt,
            COp::Le => Operator::LtEq,
        }
    }
    fn holds(self, a: i128, b: i128) -> bool {
        match self {
            COp::Eq => a == b,
            COp::Gt => a > b,
            COp::Ge => a >= b,
            COp::Lt => a < b,
            COp::Le => a <= b,
        }
    }
    fn apply(self, a: &Interval, b: &Interval) -> datafusion_common::Result<Interval> {
        match self {
            COp::Eq => a.equal(b),
            COp::Gt => a.gt(b),
            COp::Ge => a.gt_eq(b),
            COp::Lt => a.lt(b),
            COp::Le => a.lt_eq(b),
        }
    }
}
const COPS: [COp; 5] = [COp::Eq, COp::Gt, COp::Ge, COp::Lt, COp::Le];

fn contains0(i: &Iv) -> bool {
    i.has(0)
}

/// classification of an arithmetic soundness failure into the specific defect classes that were
/// reproduced by hand (notes/C23.md); anything else gets the generic signature.
fn arith_failure_class(t: T, op: AOp, i: &Iv, j: &Iv) -> &'static str {
    if op == AOp::Mul && !t.unsigned() && contains0(i) && contains0(j) {
        // both operands contain zero and some corner product overflows
        let c = [(i.lo, j.hi), (j.lo, i.hi), (i.hi, j.hi), (i.lo, j.lo)];
        if c.iter().any(|(x, y)| matches!((x, y), (Some(x), Some(y)) if !x.checked_mul(*y).is_some_and(|v| t.fits(v)))) {
            return "mul-multi-zero-overflow";
        }
    }
    if op == AOp::Div && !t.unsigned() && (i.hi == Some(0) || j.hi == Some(0)) {
        return "div-endpoint-zero";
    }
    "arith-unsound"
}

fn opt_pair(r: &datafusion_common::Result<Option<(Interval, Interval)>>) -> Option<Option<(Iv, Iv)>> {
    match r {
        Err(_) => None,
        Ok(None) => Some(None),
        Ok(Some((a, b))) => Some(Some((Iv::of(a)?, Iv::of(b)?))),
    }
}
fn show_opt_pair(p: &Option<Option<(Iv, Iv)>>) -> String {
    match p {
        None => "err".into(),
        Some(None) => "none".into(),
        Some(Some((a, b))) => format!("({} {})", a.show(), b.show()),
    }
}

// ------------------------------------------------------------------ floats: model-free oracle only

/// endpoint / member candidates for floats: signed zeros, subnormals, values whose sums, products
/// and quotients are inexact (0.1, 1/3, 1/7, 0.6 …), large and small magnitudes
fn float_pool64() -> Vec<f64> {
    let mut v = vec![
        0.0, -0.0, 5e-324, -5e-324, 2.2250738585072014e-308, -2.2250738585072014e-308, 1e-300, -1e-300, 0.1, -0.1, 1.0 / 3.0, -1.0 / 3.0, 1.0 / 7.0,
        -1.0 / 7.0, 1.0 / 7.0 + 0.25, 0.6, -0.6, 0.7, 1.0, -1.0, 1.1, 3.0, -3.0, 7.5, -7.5, 10.0, 1e10, -1e10, 1e16 + 2.0, 1e154, -1e154, 1e300, -1e300, f64::MAX, f64::MIN,
        std::f64::consts::PI, -std::f64::consts::E,
    ];
    v.sort_by(|a, b| a.total_cmp(b));
    v.dedup_by(|a, b| a.to_bits() == b.to_bits());
    v
}
fn float_pool32() -> Vec<f32> {
    let mut v = vec![
        0.0f32, -0.0, 1e-45, -1e-45, 1.17549435e-38, -1.17549435e-38, 1e-30, -1e-30, 0.1, -0.1, 1.0 / 3.0, -1.0 / 3.0, 1.0 / 7.0, -1.0 / 7.0, 1.0 / 7.0 + 0.25, 0.6, -0.6, 0.7,
        1.0, -1.0, 1.1, 3.0, -3.0, 7.5, -7.5, 10.0, 1e10, -1e10, 16777216.0, 1e19, -1e19, 1e30, -1e30, f32::MAX, f32::MIN, std::f32::consts::PI,
    ];
    v.sort_by(|a, b| a.total_cmp(b));
    v.dedup_by(|a, b| a.to_bits() == b.to_bits());
    v
}

trait Fl: Copy + PartialOrd + std::fmt::Debug {
    const NAME: &'static str;
    fn sv(v: Option<Self>) -> ScalarValue;
    fn from_sv(s: &ScalarValue) -> Option<Option<Self>>;
    fn finite(self) -> bool;
    fn is_zero(self) -> bool;
    fn op(self, op: AOp, b: Self) -> Self;
    fn mid(self, b: Self) -> Self;
    fn bits(self) -> String;
    /// the engine's comparison semantics for floats: IEEE 754 totalOrder (arrow `cmp` kernels), −0.0 < +0.0
    fn tcmp(self, b: Self) -> std::cmp::Ordering;
    /// exact residual sign of a*b - v (fused multiply-add): < 0 means v was rounded UP from the exact product
    fn mul_resid(self, b: Self, v: Self) -> f64;
}
impl Fl for f64 {
    const NAME: &'static str = "f64";
    fn sv(v: Option<f64>) -> ScalarValue {
        ScalarValue::Float64(v)
    }
    fn from_sv(s: &ScalarValue) -> Option<Option<f64>> {
        match s {
            ScalarValue::Float64(v) => Some(*v),
            _ => None,
        }
    }
    fn finite(self) -> bool {
        self.is_finite()
    }
    fn is_zero(self) -> bool {
        self == 0.0
    }
    fn op(self, op: AOp, b: f64) -> f64 {
        match op {
            AOp::Add => self + b,
            AOp::Sub => self - b,
            AOp::Mul => self * b,
            AOp::Div => self / b,
        }
    }
    fn mid(self, b: f64) -> f64 {
        self / 2.0 + b / 2.0
    }
    fn bits(self) -> String {
        format!("{self:e}#{:016x}", self.to_bits())
    }
    fn tcmp(self, b: f64) -> std::cmp::Ordering {
        self.total_cmp(&b)
    }
    fn mul_resid(self, b: f64, v: f64) -> f64 {
        self.mul_add(b, -v)
    }
}
impl Fl for f32 {
    const NAME: &'static str = "f32";
    fn sv(v: Option<f32>) -> ScalarValue {
        ScalarValue::Float32(v)
    }
    fn from_sv(s: &ScalarValue) -> Option<Option<f32>> {
        match s {
            ScalarValue::Float32(v) => Some(*v),
            _ => None,
        }
    }
    fn finite(self) -> bool {
        self.is_finite()
    }
    fn is_zero(self) -> bool {
        self == 0.0
    }
    fn op(self, op: AOp, b: f32) -> f32 {
        match op {
            AOp::Add => self + b,
            AOp::Sub => self - b,
            AOp::Mul => self * b,
            AOp::Div => self / b,
        }
    }
    fn mid(self, b: f32) -> f32 {
        self / 2.0 + b / 2.0
    }
    fn bits(self) -> String {
        format!("{self:e}#{:08x}", self.to_bits())
    }
    fn tcmp(self, b: f32) -> std::cmp::Ordering {
        self.total_cmp(&b)
    }
    fn mul_resid(self, b: f32, v: f32) -> f64 {
        (self as f64) * (b as f64) - (v as f64)
    }
}

fn fl_has<F: Fl>(lo: Option<F>, hi: Option<F>, v: F) -> bool {
    lo.is_none_or(|l| l <= v) && hi.is_none_or(|u| v <= u)
}
fn fl_show<F: Fl>(lo: Option<F>, hi: Option<F>) -> String {
    format!("[{}, {}]", lo.map(|x| x.bits()).unwrap_or("NULL".into()), hi.map(|x| x.bits()).unwrap_or("NULL".into()))
}

/// floats: for every pair of intervals and every pair of members (endpoints and interior points),
/// the round-to-nearest result of `a op b` (which lies between the downward- and upward-rounded
/// results the code is supposed to use for the endpoints) must be inside the result interval —
/// by direct comparison and by the engine's `contains_value`; no tolerance.
fn float_oracle<F: Fl>(run: &mut Run, rng: &mut Rng, pool: &[F]) {
    // endpoint subset for this run
    let n_ep = run.budget(13, 22) as usize;
    let mut eps: Vec<Option<F>> = vec![None];
    let mut idx: Vec<usize> = (0..pool.len()).collect();
    for i in 0..idx.len() {
        let j = i + rng.below((idx.len() - i) as u64) as usize;
        idx.swap(i, j);
    }
    let mut chosen: Vec<usize> = idx.into_iter().take(n_ep).collect();
    chosen.sort();
    eps.extend(chosen.iter().map(|i| Some(pool[*i])));
    let mut ivs: Vec<(Option<F>, Option<F>, Interval)> = vec![];
    for &lo in &eps {
        for &hi in &eps {
            if let (Some(l), Some(h)) = (lo, hi) {
                if !(l <= h) {
                    continue;
                }
            }
            if let Ok(i) = Interval::try_new(F::sv(lo), F::sv(hi)) {
                let (Some(l2), Some(h2)) = (F::from_sv(i.lower()), F::from_sv(i.upper())) else { continue };
                ivs.push((l2, h2, i));
            }
        }
    }
    run.add(&format!("float/{}/intervals", F::NAME), ivs.len() as u64);
    let members = |lo: Option<F>, hi: Option<F>, rng: &mut Rng| -> Vec<F> {
        let mut m: Vec<F> = vec![];
        m.extend(lo);
        m.extend(hi);
        if let (Some(l), Some(h)) = (lo, hi) {
            m.push(l.mid(h));
        }
        for _ in 0..3 {
            m.push(*rng.pick(pool));
        }
        // membership in the engine's sense (totalOrder): [x, −0.0] does not contain +0.0
        m.retain(|v| v.finite() && lo.is_none_or(|l| l.tcmp(*v).is_le()) && hi.is_none_or(|u| v.tcmp(u).is_le()));
        m
    };
    let n_pairs = run.budget(6000, 120_000);
    for _ in 0..n_pairs {
        let (alo, ahi, ai) = &ivs[rng.below(ivs.len() as u64) as usize];
        let (blo, bhi, bi) = &ivs[rng.below(ivs.len() as u64) as usize];
        let ma = members(*alo, *ahi, rng);
        let mb = members(*blo, *bhi, rng);
        for op in AOPS {
            let Ok(Ok(r)) = hutil::catch(std::panic::AssertUnwindSafe(|| op.apply(ai, bi))) else {
                run.count("float/err-or-panic");
                continue;
            };
            let (Some(rlo), Some(rhi)) = (F::from_sv(r.lower()), F::from_sv(r.upper())) else { continue };
            run.count(&format!("float/{}/{}", F::NAME, op.name()));
            // generator sensitivity: an endpoint product that round-to-nearest rounds AWAY from the
            // interval would fall outside if the code rounded that endpoint in the wrong direction
            if op == AOp::Mul {
                if let (Some(ah), Some(bl), Some(al), Some(bh)) = (*ahi, *blo, *alo, *bhi) {
                    // strictly negative I, strictly positive J: upper endpoint is a.hi * b.lo
                    let zero_f = ah.op(AOp::Sub, ah);
                    if ah < zero_f && bl > zero_f {
                        let v = ah.op(AOp::Mul, bl);
                        if v.finite() && ah.mul_resid(bl, v) < 0.0 {
                            run.count("float/sensitive: neg x pos upper endpoint product rounded up by round-to-nearest");
                        }
                    }
                    if al > zero_f && bh < zero_f {
                        let v = al.op(AOp::Mul, bh);
                        if v.finite() && al.mul_resid(bh, v) < 0.0 {
                            run.count("float/sensitive: pos x neg upper endpoint product rounded up by round-to-nearest");
                        }
                    }
                }
            }
            let mut bad: Option<String> = None;
            let mut bad_engine: Option<String> = None;
            for &a in &ma {
                for &b in &mb {
                    if op == AOp::Div && b.is_zero() {
                        continue;
                    }
                    let v = a.op(op, b);
                    if !v.finite() {
                        continue; // not representable as a finite value
                    }
                    run.count("float/value-pairs");
                    if !fl_has(rlo, rhi, v) && bad.is_none() {
                        bad = Some(format!("a={} b={} a op b={}", a.bits(), b.bits(), v.bits()));
                    }
                    // engine's own membership test (orders -0.0 below +0.0: skip exact zeros)
                    if !v.is_zero() {
                        if let Ok(false) = r.contains_value(F::sv(Some(v))) {
                            if bad_engine.is_none() {
                                bad_engine = Some(format!("a={} b={} a op b={}", a.bits(), b.bits(), v.bits()));
                            }
                        }
                    }
                }
            }
            run.oracle(
                bad.is_none(),
                &format!("float-arith-unsound ty={} op={} I={} J={}", F::NAME, op.name(), fl_show(*alo, *ahi), fl_show(*blo, *bhi)),
                &format!("result {} does not contain {:?}", fl_show(rlo, rhi), bad),
            );
            run.oracle(
                bad_engine.is_none(),
                &format!("float-arith-unsound-contains_value ty={} op={} I={} J={}", F::NAME, op.name(), fl_show(*alo, *ahi), fl_show(*blo, *bhi)),
                &format!("result {}: contains_value is false for {:?}", fl_show(rlo, rhi), bad_engine),
            );
        }
        for op in COPS {
            let Some(r) = op.apply(ai, bi).ok().and_then(|r| bool_iv(&r)) else { continue };
            let mut bad = None;
            for &a in &ma {
                for &b in &mb {
                    // truth value as the engine computes it (totalOrder: −0.0 < +0.0)
                    let o = a.tcmp(b);
                    let v = match op {
                        COp::Eq => o.is_eq(),
                        COp::Gt => o.is_gt(),
                        COp::Ge => o.is_ge(),
                        COp::Lt => o.is_lt(),
                        COp::Le => o.is_le(),
                    };
                    if !(r.0 <= v && v <= r.1) && bad.is_none() {
                        bad = Some(format!("a={} b={}", a.bits(), b.bits()));
                    }
                }
            }
            run.count(&format!("float/{}/cmp", F::NAME));
            run.oracle(bad.is_none(), &format!("float-cmp-unsound ty={} op={} I={} J={}", F::NAME, op.name(), fl_show(*alo, *ahi), fl_show(*blo, *bhi)), &format!("result {} but {:?}", show_b(r), bad));
        }
    }
}

// ------------------------------------------------------------------ analyze() end to end

#[derive(Clone, Debug)]
enum Term {
    Col(usize),
    ColPlus(usize, i64),
    ColMinusCol(usize, usize),
    ColPlusCol(usize, usize),
    Lit(i64),
}
fn term_expr(t: &Term, names: &[&str]) -> Arc<dyn PhysicalExpr> {
    let col = |i: usize| Arc::new(Column::new(names[i], i)) as Arc<dyn PhysicalExpr>;
    let lit = |v: i64| Arc::new(Literal::new(ScalarValue::Int64(Some(v)))) as Arc<dyn PhysicalExpr>;
    match t {
        Term::Col(i) => col(*i),
        Term::ColPlus(i, k) => Arc::new(BinaryExpr::new(col(*i), Operator::Plus, lit(*k))),
        Term::ColMinusCol(i, j) => Arc::new(BinaryExpr::new(col(*i), Operator::Minus, col(*j))),
        Term::ColPlusCol(i, j) => Arc::new(BinaryExpr::new(col(*i), Operator::Plus, col(*j))),
        Term::Lit(v) => lit(*v),
    }
}

/// `analyze` (ExprIntervalGraph::update_ranges end to end): every concrete row drawn from the input
/// boundaries that satisfies the predicate must lie inside the returned boundaries, and the result
/// must not be "infeasible" / selectivity 0 when such a row exists.  Schemas include duplicate
/// column names with different ranges (the shape above a join of t1(id) with t2(id)).
fn analyze_oracle(run: &mut Run, rng: &mut Rng) {
    let name_sets: [&[&str]; 6] = [&["id", "id"], &["a", "b"], &["a", "a", "b"], &["id", "x", "id"], &["a", "b", "c"], &["v", "v", "v"]];
    let n = run.budget(2500, 40_000);
    for _ in 0..n {
        let names = *rng.pick(&name_sets);
        let nc = names.len();
        // ranges: disjoint or overlapping, sometimes singletons
        let ranges: Vec<(i64, i64)> = (0..nc)
            .map(|_| {
                let lo = *rng.pick(&[0i64, 0, 100, -50, 10, 150, -5]) + rng.range(0, 5);
                let w = *rng.pick(&[0i64, 1, 10, 10, 100, 200]);
                (lo, lo + w)
            })
            .collect();
        let schema = Schema::new(names.iter().map(|n| Field::new(*n, DataType::Int64, true)).collect::<Vec<_>>());
        // 1..3 conjuncts
        let nconj = 1 + rng.below(3) as usize;
        let mut conj: Vec<(Term, COp, Term)> = vec![];
        for _ in 0..nconj {
            let i = rng.below(nc as u64) as usize;
            let j = rng.below(nc as u64) as usize;
            let anchor = |rng: &mut Rng, i: usize| {
                let (lo, hi) = ranges[i];
                *rng.pick(&[lo, hi, (lo + hi) / 2, lo - 1, hi + 1, (lo + hi) / 2 + 1])
            };
            let (l, r) = match rng.below(6) {
                0 | 1 => (Term::Col(i), Term::Lit(anchor(rng, i))),
                2 => (Term::Lit(anchor(rng, i)), Term::Col(i)),
                3 if i != j => (Term::Col(i), Term::Col(j)),
                4 => (Term::ColPlus(i, rng.range(-3, 3)), Term::Lit(anchor(rng, i))),
                5 if i != j => (if rng.chance(1, 2) { Term::ColMinusCol(i, j) } else { Term::ColPlusCol(i, j) }, Term::Lit(anchor(rng, i) - if rng.chance(1, 2) { anchor(rng, j) } else { 0 })),
                _ => (Term::Col(j), Term::Lit(anchor(rng, j))),
            };
            conj.push((l, *rng.pick(&COPS), r));
        }
        let mut pred: Option<Arc<dyn PhysicalExpr>> = None;
        for (l, op, r) in &conj {
            let e: Arc<dyn PhysicalExpr> = Arc::new(BinaryExpr::new(term_expr(l, names), op.operator(), term_expr(r, names)));
            pred = Some(match pred {
                None => e,
                Some(p) => Arc::new(BinaryExpr::new(p, Operator::And, e)),
            });
        }
        let pred = pred.unwrap();
        let boundaries: Vec<ExprBoundaries> = (0..nc)
            .map(|i| ExprBoundaries {
                column: Column::new(names[i], i),
                interval: Some(Interval::make(Some(ranges[i].0), Some(ranges[i].1)).unwrap()),
                distinct_count: if rng.chance(1, 2) { Precision::Absent } else { Precision::Inexact((ranges[i].1 - ranges[i].0 + 1) as usize) },
            })
            .collect();
        let dup = (0..nc).any(|i| (0..i).any(|j| names[i] == names[j]));
        let res = hutil::catch(std::panic::AssertUnwindSafe(|| analyze(&pred, AnalysisContext::new(boundaries), &schema)));
        let ctx = match res {
            Ok(Ok(c)) => c,
            _ => {
                run.count("analyze/err-or-panic");
                continue;
            }
        };
        run.count(if dup { "analyze/duplicate-column-names" } else { "analyze/distinct-column-names" });
        // concrete rows: grid over boundary values of each column
        let vals: Vec<Vec<i64>> = ranges
            .iter()
            .map(|(lo, hi)| {
                let mut v = vec![*lo, *hi, (*lo + *hi) / 2, *lo + 1, *hi - 1, (*lo + *hi) / 2 + 1];
                v.retain(|x| lo <= x && x <= hi);
                v.sort();
                v.dedup();
                v
            })
            .collect();
        let mut rows: Vec<Vec<i64>> = vec![vec![]];
        for v in &vals {
            rows = rows.iter().flat_map(|r| v.iter().map(move |x| { let mut r2 = r.clone(); r2.push(*x); r2 })).collect();
        }
        let cols: Vec<ArrayRef> = (0..nc).map(|i| Arc::new(Int64Array::from(rows.iter().map(|r| r[i]).collect::<Vec<_>>())) as ArrayRef).collect();
        let batch = RecordBatch::try_new(Arc::new(schema.clone()), cols).unwrap();
        let Ok(tv) = pred.evaluate(&batch).and_then(|v| v.into_array(rows.len())) else {
            run.count("analyze/engine-eval-error");
            continue;
        };
        let tv = tv.as_any().downcast_ref::<BooleanArray>().unwrap().clone();
        let sat: Vec<&Vec<i64>> = rows.iter().enumerate().filter(|(k, _)| !tv.is_null(*k) && tv.value(*k)).map(|(_, r)| r).collect();
        if sat.is_empty() {
            run.count("analyze/no-satisfying-row");
            continue;
        }
        run.count(if ctx.boundaries.iter().all(|b| b.interval.is_none()) { "analyze/result-infeasible" } else { "analyze/result-feasible" });
        let mut bad: Option<String> = None;
        for r in &sat {
            for (i, b) in ctx.boundaries.iter().enumerate() {
                let inside = match &b.interval {
                    None => false,
                    Some(iv) => Iv::of(iv).is_some_and(|x| x.has(r[i] as i128)),
                };
                if !inside && bad.is_none() {
                    bad = Some(format!("row {r:?} column #{i} ({}) result interval {}", names[i], b.interval.as_ref().map(|x| x.to_string()).unwrap_or("None".into())));
                }
            }
        }
        let shown = format!("names={names:?} ranges={ranges:?} pred=[{pred}]");
        run.oracle(bad.is_none(), &format!("analyze-removes-satisfying-row dup={dup} {shown}"), &format!("{bad:?}"));
        run.oracle(ctx.selectivity != Some(0.0), &format!("analyze-selectivity-zero dup={dup} {shown}"), &format!("selectivity {:?} although {} grid rows satisfy the predicate", ctx.selectivity, sat.len()));
    }
}

pub fn run(run: &mut Run, args: &Args) {
    let mut rng = Rng::new(args.seed);
    let thorough = run.thorough();
    if std::env::var("C23_LOUD").is_err() { hutil::quiet_panics(); }
    for t in ALL_T {
        let extra = if t.bits() == 8 { run.budget(6, 8) } else { run.budget(3, 8) } as usize;
        let eps = endpoints(t, &mut rng, extra);
        let ivs = intervals(t, &eps);
        let g = grid(t, &mut rng);
        run.add(&format!("intervals/{}", t.name()), ivs.len() as u64);
        let mems: Vec<Vec<i128>> = ivs.iter().map(|(iv, _)| members(t, iv, &g, thorough)).collect();

        for (xi, (i, ii)) in ivs.iter().enumerate() {
            for (xj, (j, jj)) in ivs.iter().enumerate() {
                let bounded = |x: &Iv| x.lo.is_some() && x.hi.is_some();
                let nontrivial = bounded(i) || bounded(j);
                // ---------------- arithmetic
                for op in AOPS {
                    let (ii2, jj2) = (ii.clone(), jj.clone());
                    let res = hutil::catch(std::panic::AssertUnwindSafe(move || op.apply(&ii2, &jj2)));
                    let r = match res {
                        Ok(Ok(r)) => Iv::of(&r),
                        Ok(Err(_)) => None,
                        Err(_) => {
                            run.oracle(false, &format!("panic arith ty={} op={} I={} J={}", t.name(), op.name(), i.show(), j.show()), "panic");
                            None
                        }
                    };
                    let rs = r.map(|x| x.show()).unwrap_or("err".into());
                    run.case("arith", &format!("({} {} {} {} {})", t.name(), op.name(), i.show(), j.show(), rs), "ok", nontrivial);
                    run.count(&format!("arith/{}", op.name()));
                    let Some(r) = r else {
                        run.count("arith/err");
                        continue;
                    };
                    if r.lo.is_none() && r.hi.is_none() {
                        run.count("arith/result-unbounded");
                    }
                    // direct oracle on concrete values
                    let mut bad: Option<(i128, i128, i128)> = None;
                    let mut n = 0u64;
                    'o: for &a in &mems[xi] {
                        for &b in &mems[xj] {
                            if let Some(v) = op.exact(t, a, b) {
                                n += 1;
                                if !r.has(v) {
                                    bad = Some((a, b, v));
                                    break 'o;
                                }
                            }
                        }
                    }
                    run.add("oracle/value-pairs", n);
                    let class = arith_failure_class(t, op, i, j);
                    run.oracle(
                        bad.is_none(),
                        &format!("{} ty={} op={} I={} J={}", class, t.name(), op.name(), i.show(), j.show()),
                        &format!(
                            "Interval::{}({}, {}) over {} = {} but {:?} is a representable result of members (a, b, a op b)",
                            op.name(), i.show(), j.show(), t.name(), r.show(), bad
                        ),
                    );
                }
                // ---------------- comparisons
                for op in COPS {
                    let r = op.apply(ii, jj).ok().and_then(|r| bool_iv(&r));
                    let rs = r.map(show_b).unwrap_or("err".into());
                    run.case("cmp", &format!("({} {} {} {} {})", t.name(), op.name(), i.show(), j.show(), rs), "ok", nontrivial);
                    if let Some(r) = r {
                        run.count(&format!("cmp/result{}", show_b(r)));
                        let mut bad = None;
                        'c: for &a in &mems[xi] {
                            for &b in &mems[xj] {
                                let v = op.holds(a, b);
                                // v ∈ [r.0, r.1] over false<true
                                if !(r.0 <= v && v <= r.1) {
                                    bad = Some((a, b));
                                    break 'c;
                                }
                            }
                        }
                        run.oracle(
                            bad.is_none(),
                            &format!("cmp-unsound ty={} op={} I={} J={}", t.name(), op.name(), i.show(), j.show()),
                            &format!("{} {} {} = {} but members {:?} evaluate outside", i.show(), op.name(), j.show(), show_b(r), bad),
                        );
                    }
                }
                // ---------------- intersect / union / contains
                {
                    let r = ii.intersect(jj).ok().map(|o| o.and_then(|x| Iv::of(&x)));
                    let rs = match &r {
                        None => "err".to_string(),
                        Some(None) => "none".to_string(),
                        Some(Some(x)) => x.show(),
                    };
                    run.case("isect", &format!("({} {} {} {})", t.name(), i.show(), j.show(), rs), "ok", nontrivial);
                    if let Some(r) = &r {
                        let bad = mems[xi].iter().find(|a| j.has(**a) && !r.is_some_and(|x| x.has(**a)));
                        run.oracle(bad.is_none(), &format!("intersect-unsound ty={} I={} J={}", t.name(), i.show(), j.show()), &format!("intersect = {rs} drops common member {bad:?}"));
                    }
                    let r = ii.union(jj).ok().and_then(|x| Iv::of(&x));
                    let rs = r.map(|x| x.show()).unwrap_or("err".into());
                    run.case("union", &format!("({} {} {} {})", t.name(), i.show(), j.show(), rs), "ok", nontrivial);
                    if let Some(r) = &r {
                        let bad = mems[xi].iter().chain(mems[xj].iter()).find(|a| !r.has(**a));
                        run.oracle(bad.is_none(), &format!("union-unsound ty={} I={} J={}", t.name(), i.show(), j.show()), &format!("union = {rs} drops member {bad:?}"));
                    }
                    let r = ii.contains(jj).ok().and_then(|r| bool_iv(&r));
                    let rs = r.map(show_b).unwrap_or("err".into());
                    run.case("contains", &format!("({} {} {} {})", t.name(), i.show(), j.show(), rs), "ok", nontrivial);
                    if let Some(r) = r {
                        // TRUE => every member of J is in I; FALSE => no common member
                        let all_in = mems[xj].iter().all(|b| i.has(*b));
                        let any_in = mems[xj].iter().any(|b| i.has(*b)) || mems[xi].iter().any(|a| j.has(*a));
                        let ok = if r == (true, true) { all_in } else if r == (false, false) { !any_in } else { true };
                        run.oracle(ok, &format!("contains-unsound ty={} I={} J={}", t.name(), i.show(), j.show()), &format!("contains = {rs}"));
                    }
                }
                // ---------------- satisfy_greater
                for strict in [true, false] {
                    let r = opt_pair(&satisfy_greater(ii, jj, strict));
                    run.case("sg", &format!("({} {} {} {} {})", t.name(), if strict { "t" } else { "f" }, i.show(), j.show(), show_opt_pair(&r)), "ok", nontrivial);
                    if let Some(r) = &r {
                        run.count(if r.is_some() { "sg/some" } else { "sg/infeasible" });
                        let mut bad = None;
                        'g: for &a in &mems[xi] {
                            for &b in &mems[xj] {
                                if (strict && a > b) || (!strict && a >= b) {
                                    let kept = r.is_some_and(|(l, rr)| l.has(a) && rr.has(b));
                                    if !kept {
                                        bad = Some((a, b));
                                        break 'g;
                                    }
                                }
                            }
                        }
                        run.oracle(bad.is_none(), &format!("satisfy-greater-unsound ty={} strict={} L={} R={}", t.name(), strict, i.show(), j.show()), &format!("satisfy_greater = {} removes satisfying assignment {:?}", show_opt_pair(&Some(*r)), bad));
                    }
                }
            }
        }

        // ---------------- propagate_comparison / propagate_arithmetic on sampled triples
        let n_prop = run.budget(1500, 20000);
        for _ in 0..n_prop {
            let xi = rng.below(ivs.len() as u64) as usize;
            let xj = rng.below(ivs.len() as u64) as usize;
            let (i, ii) = &ivs[xi];
            let (j, jj) = &ivs[xj];
            // comparison
            let op = *rng.pick(&COPS);
            let parent = *rng.pick(&[(true, true), (false, false), (false, true), (true, true), (false, false)]);
            let r = opt_pair(&propagate_comparison(&op.operator(), &mk_bool(parent), ii, jj));
            run.case("pc", &format!("({} {} {} {} {} {})", t.name(), op.name(), show_b(parent), i.show(), j.show(), show_opt_pair(&r)), "ok", parent.0 == parent.1);
            run.count(&format!("pc/parent{}", show_b(parent)));
            if let Some(r) = &r {
                // `None` for an uncertain parent / `= false` means "nothing to propagate" in the
                // callers' reading only for ... no: BinaryExpr maps it to infeasible. We judge the
                // documented contract of the function itself for definite parents only.
                if parent.0 == parent.1 && !(op == COp::Eq && !parent.0) {
                    let mut bad = None;
                    'p: for &a in &mems[xi] {
                        for &b in &mems[xj] {
                            if op.holds(a, b) == parent.0 {
                                let kept = r.is_some_and(|(l, rr)| l.has(a) && rr.has(b));
                                if !kept {
                                    bad = Some((a, b));
                                    break 'p;
                                }
                            }
                        }
                    }
                    let class = if !parent.0 { "propagate-comparison-false-parent-swapped" } else { "propagate-comparison-unsound" };
                    run.oracle(bad.is_none(), &format!("{} ty={} op={} parent={} L={} R={}", class, t.name(), op.name(), show_b(parent), i.show(), j.show()), &format!("result {} removes satisfying assignment {:?}", show_opt_pair(&Some(*r)), bad));
                }
            }
            // arithmetic
            let xp = rng.below(ivs.len() as u64) as usize;
            let (p, pp) = &ivs[xp];
            let op = *rng.pick(&AOPS);
            let (pp2, ii2, jj2) = (pp.clone(), ii.clone(), jj.clone());
            let res = hutil::catch(std::panic::AssertUnwindSafe(move || propagate_arithmetic(&op.operator(), &pp2, &ii2, &jj2)));
            let r = match res {
                Ok(r) => opt_pair(&r),
                Err(_) => {
                    // debug_assert in Interval::intersect fed with an inverted interval produced by div
                    run.count("pa/panic-in-impl");
                    None
                }
            };
            run.case("pa", &format!("({} {} {} {} {} {})", t.name(), op.name(), p.show(), i.show(), j.show(), show_opt_pair(&r)), "ok", true);
            run.count(&format!("pa/{}", op.name()));
            if let Some(r) = &r {
                run.count(if r.is_some() { "pa/some" } else { "pa/infeasible" });
                let mut bad = None;
                'q: for &a in &mems[xi] {
                    for &b in &mems[xj] {
                        if let Some(v) = op.exact(t, a, b) {
                            if p.has(v) {
                                let kept = r.is_some_and(|(l, rr)| l.has(a) && rr.has(b));
                                if !kept {
                                    bad = Some((a, b, v));
                                    break 'q;
                                }
                            }
                        }
                    }
                }
                let class = match (op, bad) {
                    // x / y = p propagated as x ∈ y * p (exact only without truncation), and through mul/div
                    (AOp::Div, _) => "propagate-arithmetic-int-div",
                    // x * 0 = 0 for every x, but p / [0, k] only covers non-zero divisors
                    (AOp::Mul, Some((a, b, _))) if a == 0 || b == 0 => "propagate-arithmetic-mul-zero-factor",
                    (AOp::Mul, Some(_)) if !t.unsigned() => {
                        // the inverse runs through `div`: is one of its operands an interval with upper endpoint 0?
                        let left2 = hutil::catch(std::panic::AssertUnwindSafe(|| pp.div(jj).ok().and_then(|q| q.intersect(ii).ok().flatten())))
                            .ok()
                            .flatten()
                            .and_then(|x| Iv::of(&x));
                        if p.hi == Some(0) || j.hi == Some(0) || left2.is_some_and(|x| x.hi == Some(0)) {
                            "propagate-arithmetic-mul-div-endpoint-zero"
                        } else {
                            "propagate-arithmetic-unsound"
                        }
                    }
                    _ => "propagate-arithmetic-unsound",
                };
                run.oracle(bad.is_none(), &format!("{} ty={} op={} P={} L={} R={}", class, t.name(), op.name(), p.show(), i.show(), j.show()), &format!("result {} removes satisfying assignment (x, y, x op y) = {:?}", show_opt_pair(&Some(*r)), bad));
            }
        }
    }
    // ---------------- boolean connectives: the whole table
    let bs = [(false, false), (false, true), (true, true)];
    for a in bs {
        let ia = mk_bool(a);
        let r = ia.not().ok().and_then(|r| bool_iv(&r));
        run.case("bool", &format!("(not {} {})", show_b(a), r.map(show_b).unwrap_or("err".into())), "ok", true);
        if let Some(r) = r {
            let ok = [false, true].iter().filter(|v| a.0 <= **v && **v <= a.1).all(|v| r.0 <= !*v && !*v <= r.1);
            run.oracle(ok, &format!("not-unsound A={}", show_b(a)), "");
        }
        for b in bs {
            let ib = mk_bool(b);
            for (name, f, g) in [
                ("and", ia.and(&ib), (|x: bool, y: bool| x && y) as fn(bool, bool) -> bool),
                ("or", ia.or(&ib), (|x: bool, y: bool| x || y) as fn(bool, bool) -> bool),
            ] {
                let r = f.ok().and_then(|r| bool_iv(&r));
                run.case("bool", &format!("({} {} {} {})", name, show_b(a), show_b(b), r.map(show_b).unwrap_or("err".into())), "ok", true);
                if let Some(r) = r {
                    let mut ok = true;
                    for x in [false, true] {
                        for y in [false, true] {
                            if a.0 <= x && x <= a.1 && b.0 <= y && y <= b.1 {
                                let v = g(x, y);
                                ok &= r.0 <= v && v <= r.1;
                            }
                        }
                    }
                    run.oracle(ok, &format!("{name}-unsound A={} B={}", show_b(a), show_b(b)), "");
                }
            }
        }
    }
    float_oracle::<f64>(run, &mut rng, &float_pool64());
    float_oracle::<f32>(run, &mut rng, &float_pool32());
    analyze_oracle(run, &mut rng);
    let _ = std::panic::take_hook();
    run.note("floats (oracle only): Float64/Float32 intervals over signed zeros, subnormals, inexact values (0.1, 1/3, 1/7, 0.6), large/small magnitudes, MIN/MAX, NULL endpoints; members = endpoints, midpoint, pool values; a op b (round to nearest) must be inside the result, direct comparison and contains_value, no tolerance.  analyze(): 2..3 Int64 columns incl. duplicate names with different ranges, 1..3 conjuncts of comparisons over columns, literals, col+k, col±col; grid rows from the input boundaries");
    run.note("endpoint sets: {NULL, MIN, MIN+1, -1|2, 0, 1, MAX-1, MAX} + seeded random endpoints (small, ±sqrt(MAX), MAX/2, MIN/2, uniform); value oracle: boundary grid + endpoints±1 (quick), every 8-bit value (thorough)");
}
