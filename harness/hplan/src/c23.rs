//! C23 — interval arithmetic and constraint propagation are sound.
//! Tie (K, refinement): the real `Interval::{add,sub,mul,div,gt,gt_eq,lt,lt_eq,equal,and,or,not,
//! intersect,union,contains}`, `satisfy_greater`, `propagate_comparison`, `propagate_arithmetic`
//! on integer intervals built from boundary endpoint sets (+ random endpoints) for
//! i8..i64/u8..u64.  Each request carries the implementation's answer; the Lean model answers
//! `ok` iff γ(model) ⊆ γ(impl).
//! Oracle (implementation level, no model): for concrete a ∈ I, b ∈ J with `a op b`
//! representable, `a op b` ∈ impl result (value grids; exhaustive for 8-bit in thorough);
//! comparison/boolean truth values; propagation keeps every satisfying assignment.
use datafusion_common::ScalarValue;
use datafusion_expr_common::interval_arithmetic::{Interval, satisfy_greater};
use datafusion_expr_common::operator::Operator;
use datafusion_physical_expr::intervals::cp_solver::{propagate_arithmetic, propagate_comparison};
use hutil::{Args, Rng, Run};

#[derive(Clone, Copy, PartialEq, Eq, Debug)]
enum T {
    I8,
    I16,
    I32,
    I64,
    U8,
    U16,
    U32,
    U64,
}
const ALL_T: [T; 8] = [T::I8, T::U8, T::I16, T::U16, T::I32, T::U32, T::I64, T::U64];

type B = Option<i128>;

impl T {
    fn name(self) -> &'static str {
        match self {
            T::I8 => "i8",
            T::I16 => "i16",
            T::I32 => "i32",
            T::I64 => "i64",
            T::U8 => "u8",
            T::U16 => "u16",
            T::U32 => "u32",
            T::U64 => "u64",
        }
    }
    fn unsigned(self) -> bool {
        matches!(self, T::U8 | T::U16 | T::U32 | T::U64)
    }
    fn bits(self) -> u32 {
        match self {
            T::I8 | T::U8 => 8,
            T::I16 | T::U16 => 16,
            T::I32 | T::U32 => 32,
            T::I64 | T::U64 => 64,
        }
    }
    fn min(self) -> i128 {
        if self.unsigned() { 0 } else { -(1i128 << (self.bits() - 1)) }
    }
    fn max(self) -> i128 {
        if self.unsigned() { (1i128 << self.bits()) - 1 } else { (1i128 << (self.bits() - 1)) - 1 }
    }
    fn fits(self, v: i128) -> bool {
        self.min() <= v && v <= self.max()
    }
    fn sv(self, v: B) -> ScalarValue {
        match self {
            T::I8 => ScalarValue::Int8(v.map(|x| x as i8)),
            T::I16 => ScalarValue::Int16(v.map(|x| x as i16)),
            T::I32 => ScalarValue::Int32(v.map(|x| x as i32)),
            T::I64 => ScalarValue::Int64(v.map(|x| x as i64)),
            T::U8 => ScalarValue::UInt8(v.map(|x| x as u8)),
            T::U16 => ScalarValue::UInt16(v.map(|x| x as u16)),
            T::U32 => ScalarValue::UInt32(v.map(|x| x as u32)),
            T::U64 => ScalarValue::UInt64(v.map(|x| x as u64)),
        }
    }
}

fn from_sv(s: &ScalarValue) -> Result<B, ()> {
    Ok(match s {
        ScalarValue::Int8(v) => v.map(|x| x as i128),
        ScalarValue::Int16(v) => v.map(|x| x as i128),
        ScalarValue::Int32(v) => v.map(|x| x as i128),
        ScalarValue::Int64(v) => v.map(|x| x as i128),
        ScalarValue::UInt8(v) => v.map(|x| x as i128),
        ScalarValue::UInt16(v) => v.map(|x| x as i128),
        ScalarValue::UInt32(v) => v.map(|x| x as i128),
        ScalarValue::UInt64(v) => v.map(|x| x as i128),
        _ => return Err(()),
    })
}

/// plain copy of an implementation interval: (lower, upper), None = NULL endpoint
#[derive(Clone, Copy, PartialEq, Eq, Debug)]
struct Iv {
    lo: B,
    hi: B,
}
impl Iv {
    fn of(i: &Interval) -> Option<Iv> {
        Some(Iv { lo: from_sv(i.lower()).ok()?, hi: from_sv(i.upper()).ok()? })
    }
    fn has(&self, v: i128) -> bool {
        self.lo.is_none_or(|l| l <= v) && self.hi.is_none_or(|u| v <= u)
    }
    fn show(&self) -> String {
        format!("({} {})", sb(self.lo), sb(self.hi))
    }
}
fn sb(b: B) -> String {
    match b {
        None => "n".into(),
        Some(v) => v.to_string(),
    }
}
/// boolean interval of the implementation as (lower, upper)
fn bool_iv(i: &Interval) -> Option<(bool, bool)> {
    match (i.lower(), i.upper()) {
        (ScalarValue::Boolean(Some(l)), ScalarValue::Boolean(Some(u))) => Some((*l, *u)),
        _ => None,
    }
}
fn show_b(b: (bool, bool)) -> String {
    let f = |x| if x { "t" } else { "f" };
    format!("({} {})", f(b.0), f(b.1))
}
fn mk_bool(b: (bool, bool)) -> Interval {
    Interval::try_new(ScalarValue::Boolean(Some(b.0)), ScalarValue::Boolean(Some(b.1))).unwrap()
}

fn mk(t: T, lo: B, hi: B) -> Option<Interval> {
    Interval::try_new(t.sv(lo), t.sv(hi)).ok()
}

/// endpoint candidates: the boundary set of DESIGN §5 C23 plus seeded random ones
fn endpoints(t: T, rng: &mut Rng, extra: usize) -> Vec<B> {
    let (mn, mx) = (t.min(), t.max());
    let mut e: Vec<B> = vec![None, Some(mn), Some(mn + 1), Some(0), Some(1), Some(mx - 1), Some(mx)];
    if !t.unsigned() {
        e.push(Some(-1));
    } else {
        e.push(Some(2));
    }
    for _ in 0..extra {
        let v = match rng.below(5) {
            0 => rng.range(-12, 12) as i128,
            1 => {
                // around ±sqrt(MAX): products at the overflow edge
                let r = (mx as f64).sqrt() as i128;
                let d = rng.range(-2, 2) as i128;
                if rng.chance(1, 2) { r + d } else { -(r + d) }
            }
            2 => mx / 2 + rng.range(-2, 2) as i128,
            3 => mn / 2 + rng.range(-2, 2) as i128,
            _ => {
                let span = (mx - mn) as u128;
                mn + (((rng.next() as u128) << 64 | rng.next() as u128) % (span + 1)) as i128
            }
        };
        if t.fits(v) {
            e.push(Some(v));
        }
    }
    e.sort();
    e.dedup();
    e
}

fn intervals(t: T, eps: &[B]) -> Vec<(Iv, Interval)> {
    let mut out = vec![];
    for &lo in eps {
        for &hi in eps {
            if let (Some(l), Some(h)) = (lo, hi) {
                if l > h {
                    continue;
                }
            }
            if let Some(i) = mk(t, lo, hi) {
                // the implementation normalises (unsigned NULL lower -> 0): use what it stores
                let iv = Iv::of(&i).unwrap();
                if !out.iter().any(|(x, _): &(Iv, Interval)| *x == iv) {
                    out.push((iv, i));
                }
            }
        }
    }
    out
}

/// concrete members of `i` used by the value oracle
fn members(t: T, i: &Iv, grid: &[i128], exhaustive: bool) -> Vec<i128> {
    if exhaustive && t.bits() == 8 {
        return (t.min()..=t.max()).filter(|v| i.has(*v)).collect();
    }
    let mut v: Vec<i128> = grid.iter().copied().filter(|v| i.has(*v)).collect();
    for b in [i.lo, i.hi].into_iter().flatten() {
        for d in [-1i128, 0, 1] {
            if t.fits(b + d) && i.has(b + d) {
                v.push(b + d);
            }
        }
    }
    v.sort();
    v.dedup();
    v
}

fn grid(t: T, rng: &mut Rng) -> Vec<i128> {
    let (mn, mx) = (t.min(), t.max());
    let mut g = vec![mn, mn + 1, mn + 2, mx - 2, mx - 1, mx, mn / 2, mx / 2, mx / 3];
    for v in -4..=4 {
        g.push(v);
    }
    let r = (mx as f64).sqrt() as i128;
    for d in -1..=1 {
        g.push(r + d);
        g.push(-(r + d));
    }
    for _ in 0..6 {
        let span = (mx - mn) as u128;
        g.push(mn + (((rng.next() as u128) << 64 | rng.next() as u128) % (span + 1)) as i128);
        g.push(rng.range(-130, 130) as i128);
    }
    g.retain(|v| t.fits(*v));
    g.sort();
    g.dedup();
    g
}

#[derive(Clone, Copy, PartialEq, Eq, Debug)]
enum AOp {
    Add,
    Sub,
    Mul,
    Div,
}
impl AOp {
    fn name(self) -> &'static str {
        match self {
            AOp::Add => "add",
            AOp::Sub => "sub",
            AOp::Mul => "mul",
            AOp::Div => "div",
        }
    }
    fn operator(self) -> Operator {
        match self {
            AOp::Add => Operator::Plus,
            AOp::Sub => Operator::Minus,
            AOp::Mul => Operator::Multiply,
            AOp::Div => Operator::Divide,
        }
    }
    /// the mathematical result if it exists and is representable in `t`
    fn exact(self, t: T, a: i128, b: i128) -> Option<i128> {
        let v = match self {
            AOp::Add => a + b,
            AOp::Sub => a - b,
            AOp::Mul => a.checked_mul(b)?,
            AOp::Div => {
                if b == 0 {
                    return None;
                }
                a / b // i128 division truncates toward zero like Rust's fixed-width `/`
            }
        };
        t.fits(v).then_some(v)
    }
    fn apply(self, a: &Interval, b: &Interval) -> datafusion_common::Result<Interval> {
        match self {
            AOp::Add => a.add(b),
            AOp::Sub => a.sub(b),
            AOp::Mul => a.mul(b),
            AOp::Div => a.div(b),
        }
    }
}
const AOPS: [AOp; 4] = [AOp::Add, AOp::Sub, AOp::Mul, AOp::Div];

#[derive(Clone, Copy, PartialEq, Eq, Debug)]
enum COp {
    Eq,
    Gt,
    Ge,
    Lt,
    Le,
}
impl COp {
    fn name(self) -> &'static str {
        match self {
            COp::Eq => "eq",
            COp::Gt => "gt",
            COp::Ge => "ge",
            COp::Lt => "lt",
            COp::Le => "le",
        }
    }
    fn operator(self) -> Operator {
        match self {
            COp::Eq => Operator::Eq,
            COp::Gt => Operator::Gt,
            COp::Ge => Operator::GtEq,
            COp::Lt => Operator::Lt,
            COp::Le => Operator::LtEq,
        }
    }
    fn holds(self, a: i128, b: i128) -> bool {
        match self {
            COp::Eq => a == b,
            COp::Gt => a > b,
            COp::Ge => a >= b,
            COp::Lt => a < b,
            COp::Le => a <= b,
        }
    }
    fn apply(self, a: &Interval, b: &Interval) -> datafusion_common::Result<Interval> {
        match self {
            COp::Eq => a.equal(b),
            COp::Gt => a.gt(b),
            COp::Ge => a.gt_eq(b),
            COp::Lt => a.lt(b),
            COp::Le => a.lt_eq(b),
        }
    }
}
const COPS: [COp; 5] = [COp::Eq, COp::Gt, COp::Ge, COp::Lt, COp::Le];

fn contains0(i: &Iv) -> bool {
    i.has(0)
}

/// classification of an arithmetic soundness failure into the specific defect classes that were
/// reproduced by hand (notes/C23.md); anything else gets the generic signature.
fn arith_failure_class(t: T, op: AOp, i: &Iv, j: &Iv) -> &'static str {
    if op == AOp::Mul && !t.unsigned() && contains0(i) && contains0(j) {
        // both operands contain zero and some corner product overflows
        let c = [(i.lo, j.hi), (j.lo, i.hi), (i.hi, j.hi), (i.lo, j.lo)];
        if c.iter().any(|(x, y)| matches!((x, y), (Some(x), Some(y)) if !x.checked_mul(*y).is_some_and(|v| t.fits(v)))) {
            return "mul-multi-zero-overflow";
        }
    }
    if op == AOp::Div && !t.unsigned() && (i.hi == Some(0) || j.hi == Some(0)) {
        return "div-endpoint-zero";
    }
    "arith-unsound"
}

fn opt_pair(r: &datafusion_common::Result<Option<(Interval, Interval)>>) -> Option<Option<(Iv, Iv)>> {
    match r {
        Err(_) => None,
        Ok(None) => Some(None),
        Ok(Some((a, b))) => Some(Some((Iv::of(a)?, Iv::of(b)?))),
    }
}
fn show_opt_pair(p: &Option<Option<(Iv, Iv)>>) -> String {
    match p {
        None => "err".into(),
        Some(None) => "none".into(),
        Some(Some((a, b))) => format!("({} {})", a.show(), b.show()),
    }
}

pub fn run(run: &mut Run, args: &Args) {
    let mut rng = Rng::new(args.seed);
    let thorough = run.thorough();
    if std::env::var("C23_LOUD").is_err() { hutil::quiet_panics(); }
    for t in ALL_T {
        let extra = if t.bits() == 8 { run.budget(6, 8) } else { run.budget(3, 8) } as usize;
        let eps = endpoints(t, &mut rng, extra);
        let ivs = intervals(t, &eps);
        let g = grid(t, &mut rng);
        run.add(&format!("intervals/{}", t.name()), ivs.len() as u64);
        let mems: Vec<Vec<i128>> = ivs.iter().map(|(iv, _)| members(t, iv, &g, thorough)).collect();

        for (xi, (i, ii)) in ivs.iter().enumerate() {
            for (xj, (j, jj)) in ivs.iter().enumerate() {
                let bounded = |x: &Iv| x.lo.is_some() && x.hi.is_some();
                let nontrivial = bounded(i) || bounded(j);
                // ---------------- arithmetic
                for op in AOPS {
                    let (ii2, jj2) = (ii.clone(), jj.clone());
                    let res = hutil::catch(std::panic::AssertUnwindSafe(move || op.apply(&ii2, &jj2)));
                    let r = match res {
                        Ok(Ok(r)) => Iv::of(&r),
                        Ok(Err(_)) => None,
                        Err(_) => {
                            run.oracle(false, &format!("panic arith ty={} op={} I={} J={}", t.name(), op.name(), i.show(), j.show()), "panic");
                            None
                        }
                    };
                    let rs = r.map(|x| x.show()).unwrap_or("err".into());
                    run.case("arith", &format!("({} {} {} {} {})", t.name(), op.name(), i.show(), j.show(), rs), "ok", nontrivial);
                    run.count(&format!("arith/{}", op.name()));
                    let Some(r) = r else {
                        run.count("arith/err");
                        continue;
                    };
                    if r.lo.is_none() && r.hi.is_none() {
                        run.count("arith/result-unbounded");
                    }
                    // direct oracle on concrete values
                    let mut bad: Option<(i128, i128, i128)> = None;
                    let mut n = 0u64;
                    'o: for &a in &mems[xi] {
                        for &b in &mems[xj] {
                            if let Some(v) = op.exact(t, a, b) {
                                n += 1;
                                if !r.has(v) {
                                    bad = Some((a, b, v));
                                    break 'o;
                                }
                            }
                        }
                    }
                    run.add("oracle/value-pairs", n);
                    let class = arith_failure_class(t, op, i, j);
                    run.oracle(
                        bad.is_none(),
                        &format!("{} ty={} op={} I={} J={}", class, t.name(), op.name(), i.show(), j.show()),
                        &format!(
                            "Interval::{}({}, {}) over {} = {} but {:?} is a representable result of members (a, b, a op b)",
                            op.name(), i.show(), j.show(), t.name(), r.show(), bad
                        ),
                    );
                }
                // ---------------- comparisons
                for op in COPS {
                    let r = op.apply(ii, jj).ok().and_then(|r| bool_iv(&r));
                    let rs = r.map(show_b).unwrap_or("err".into());
                    run.case("cmp", &format!("({} {} {} {} {})", t.name(), op.name(), i.show(), j.show(), rs), "ok", nontrivial);
                    if let Some(r) = r {
                        run.count(&format!("cmp/result{}", show_b(r)));
                        let mut bad = None;
                        'c: for &a in &mems[xi] {
                            for &b in &mems[xj] {
                                let v = op.holds(a, b);
                                // v ∈ [r.0, r.1] over false<true
                                if !(r.0 <= v && v <= r.1) {
                                    bad = Some((a, b));
                                    break 'c;
                                }
                            }
                        }
                        run.oracle(
                            bad.is_none(),
                            &format!("cmp-unsound ty={} op={} I={} J={}", t.name(), op.name(), i.show(), j.show()),
                            &format!("{} {} {} = {} but members {:?} evaluate outside", i.show(), op.name(), j.show(), show_b(r), bad),
                        );
                    }
                }
                // ---------------- intersect / union / contains
                {
                    let r = ii.intersect(jj).ok().map(|o| o.and_then(|x| Iv::of(&x)));
                    let rs = match &r {
                        None => "err".to_string(),
                        Some(None) => "none".to_string(),
                        Some(Some(x)) => x.show(),
                    };
                    run.case("isect", &format!("({} {} {} {})", t.name(), i.show(), j.show(), rs), "ok", nontrivial);
                    if let Some(r) = &r {
                        let bad = mems[xi].iter().find(|a| j.has(**a) && !r.is_some_and(|x| x.has(**a)));
                        run.oracle(bad.is_none(), &format!("intersect-unsound ty={} I={} J={}", t.name(), i.show(), j.show()), &format!("intersect = {rs} drops common member {bad:?}"));
                    }
                    let r = ii.union(jj).ok().and_then(|x| Iv::of(&x));
                    let rs = r.map(|x| x.show()).unwrap_or("err".into());
                    run.case("union", &format!("({} {} {} {})", t.name(), i.show(), j.show(), rs), "ok", nontrivial);
                    if let Some(r) = &r {
                        let bad = mems[xi].iter().chain(mems[xj].iter()).find(|a| !r.has(**a));
                        run.oracle(bad.is_none(), &format!("union-unsound ty={} I={} J={}", t.name(), i.show(), j.show()), &format!("union = {rs} drops member {bad:?}"));
                    }
                    let r = ii.contains(jj).ok().and_then(|r| bool_iv(&r));
                    let rs = r.map(show_b).unwrap_or("err".into());
                    run.case("contains", &format!("({} {} {} {})", t.name(), i.show(), j.show(), rs), "ok", nontrivial);
                    if let Some(r) = r {
                        // TRUE => every member of J is in I; FALSE => no common member
                        let all_in = mems[xj].iter().all(|b| i.has(*b));
                        let any_in = mems[xj].iter().any(|b| i.has(*b)) || mems[xi].iter().any(|a| j.has(*a));
                        let ok = if r == (true, true) { all_in } else if r == (false, false) { !any_in } else { true };
                        run.oracle(ok, &format!("contains-unsound ty={} I={} J={}", t.name(), i.show(), j.show()), &format!("contains = {rs}"));
                    }
                }
                // ---------------- satisfy_greater
                for strict in [true, false] {
                    let r = opt_pair(&satisfy_greater(ii, jj, strict));
                    run.case("sg", &format!("({} {} {} {} {})", t.name(), if strict { "t" } else { "f" }, i.show(), j.show(), show_opt_pair(&r)), "ok", nontrivial);
                    if let Some(r) = &r {
                        run.count(if r.is_some() { "sg/some" } else { "sg/infeasible" });
                        let mut bad = None;
                        'g: for &a in &mems[xi] {
                            for &b in &mems[xj] {
                                if (strict && a > b) || (!strict && a >= b) {
                                    let kept = r.is_some_and(|(l, rr)| l.has(a) && rr.has(b));
                                    if !kept {
                                        bad = Some((a, b));
                                        break 'g;
                                    }
                                }
                            }
                        }
                        run.oracle(bad.is_none(), &format!("satisfy-greater-unsound ty={} strict={} L={} R={}", t.name(), strict, i.show(), j.show()), &format!("satisfy_greater = {} removes satisfying assignment {:?}", show_opt_pair(&Some(*r)), bad));
                    }
                }
            }
        }

        // ---------------- propagate_comparison / propagate_arithmetic on sampled triples
        let n_prop = run.budget(1500, 20000);
        for _ in 0..n_prop {
            let xi = rng.below(ivs.len() as u64) as usize;
            let xj = rng.below(ivs.len() as u64) as usize;
            let (i, ii) = &ivs[xi];
            let (j, jj) = &ivs[xj];
            // comparison
            let op = *rng.pick(&COPS);
            let parent = *rng.pick(&[(true, true), (false, false), (false, true), (true, true), (false, false)]);
            let r = opt_pair(&propagate_comparison(&op.operator(), &mk_bool(parent), ii, jj));
            run.case("pc", &format!("({} {} {} {} {} {})", t.name(), op.name(), show_b(parent), i.show(), j.show(), show_opt_pair(&r)), "ok", parent.0 == parent.1);
            run.count(&format!("pc/parent{}", show_b(parent)));
            if let Some(r) = &r {
                // `None` for an uncertain parent / `= false` means "nothing to propagate" in the
                // callers' reading only for ... no: BinaryExpr maps it to infeasible. We judge the
                // documented contract of the function itself for definite parents only.
                if parent.0 == parent.1 && !(op == COp::Eq && !parent.0) {
                    let mut bad = None;
                    'p: for &a in &mems[xi] {
                        for &b in &mems[xj] {
                            if op.holds(a, b) == parent.0 {
                                let kept = r.is_some_and(|(l, rr)| l.has(a) && rr.has(b));
                                if !kept {
                                    bad = Some((a, b));
                                    break 'p;
                                }
                            }
                        }
                    }
                    let class = if !parent.0 { "propagate-comparison-false-parent-swapped" } else { "propagate-comparison-unsound" };
                    run.oracle(bad.is_none(), &format!("{} ty={} op={} parent={} L={} R={}", class, t.name(), op.name(), show_b(parent), i.show(), j.show()), &format!("result {} removes satisfying assignment {:?}", show_opt_pair(&Some(*r)), bad));
                }
            }
            // arithmetic
            let xp = rng.below(ivs.len() as u64) as usize;
            let (p, pp) = &ivs[xp];
            let op = *rng.pick(&AOPS);
            let (pp2, ii2, jj2) = (pp.clone(), ii.clone(), jj.clone());
            let res = hutil::catch(std::panic::AssertUnwindSafe(move || propagate_arithmetic(&op.operator(), &pp2, &ii2, &jj2)));
            let r = match res {
                Ok(r) => opt_pair(&r),
                Err(_) => {
                    // debug_assert in Interval::intersect fed with an inverted interval produced by div
                    run.count("pa/panic-in-impl");
                    None
                }
            };
            run.case("pa", &format!("({} {} {} {} {} {})", t.name(), op.name(), p.show(), i.show(), j.show(), show_opt_pair(&r)), "ok", true);
            run.count(&format!("pa/{}", op.name()));
            if let Some(r) = &r {
                run.count(if r.is_some() { "pa/some" } else { "pa/infeasible" });
                let mut bad = None;
                'q: for &a in &mems[xi] {
                    for &b in &mems[xj] {
                        if let Some(v) = op.exact(t, a, b) {
                            if p.has(v) {
                                let kept = r.is_some_and(|(l, rr)| l.has(a) && rr.has(b));
                                if !kept {
                                    bad = Some((a, b, v));
                                    break 'q;
                                }
                            }
                        }
                    }
                }
                let class = match (op, bad) {
                    // x / y = p propagated as x ∈ y * p (exact only without truncation), and through mul/div
                    (AOp::Div, _) => "propagate-arithmetic-int-div",
                    // x * 0 = 0 for every x, but p / [0, k] only covers non-zero divisors
                    (AOp::Mul, Some((a, b, _))) if a == 0 || b == 0 => "propagate-arithmetic-mul-zero-factor",
                    (AOp::Mul, Some(_)) if !t.unsigned() => {
                        // the inverse runs through `div`: is one of its operands an interval with upper endpoint 0?
                        let left2 = hutil::catch(std::panic::AssertUnwindSafe(|| pp.div(jj).ok().and_then(|q| q.intersect(ii).ok().flatten())))
                            .ok()
                            .flatten()
                            .and_then(|x| Iv::of(&x));
                        if p.hi == Some(0) || j.hi == Some(0) || left2.is_some_and(|x| x.hi == Some(0)) {
                            "propagate-arithmetic-mul-div-endpoint-zero"
                        } else {
                            "propagate-arithmetic-unsound"
                        }
                    }
                    _ => "propagate-arithmetic-unsound",
                };
                run.oracle(bad.is_none(), &format!("{} ty={} op={} P={} L={} R={}", class, t.name(), op.name(), p.show(), i.show(), j.show()), &format!("result {} removes satisfying assignment (x, y, x op y) = {:?}", show_opt_pair(&Some(*r)), bad));
            }
        }
    }
    // ---------------- boolean connectives: the whole table
    let bs = [(false, false), (false, true), (true, true)];
    for a in bs {
        let ia = mk_bool(a);
        let r = ia.not().ok().and_then(|r| bool_iv(&r));
        run.case("bool", &format!("(not {} {})", show_b(a), r.map(show_b).unwrap_or("err".into())), "ok", true);
        if let Some(r) = r {
            let ok = [false, true].iter().filter(|v| a.0 <= **v && **v <= a.1).all(|v| r.0 <= !*v && !*v <= r.1);
            run.oracle(ok, &format!("not-unsound A={}", show_b(a)), "");
        }
        for b in bs {
            let ib = mk_bool(b);
            for (name, f, g) in [
                ("and", ia.and(&ib), (|x: bool, y: bool| x && y) as fn(bool, bool) -> bool),
                ("or", ia.or(&ib), (|x: bool, y: bool| x || y) as fn(bool, bool) -> bool),
            ] {
                let r = f.ok().and_then(|r| bool_iv(&r));
                run.case("bool", &format!("({} {} {} {})", name, show_b(a), show_b(b), r.map(show_b).unwrap_or("err".into())), "ok", true);
                if let Some(r) = r {
                    let mut ok = true;
                    for x in [false, true] {
                        for y in [false, true] {
                            if a.0 <= x && x <= a.1 && b.0 <= y && y <= b.1 {
                                let v = g(x, y);
                                ok &= r.0 <= v && v <= r.1;
                            }
                        }
                    }
                    run.oracle(ok, &format!("{name}-unsound A={} B={}", show_b(a), show_b(b)), "");
                }
            }
        }
    }
    let _ = std::panic::take_hook();
    run.note("endpoint sets: {NULL, MIN, MIN+1, -1|2, 0, 1, MAX-1, MAX} + seeded random endpoints (small, ±sqrt(MAX), MAX/2, MIN/2, uniform); value oracle: boundary grid + endpoints±1 (quick), every 8-bit value (thorough)");
}
