//! C38 — SQL generated from a plan means the same as the plan.
//!
//! Every `plangen` statement, as planned and as optimised: `plan_to_sql` (default dialect) →
//! text → `SessionContext::sql` in a FRESH session.  Implementation-level oracle (decides a
//! violation): both plans executed — same rows (list when ordered, bag otherwise), logically
//! equivalent output types (Utf8 ~ LargeUtf8 ~ Utf8View).  Text the engine itself produced but
//! cannot plan again is a violation too.  The other dialects' output must at least parse with
//! sqlparser's dialect of the same name.  BEFORE / AFTER go to the Lean judge of C35.
use datafusion::sql::sqlparser::dialect as sp;
use datafusion::sql::sqlparser::parser::Parser;
use datafusion_expr::LogicalPlan;
use datafusion_sql::unparser::dialect::{
    BigQueryDialect, DefaultDialect, Dialect, DuckDBDialect, MySqlDialect, PostgreSqlDialect, SqliteDialect,
};
use datafusion_sql::unparser::{Unparser, plan_to_sql};
use hutil::{Args, Rng, Run};

use crate::c35::judge_case;
use crate::plangen::{DataSet, Gen};
use crate::rt::{self, SchemaLevel};

fn first_line(e: &str) -> String {
    e.lines().next().unwrap_or("").chars().take(200).collect()
}

pub fn run(run: &mut Run, args: &Args) {
    hutil::quiet_panics();
    let mut rng0 = Rng::new(args.seed);
    let rng = &mut rng0;
    let rtm = rt::runtime();
    let n = run.budget(170, 4000);
    let mut ds = DataSet::generate(rng);
    let mut ds2 = DataSet::generate(rng);
    for i in 0..n {
        if i % 8 == 0 {
            ds = DataSet::generate(rng);
            ds2 = DataSet::generate(rng);
        }
        let q = Gen::new(rng).statement();
        let ctx = ds.fresh_ctx(DataSet::default_cfg());
        let plan0 = match rtm.block_on(ctx.state().create_logical_plan(&q.sql)) {
            Ok(p) => p,
            Err(_) => {
                run.count("gen_rejected");
                continue;
            }
        };
        run.count("statements");
        for t in &q.tags {
            run.count(&format!("sql:{t}"));
        }
        let mut variants: Vec<(&'static str, LogicalPlan)> = vec![("raw", plan0.clone())];
        if let Ok(p) = ctx.state().optimize(&plan0) {
            variants.push(("opt", p));
        }
        for (vname, plan) in variants {
            let sig_base = format!("{vname} sql=`{}` data=`{}`", q.sql, ds.describe());
            let text = match hutil::catch(std::panic::AssertUnwindSafe(|| plan_to_sql(&plan).map(|s| s.to_string()))) {
                Ok(Ok(t)) => t,
                Ok(Err(e)) => {
                    run.count("unparser_rejected");
                    run.count(&format!("unparser_rejected:{}", first_line(&e.to_string()).chars().take(60).collect::<String>()));
                    continue;
                }
                Err(p) => {
                    run.oracle(false, &format!("unparser-panic {sig_base}"), &p);
                    continue;
                }
            };
            run.count(&format!("plans_{vname}"));
            if run.samples.len() < 3 {
                run.note(&format!("{vname}: {} ==> {text}", q.sql));
            }
            let ctx2 = ds.fresh_ctx(DataSet::default_cfg());
            let after = match rtm.block_on(ctx2.state().create_logical_plan(&text)) {
                Ok(p) => p,
                Err(e) => {
                    run.oracle(false, &format!("replan-failed {sig_base}"), &format!("generated SQL `{text}` does not plan: {}", first_line(&e.to_string())));
                    continue;
                }
            };
            let ob = rtm.block_on(rt::run_logical(&ctx, &plan));
            let oa = rtm.block_on(rt::run_logical(&ctx2, &after));
            match rt::same_outcome(&ob, &oa, q.ordered, SchemaLevel::LogicalTypes) {
                Ok(()) => run.oracle(true, "", ""),
                Err((what, detail)) => run.oracle(
                    false,
                    &format!("result-differs:{what} {sig_base}"),
                    &format!("generated SQL `{text}`: {detail}\\nbefore:\\n{}\\nafter:\\n{}", plan.display_indent(), after.display_indent()),
                ),
            }
            if let (rt::Outcome::Rows { schema: a, .. }, rt::Outcome::Rows { schema: b, .. }) = (&ob, &oa) {
                if a.iter().zip(b.iter()).any(|(x, y)| x.0 != y.0) {
                    run.count("names_changed");
                }
            }
            // the Lean judge is asked only when the implementation-level oracle saw no difference
            // (a case that already failed is reported under its own signature)
            if rt::same_outcome(&ob, &oa, q.ordered, SchemaLevel::LogicalTypes).is_ok() {
                judge_case(run, &plan, &after, &[&ds, &ds2], q.tags.len() >= 2);
            } else {
                run.count("judge_skipped_oracle_failed");
            }
            // other dialects: the text must parse
            if vname == "raw" {
                let dialects: Vec<(&str, Box<dyn Dialect>, Box<dyn sp::Dialect>)> = vec![
                    ("default", Box::new(DefaultDialect {}), Box::new(sp::GenericDialect {})),
                    ("postgres", Box::new(PostgreSqlDialect {}), Box::new(sp::PostgreSqlDialect {})),
                    ("mysql", Box::new(MySqlDialect {}), Box::new(sp::MySqlDialect {})),
                    ("sqlite", Box::new(SqliteDialect {}), Box::new(sp::SQLiteDialect {})),
                    ("duckdb", Box::new(DuckDBDialect::new()), Box::new(sp::DuckDbDialect {})),
                    ("bigquery", Box::new(BigQueryDialect {}), Box::new(sp::BigQueryDialect {})),
                ];
                for (dname, ud, pd) in dialects {
                    let un = Unparser::new(ud.as_ref());
                    match hutil::catch(std::panic::AssertUnwindSafe(|| un.plan_to_sql(&plan).map(|s| s.to_string()))) {
                        Ok(Ok(t)) => {
                            let parsed = Parser::parse_sql(pd.as_ref(), &t);
                            run.oracle(parsed.is_ok(), &format!("dialect-unparseable {dname} {sig_base}"), &format!("`{t}`: {:?}", parsed.err()));
                            run.count(&format!("dialect:{dname}"));
                        }
                        Ok(Err(_)) => run.count(&format!("dialect_rejected:{dname}")),
                        Err(p) => run.oracle(false, &format!("unparser-panic {dname} {sig_base}"), &p),
                    }
                }
            }
        }
    }
}
