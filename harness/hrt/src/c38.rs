//! C38 — SQL generated from a plan means the same as the plan.
//!
//! Every `plangen` statement, as planned and as optimised: `plan_to_sql` (default dialect) →
//! text → `SessionContext::sql` in a FRESH session.  Implementation-level oracle (decides a
//! violation): both plans executed — same rows (list when ordered, bag otherwise), logically
//! equivalent output types (Utf8 ~ LargeUtf8 ~ Utf8View).  Text the engine itself produced but
//! cannot plan again is a violation too.  The other dialects' output must at least parse with
//! sqlparser's dialect of the same name.  BEFORE / AFTER go to the Lean judge of C35.
use datafusion::sql::sqlparser::dialect as sp;
use datafusion::sql::sqlparser::parser::Parser;
use datafusion_expr::LogicalPlan;
use datafusion_sql::unparser::dialect::{
    BigQueryDialect, DefaultDialect, Dialect, DuckDBDialect, MySqlDialect, PostgreSqlDialect, SqliteDialect,
};
use datafusion_sql::unparser::{Unparser, plan_to_sql};
use hutil::{Args, Rng, Run};

use crate::c35::judge_case;
use crate::plangen::{DataSet, Gen};
use crate::rt::{self, SchemaLevel};

fn first_line(e: &str) -> String {
    e.lines().next().unwrap_or("").chars().take(200).collect()
}

/// Features of the ORIGINAL plan that trigger known unparser defects (notes/C38.md); they go into the
/// signature of a failing case so that known_findings.json only matches failures they explain.
fn known_triggers(plan: &LogicalPlan) -> Vec<&'static str> {
    use datafusion_common::JoinType;
    use datafusion_common::tree_node::{TreeNode, TreeNodeRecursion};
    use datafusion_expr::Expr;
    let mut out: Vec<&'static str> = vec![];
    let mut add = |t: &'static str, out: &mut Vec<&'static str>| {
        if !out.contains(&t) {
            out.push(t);
        }
    };
    let mut has_sort = false;
    let mut agg_over_derived = false;
    let _ = plan.apply_with_subqueries(|p| {
        match p {
            LogicalPlan::Sort(_) => has_sort = true,
            _ => {}
        }
        if let LogicalPlan::Aggregate(a) = p {
            let mut c: &LogicalPlan = a.input.as_ref();
            while let LogicalPlan::Filter(f) = c {
                c = f.input.as_ref();
            }
            if let LogicalPlan::SubqueryAlias(sa) = c {
                if !matches!(sa.input.as_ref(), LogicalPlan::TableScan(_)) {
                    agg_over_derived = true;
                }
            }
        }
        match p {
            LogicalPlan::Join(j) => {
                if matches!(j.join_type, JoinType::LeftSemi | JoinType::LeftAnti | JoinType::RightSemi | JoinType::RightAnti | JoinType::LeftMark | JoinType::RightMark) {
                    add("semi-anti-join", &mut out);
                }
            }
            LogicalPlan::Union(u) => {
                // a set operation directly over another one (`(A UNION B) UNION ALL C`)
                for i in &u.inputs {
                    let mut c: &LogicalPlan = i.as_ref();
                    while let LogicalPlan::Projection(p) = c {
                        c = p.input.as_ref();
                    }
                    if matches!(c, LogicalPlan::Union(_) | LogicalPlan::Distinct(_)) {
                        add("nested-setop", &mut out);
                    }
                }
            }
            LogicalPlan::Aggregate(a) => {
                if a.aggr_expr.iter().any(|e| matches!(e.clone().unalias(), Expr::AggregateFunction(f) if f.params.filter.is_some())) {
                    add("aggregate-filter", &mut out);
                }
                let keys: Vec<String> = a.group_expr.iter().map(|e| format!("{}", e.clone().unalias())).collect();
                let mut k2 = keys.clone();
                k2.sort();
                k2.dedup();
                if k2.len() != keys.len() {
                    add("duplicate-group-key", &mut out);
                }
                if a.group_expr.iter().any(|e| matches!(e.clone().unalias(), Expr::Literal(..))) {
                    add("constant-group-key", &mut out);
                }
            }
            _ => {}
        }
        for e in p.expressions() {
            let _ = e.apply(|x| {
                match x {
                    Expr::IsNull(a) | Expr::IsNotNull(a) | Expr::IsTrue(a) | Expr::IsFalse(a) | Expr::IsUnknown(a) | Expr::IsNotTrue(a) | Expr::IsNotFalse(a) | Expr::IsNotUnknown(a) => {
                        if matches!(a.as_ref(), Expr::Not(_)) {
                            add("is-of-not", &mut out);
                        }
                    }
                    Expr::Negative(a) => match a.as_ref() {
                        Expr::Negative(_) => add("double-negative", &mut out),
                        Expr::Literal(v, _) if v.to_string().starts_with('-') => add("double-negative", &mut out),
                        _ => {}
                    },
                    _ => {}
                }
                Ok(TreeNodeRecursion::Continue)
            });
        }
        Ok(TreeNodeRecursion::Continue)
    });
    if has_sort && agg_over_derived {
        add("sorted-aggregate-over-derived-table", &mut out);
    }
    out
}

fn err_kind(msg: &str) -> &'static str {
    if msg.contains("SELECT * with no tables") {
        "select-star-no-table"
    } else if msg.contains("No field named") {
        "unknown-field"
    } else if msg.contains("Ambiguous reference") || msg.contains("would be ambiguous") {
        "ambiguous-field"
    } else if msg.contains("ParserError") {
        "parse-error"
    } else if msg.contains("Cannot find column with position") {
        "bad-ordinal"
    } else {
        "other"
    }
}

pub fn run(run: &mut Run, args: &Args) {
    hutil::quiet_panics();
    let mut rng0 = Rng::new(args.seed);
    let rng = &mut rng0;
    let rtm = rt::runtime();
    let n = run.budget(170, 4000);
    let mut ds = DataSet::generate(rng);
    let mut ds2 = DataSet::generate(rng);
    for i in 0..n {
        if i % 8 == 0 {
            ds = DataSet::generate(rng);
            ds2 = DataSet::generate(rng);
        }
        let q = Gen::new(rng).statement();
        let ctx = ds.fresh_ctx(DataSet::default_cfg());
        let plan0 = match rtm.block_on(ctx.state().create_logical_plan(&q.sql)) {
            Ok(p) => p,
            Err(_) => {
                run.count("gen_rejected");
                continue;
            }
        };
        run.count("statements");
        for t in &q.tags {
            run.count(&format!("sql:{t}"));
        }
        let mut variants: Vec<(&'static str, LogicalPlan)> = vec![("raw", plan0.clone())];
        if let Ok(p) = ctx.state().optimize(&plan0) {
            variants.push(("opt", p));
        }
        for (vname, plan) in variants {
            let trig = known_triggers(&plan);
            let trig_s = if trig.is_empty() { "no-known-trigger".to_string() } else { trig.join("+") };
            let sig_base = format!("[{trig_s}] {vname} sql=`{}` data=`{}`", q.sql, ds.describe());
            let text = match hutil::catch(std::panic::AssertUnwindSafe(|| plan_to_sql(&plan).map(|s| s.to_string()))) {
                Ok(Ok(t)) => t,
                Ok(Err(e)) => {
                    run.count("unparser_rejected");
                    run.count(&format!("unparser_rejected:{}", first_line(&e.to_string()).chars().take(60).collect::<String>()));
                    continue;
                }
                Err(p) => {
                    run.oracle(false, &format!("unparser-panic {sig_base}"), &p);
                    continue;
                }
            };
            run.count(&format!("plans_{vname}"));
            if run.samples.len() < 3 {
                run.note(&format!("{vname}: {} ==> {text}", q.sql));
            }
            let ctx2 = ds.fresh_ctx(DataSet::default_cfg());
            let after = match rtm.block_on(ctx2.state().create_logical_plan(&text)) {
                Ok(p) => p,
                Err(e) => {
                    let msg = e.to_string();
                    run.oracle(false, &format!("replan-failed:{} {sig_base}", err_kind(&msg)), &format!("generated SQL `{text}` does not plan: {}", first_line(&msg)));
                    continue;
                }
            };
            let ob = rtm.block_on(rt::run_logical(&ctx, &plan));
            if matches!(ob, rt::Outcome::Err(_)) {
                // the original does not return rows: nothing the generated SQL has to reproduce
                run.count("original_fails");
                continue;
            }
            let oa = rtm.block_on(rt::run_logical(&ctx2, &after));
            match rt::same_outcome(&ob, &oa, q.ordered, SchemaLevel::LogicalTypes) {
                Ok(()) => run.oracle(true, "", ""),
                Err((what, detail)) => run.oracle(
                    false,
                    &format!("result-differs:{what} {sig_base}"),
                    &format!("generated SQL `{text}`: {detail}\\nbefore:\\n{}\\nafter:\\n{}", plan.display_indent(), after.display_indent()),
                ),
            }
            if let (rt::Outcome::Rows { schema: a, .. }, rt::Outcome::Rows { schema: b, .. }) = (&ob, &oa) {
                if a.iter().zip(b.iter()).any(|(x, y)| x.0 != y.0) {
                    run.count("names_changed");
                }
            }
            // the Lean judge is asked only when the implementation-level oracle saw no difference
            // (a case that already failed is reported under its own signature)
            if rt::same_outcome(&ob, &oa, q.ordered, SchemaLevel::LogicalTypes).is_ok() {
                judge_case(run, &plan, &after, &[&ds], q.tags.len() >= 2);
            } else {
                run.count("judge_skipped_oracle_failed");
            }
            // other dialects: the text must parse
            if vname == "raw" {
                let dialects: Vec<(&str, Box<dyn Dialect>, Box<dyn sp::Dialect>)> = vec![
                    ("default", Box::new(DefaultDialect {}), Box::new(sp::GenericDialect {})),
                    ("postgres", Box::new(PostgreSqlDialect {}), Box::new(sp::PostgreSqlDialect {})),
                    ("mysql", Box::new(MySqlDialect {}), Box::new(sp::MySqlDialect {})),
                    ("sqlite", Box::new(SqliteDialect {}), Box::new(sp::SQLiteDialect {})),
                    ("duckdb", Box::new(DuckDBDialect::new()), Box::new(sp::DuckDbDialect {})),
                    ("bigquery", Box::new(BigQueryDialect {}), Box::new(sp::BigQueryDialect {})),
                ];
                for (dname, ud, pd) in dialects {
                    let un = Unparser::new(ud.as_ref());
                    match hutil::catch(std::panic::AssertUnwindSafe(|| un.plan_to_sql(&plan).map(|s| s.to_string()))) {
                        Ok(Ok(t)) => {
                            let parsed = Parser::parse_sql(pd.as_ref(), &t);
                            run.oracle(parsed.is_ok(), &format!("dialect-unparseable {dname} {sig_base}"), &format!("`{t}`: {:?}", parsed.err()));
                            run.count(&format!("dialect:{dname}"));
                        }
                        Ok(Err(_)) => run.count(&format!("dialect_rejected:{dname}")),
                        Err(p) => run.oracle(false, &format!("unparser-panic {dname} {sig_base}"), &p),
                    }
                }
            }
        }
    }
}
