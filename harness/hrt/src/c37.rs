//! C37 — Substrait round trip preserves query results.
//!
//! Every `plangen` statement, as planned and as optimised: `to_substrait_plan` → prost bytes →
//! `Plan::decode` → `from_substrait_plan` in a FRESH SessionContext.  Implementation-level oracle
//! (decides a violation): both plans executed — same rows (same list when ordered, same bag
//! otherwise) and the same output types.  The exported BEFORE / AFTER structures go to the Lean
//! judge of C35 (`same`: proved sound; otherwise evaluation of both on the case's data — a test).
//! Plans the producer rejects are outside the quantifier ("plans … the producer accepts") and are
//! counted; a plan the producer accepts but the consumer cannot read back is reported.
use datafusion_expr::LogicalPlan;
use datafusion_substrait::logical_plan::consumer::from_substrait_plan;
use datafusion_substrait::logical_plan::producer::to_substrait_plan;
use datafusion_substrait::substrait::proto::Plan;
use hutil::{Args, Rng, Run};
use prost::Message;

use crate::c35::judge_case;
use crate::plangen::{DataSet, Gen};
use crate::rt::{self, SchemaLevel};

fn first_line(e: &str) -> String {
    e.lines().next().unwrap_or("").chars().take(160).collect()
}

/// an error that only says "this construct is not implemented" (coverage, not a wrong answer)
fn is_not_impl(msg: &str) -> bool {
    let m = msg.to_lowercase();
    m.contains("not implemented") || m.contains("not supported") || m.contains("unsupported") || m.contains("not yet")
}

/// Features of the ORIGINAL plan that trigger known Substrait round-trip defects (notes/C37.md).
/// A failing case carries the features in its signature, so that only failures explained by a
/// recorded defect are matched by known_findings.json; a failure without any of them stays a violation.
fn known_triggers(plan: &LogicalPlan) -> Vec<&'static str> {
    use datafusion_common::tree_node::{TreeNode, TreeNodeRecursion};
    use datafusion_expr::{Expr, Operator};
    let mut tables: Vec<String> = vec![];
    let mut out: Vec<&'static str> = vec![];
    let mut add = |t: &'static str, out: &mut Vec<&'static str>| {
        if !out.contains(&t) {
            out.push(t);
        }
    };
    let _ = plan.apply_with_subqueries(|p| {
        // two columns of one node that differ only by their qualifier (`x1.h`, `y2.h`)
        let mut ns: Vec<&str> = p.schema().fields().iter().map(|f| f.name().as_str()).collect();
        let n0 = ns.len();
        ns.sort();
        ns.dedup();
        if ns.len() != n0 {
            add("same-column-name-twice", &mut out);
        }
        match p {
            LogicalPlan::TableScan(t) => tables.push(t.table_name.table().to_string()),
            LogicalPlan::Join(j) => {
                if j.null_aware {
                    add("null-aware-anti-join", &mut out);
                }
                if j.on.is_empty() && j.filter.is_none() {
                    add("join-without-condition", &mut out);
                }
                let mut distinct_from = j.null_equality == datafusion_common::NullEquality::NullEqualsNull;
                for e in j.filter.iter().chain(j.on.iter().flat_map(|(a, b)| [a, b])) {
                    let _ = e.apply(|x| {
                        if let Expr::BinaryExpr(b) = x {
                            if matches!(b.op, Operator::IsDistinctFrom | Operator::IsNotDistinctFrom) {
                                distinct_from = true;
                            }
                        }
                        Ok(TreeNodeRecursion::Continue)
                    });
                }
                if distinct_from {
                    add("distinct-from-in-join", &mut out);
                }
                // an equality conjunct of the join filter whose two sides come from the SAME input
                // (`t2.f = t2.f`): the consumer turns it into a join key
                if let Some(f) = &j.filter {
                    for c in datafusion_expr::utils::split_conjunction(f) {
                        if let Expr::BinaryExpr(b) = c {
                            if b.op == Operator::Eq {
                                let cols: Vec<_> = b.left.column_refs().into_iter().chain(b.right.column_refs()).collect();
                                let all_in = |s: &datafusion_common::DFSchema| !cols.is_empty() && cols.iter().all(|c| s.has_column(c));
                                if all_in(j.left.schema()) || all_in(j.right.schema()) {
                                    add("one-sided-equality-in-join", &mut out);
                                }
                            }
                        }
                    }
                }
            }
            LogicalPlan::Union(_) => add("union", &mut out),
            LogicalPlan::Aggregate(a) => {
                let keys: Vec<String> = a.group_expr.iter().map(|e| format!("{}", e.clone().unalias())).collect();
                let mut k2 = keys.clone();
                k2.sort();
                k2.dedup();
                if k2.len() != keys.len() {
                    add("duplicate-group-key", &mut out);
                }
                if a.group_expr.iter().any(|e| matches!(e.clone().unalias(), Expr::Literal(..))) {
                    add("constant-group-key", &mut out);
                }
            }
            _ => {}
        }
        Ok(TreeNodeRecursion::Continue)
    });
    let mut t2 = tables.clone();
    t2.sort();
    t2.dedup();
    if t2.len() != tables.len() {
        add("same-table-twice", &mut out);
    }
    out
}

pub fn run(run: &mut Run, args: &Args) {
    hutil::quiet_panics();
    let mut rng0 = Rng::new(args.seed);
    let rng = &mut rng0;
    let rtm = rt::runtime();
    let n = run.budget(170, 4000);
    let mut ds = DataSet::generate(rng);
    let mut ds2 = DataSet::generate(rng);
    for i in 0..n {
        if i % 8 == 0 {
            ds = DataSet::generate(rng);
            ds2 = DataSet::generate(rng);
        }
        let q = Gen::new(rng).statement();
        let ctx = ds.fresh_ctx(DataSet::default_cfg());
        let plan0 = match rtm.block_on(ctx.state().create_logical_plan(&q.sql)) {
            Ok(p) => p,
            Err(_) => {
                run.count("gen_rejected");
                continue;
            }
        };
        run.count("statements");
        for t in &q.tags {
            run.count(&format!("sql:{t}"));
        }
        let mut variants: Vec<(&'static str, LogicalPlan)> = vec![("raw", plan0.clone())];
        if let Ok(p) = ctx.state().optimize(&plan0) {
            variants.push(("opt", p));
        }
        for (vname, plan) in variants {
            let trig = known_triggers(&plan);
            let trig_s = if trig.is_empty() { "no-known-trigger".to_string() } else { trig.join("+") };
            let sig_base = format!("[{trig_s}] {vname} sql=`{}` data=`{}`", q.sql, ds.describe());
            let state = ctx.state();
            let sp = match hutil::catch(std::panic::AssertUnwindSafe(|| to_substrait_plan(&plan, &state))) {
                Ok(Ok(p)) => p,
                Ok(Err(e)) => {
                    run.count("producer_rejected");
                    run.count(&format!("producer_rejected:{}", first_line(&e.to_string()).chars().take(60).collect::<String>()));
                    continue;
                }
                Err(p) => {
                    run.oracle(false, &format!("producer-panic {sig_base}"), &p);
                    continue;
                }
            };
            run.count(&format!("plans_{vname}"));
            // cross a real serialisation boundary
            let bytes = sp.encode_to_vec();
            let sp2 = match Plan::decode(&bytes[..]) {
                Ok(p) => p,
                Err(e) => {
                    run.oracle(false, &format!("substrait-bytes-decode {sig_base}"), &e.to_string());
                    continue;
                }
            };
            let ctx2 = ds.fresh_ctx(DataSet::default_cfg());
            let state2 = ctx2.state();
            let after = match hutil::catch(std::panic::AssertUnwindSafe(|| rtm.block_on(from_substrait_plan(&state2, &sp2)))) {
                Ok(Ok(p)) => p,
                Ok(Err(e)) => {
                    let msg = e.to_string();
                    if is_not_impl(&msg) {
                        run.count("consumer_rejected");
                        run.count(&format!("consumer_rejected:{}", first_line(&msg).chars().take(60).collect::<String>()));
                    } else {
                        run.oracle(false, &format!("consume-failed {sig_base}"), &format!("the producer accepted the plan but the consumer fails: {}", first_line(&msg)));
                    }
                    continue;
                }
                Err(p) => {
                    run.oracle(false, &format!("consumer-panic {sig_base}"), &p);
                    continue;
                }
            };
            run.count("roundtrips");
            let ob = rtm.block_on(rt::run_logical(&ctx, &plan));
            if matches!(ob, rt::Outcome::Err(_)) {
                // the original does not return rows: nothing the round trip has to preserve
                run.count("original_fails");
                continue;
            }
            let oa = rtm.block_on(rt::run_logical(&ctx2, &after));
            match rt::same_outcome(&ob, &oa, q.ordered, SchemaLevel::TypesExact) {
                Ok(()) => run.oracle(true, "", ""),
                Err((what, detail)) => run.oracle(
                    false,
                    &format!(
                        "result-differs:{what}{} {sig_base}",
                        if what == "error" {
                            let e = rt::last_err();
                            if e.contains("optimize_projections") {
                                "(optimize_projections)"
                            } else if e.contains("type_coercion") {
                                "(type_coercion)"
                            } else {
                                "(other)"
                            }
                        } else {
                            ""
                        }
                    ),
                    &format!("{detail}\\nbefore:\\n{}\\nafter:\\n{}", plan.display_indent(), after.display_indent()),
                ),
            }
            if let (rt::Outcome::Rows { schema: a, .. }, rt::Outcome::Rows { schema: b, .. }) = (&ob, &oa) {
                if a.iter().zip(b.iter()).any(|(x, y)| x.0 != y.0) {
                    run.count("names_changed");
                }
                if a.iter().zip(b.iter()).any(|(x, y)| x.2 != y.2) {
                    run.count("nullability_changed");
                }
            }
            // the Lean judge is asked only when the implementation-level oracle saw no difference
            // (a case that already failed is reported under its own signature)
            if rt::same_outcome(&ob, &oa, q.ordered, SchemaLevel::TypesExact).is_ok() {
                judge_case(run, &plan, &after, &[&ds], q.tags.len() >= 2);
            } else {
                run.count("judge_skipped_oracle_failed");
            }
        }
    }
}
