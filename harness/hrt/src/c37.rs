//! C37 — Substrait round trip preserves query results.
//!
//! Every `plangen` statement, as planned and as optimised: `to_substrait_plan` → prost bytes →
//! `Plan::decode` → `from_substrait_plan` in a FRESH SessionContext.  Implementation-level oracle
//! (decides a violation): both plans executed — same rows (same list when ordered, same bag
//! otherwise) and the same output types.  The exported BEFORE / AFTER structures go to the Lean
//! judge of C35 (`same`: proved sound; otherwise evaluation of both on the case's data — a test).
//! Plans the producer rejects are outside the quantifier ("plans … the producer accepts") and are
//! counted; a plan the producer accepts but the consumer cannot read back is reported.
use datafusion_expr::LogicalPlan;
use datafusion_substrait::logical_plan::consumer::from_substrait_plan;
use datafusion_substrait::logical_plan::producer::to_substrait_plan;
use datafusion_substrait::substrait::proto::Plan;
use hutil::{Args, Rng, Run};
use prost::Message;

use crate::c35::judge_case;
use crate::plangen::{DataSet, Gen};
use crate::rt::{self, SchemaLevel};

fn first_line(e: &str) -> String {
    e.lines().next().unwrap_or("").chars().take(160).collect()
}

/// an error that only says "this construct is not implemented" (coverage, not a wrong answer)
fn is_not_impl(msg: &str) -> bool {
    let m = msg.to_lowercase();
    m.contains("not implemented") || m.contains("not supported") || m.contains("unsupported") || m.contains("not yet")
}

pub fn run(run: &mut Run, args: &Args) {
    hutil::quiet_panics();
    let mut rng0 = Rng::new(args.seed);
    let rng = &mut rng0;
    let rtm = rt::runtime();
    let n = run.budget(170, 4000);
    let mut ds = DataSet::generate(rng);
    let mut ds2 = DataSet::generate(rng);
    for i in 0..n {
        if i % 8 == 0 {
            ds = DataSet::generate(rng);
            ds2 = DataSet::generate(rng);
        }
        let q = Gen::new(rng).statement();
        let ctx = ds.fresh_ctx(DataSet::default_cfg());
        let plan0 = match rtm.block_on(ctx.state().create_logical_plan(&q.sql)) {
            Ok(p) => p,
            Err(_) => {
                run.count("gen_rejected");
                continue;
            }
        };
        run.count("statements");
        for t in &q.tags {
            run.count(&format!("sql:{t}"));
        }
        let mut variants: Vec<(&'static str, LogicalPlan)> = vec![("raw", plan0.clone())];
        if let Ok(p) = ctx.state().optimize(&plan0) {
            variants.push(("opt", p));
        }
        for (vname, plan) in variants {
            let sig_base = format!("{vname} sql=`{}` data=`{}`", q.sql, ds.describe());
            let state = ctx.state();
            let sp = match hutil::catch(std::panic::AssertUnwindSafe(|| to_substrait_plan(&plan, &state))) {
                Ok(Ok(p)) => p,
                Ok(Err(e)) => {
                    run.count("producer_rejected");
                    run.count(&format!("producer_rejected:{}", first_line(&e.to_string()).chars().take(60).collect::<String>()));
                    continue;
                }
                Err(p) => {
                    run.oracle(false, &format!("producer-panic {sig_base}"), &p);
                    continue;
                }
            };
            run.count(&format!("plans_{vname}"));
            // cross a real serialisation boundary
            let bytes = sp.encode_to_vec();
            let sp2 = match Plan::decode(&bytes[..]) {
                Ok(p) => p,
                Err(e) => {
                    run.oracle(false, &format!("substrait-bytes-decode {sig_base}"), &e.to_string());
                    continue;
                }
            };
            let ctx2 = ds.fresh_ctx(DataSet::default_cfg());
            let state2 = ctx2.state();
            let after = match hutil::catch(std::panic::AssertUnwindSafe(|| rtm.block_on(from_substrait_plan(&state2, &sp2)))) {
                Ok(Ok(p)) => p,
                Ok(Err(e)) => {
                    let msg = e.to_string();
                    if is_not_impl(&msg) {
                        run.count("consumer_rejected");
                        run.count(&format!("consumer_rejected:{}", first_line(&msg).chars().take(60).collect::<String>()));
                    } else {
                        run.oracle(false, &format!("consume-failed {sig_base}"), &format!("the producer accepted the plan but the consumer fails: {}", first_line(&msg)));
                    }
                    continue;
                }
                Err(p) => {
                    run.oracle(false, &format!("consumer-panic {sig_base}"), &p);
                    continue;
                }
            };
            run.count("roundtrips");
            let ob = rtm.block_on(rt::run_logical(&ctx, &plan));
            let oa = rtm.block_on(rt::run_logical(&ctx2, &after));
            match rt::same_outcome(&ob, &oa, q.ordered, SchemaLevel::TypesExact) {
                Ok(()) => run.oracle(true, "", ""),
                Err((what, detail)) => run.oracle(false, &format!("result-differs:{what} {sig_base}"), &detail),
            }
            if let (rt::Outcome::Rows { schema: a, .. }, rt::Outcome::Rows { schema: b, .. }) = (&ob, &oa) {
                if a.iter().zip(b.iter()).any(|(x, y)| x.0 != y.0) {
                    run.count("names_changed");
                }
                if a.iter().zip(b.iter()).any(|(x, y)| x.2 != y.2) {
                    run.count("nullability_changed");
                }
            }
            judge_case(run, &plan, &after, &[&ds, &ds2], q.tags.len() >= 2);
        }
    }
}
