//! C35 — logical plans, expressions and scalar values survive protobuf serialisation.
//!
//! (a) wire primitives: prost's `encode_varint`, `encode_key`, sint64 (zigzag), fixed32/64 and
//!     length-delimited fields vs the Lean model `Base/Wire.lean` (byte equality; the Lean
//!     side carries the universal round-trip theorems);
//! (b) `ScalarValue` message for the primitive variants: real `protobuf::ScalarValue::try_from`
//!     + prost `encode_to_vec` vs the model's bytes (equality) and decode(encode v) == v (oracle);
//! (c) plans: SQL from `plangen` → real LogicalPlan (as planned and optimised) →
//!     `logical_plan_to_bytes*` → `logical_plan_from_bytes*` in a FRESH SessionContext;
//!     implementation-level oracles: same textual form (`display_indent_schema`), same rows,
//!     names, types, nullability when both are executed; the field-walking exporter's output of
//!     BEFORE and AFTER goes to the Lean judge (`same` by normalised structural equality, proved
//!     sound, else evaluation of both on the case's data sets — a test);
//! (d) expressions of those plans: `Expr::to_bytes` → `Expr::from_bytes_with_ctx`, oracle `==`.
use std::collections::HashMap;
use std::sync::Arc;

use arrow::datatypes::SchemaRef;
use datafusion::catalog::TableProvider;
use datafusion::execution::TaskContext;
use datafusion::prelude::SessionContext;
use datafusion_common::{Result as DfResult, ScalarValue, TableReference, plan_datafusion_err};
use datafusion_expr::{Expr, Extension, LogicalPlan};
use datafusion_proto::bytes::{
    Serializeable, logical_plan_from_bytes_with_extension_codec, logical_plan_to_bytes_with_extension_codec,
};
use datafusion_proto::logical_plan::{DefaultLogicalExtensionCodec, LogicalExtensionCodec};
use datafusion_proto::protobuf;
use hutil::{Args, Rng, Run};
use prost::Message;

use crate::export::export_plan;
use crate::plangen::{DataSet, Gen};
use crate::rt::{self, SchemaLevel};

/// Extension codec for the harness' MemTables: a table provider is encoded as its name and decoded
/// by looking the name up among the tables registered in the (fresh) receiving session.  Everything
/// else is delegated to the default codec, so the code path is the one of `logical_plan_to_bytes`.
#[derive(Debug)]
pub struct MemCodec {
    pub tables: HashMap<String, Arc<dyn TableProvider>>,
    pub inner: DefaultLogicalExtensionCodec,
}

impl MemCodec {
    pub async fn for_ctx(ctx: &SessionContext, ds: &DataSet) -> MemCodec {
        let mut tables = HashMap::new();
        for t in &ds.tables {
            tables.insert(t.name.to_string(), ctx.table_provider(t.name).await.unwrap());
        }
        MemCodec { tables, inner: DefaultLogicalExtensionCodec {} }
    }
}

impl LogicalExtensionCodec for MemCodec {
    fn try_decode(&self, buf: &[u8], inputs: &[LogicalPlan], ctx: &TaskContext) -> DfResult<Extension> {
        self.inner.try_decode(buf, inputs, ctx)
    }
    fn try_encode(&self, node: &Extension, buf: &mut Vec<u8>) -> DfResult<()> {
        self.inner.try_encode(node, buf)
    }
    fn try_decode_table_provider(
        &self,
        buf: &[u8],
        _table_ref: &TableReference,
        _schema: SchemaRef,
        _ctx: &TaskContext,
    ) -> DfResult<Arc<dyn TableProvider>> {
        let name = String::from_utf8_lossy(buf).to_string();
        self.tables.get(&name).cloned().ok_or_else(|| plan_datafusion_err!("unknown table {name}"))
    }
    fn try_encode_table_provider(&self, table_ref: &TableReference, _node: Arc<dyn TableProvider>, buf: &mut Vec<u8>) -> DfResult<()> {
        buf.extend_from_slice(table_ref.table().as_bytes());
        Ok(())
    }
}

// ------------------------------------------------------------------------------------- (a) wire

fn wire(run: &mut Run, rng: &mut Rng) {
    use prost::encoding::{WireType, encode_key, encode_varint};
    let mut vals: Vec<u64> = vec![0, 1, 127, 128, 129, 255, 256, 16383, 16384, 16385, u32::MAX as u64, (u32::MAX as u64) + 1, u64::MAX, u64::MAX - 1, 1 << 63, (1 << 63) - 1];
    for k in 0..64 {
        vals.push(1u64 << k);
        vals.push((1u64 << k).wrapping_sub(1));
        vals.push((1u64 << k) + 1);
    }
    for _ in 0..run.budget(300, 5000) {
        let bits = rng.below(65);
        vals.push(if bits == 0 { 0 } else { rng.next() >> (64 - bits) });
    }
    for v in &vals {
        let mut buf = vec![];
        encode_varint(*v, &mut buf);
        run.case("varint", &format!("{v}"), &hutil::hex(&buf), *v >= 128);
        // decode(encode v ++ junk) = (v, junk)
        let mut b2 = buf.clone();
        b2.extend_from_slice(&[0xff, 0x01]);
        let mut slice = &b2[..];
        let d = prost::encoding::decode_varint(&mut slice);
        run.oracle(matches!(d, Ok(x) if x == *v) && slice == [0xff, 0x01], &format!("varint decode {v}"), "prost decode_varint(encode_varint(v) ++ rest) != (v, rest)");
        run.count("wire_varint");
    }
    // zigzag (sint64) and fixed
    let mut ivals: Vec<i64> = vec![0, -1, 1, -2, 2, 63, -64, 64, -65, i64::MAX, i64::MIN, i64::MIN + 1, i32::MAX as i64, i32::MIN as i64];
    for _ in 0..run.budget(200, 3000) {
        let bits = rng.below(64) + 1;
        ivals.push((rng.next() as i64) >> (64 - bits));
    }
    for v in &ivals {
        let mut buf = vec![];
        prost::encoding::sint64::encode(1, v, &mut buf);
        // strip the key byte (field 1, varint = 0x08)
        run.case("sint64", &format!("{v}"), &hutil::hex(&buf[1..]), *v != 0);
        let mut buf = vec![];
        prost::encoding::sfixed64::encode(1, v, &mut buf);
        run.case("fixed64", &format!("{}", *v as u64), &hutil::hex(&buf[1..]), true);
        let mut buf = vec![];
        prost::encoding::fixed32::encode(1, &(*v as u32), &mut buf);
        run.case("fixed32", &format!("{}", *v as u32), &hutil::hex(&buf[1..]), true);
        // int32 / int64 fields: negative values are sign-extended to 64 bits
        let mut buf = vec![];
        prost::encoding::int32::encode(1, &(*v as i32), &mut buf);
        run.case("int32", &format!("{}", *v as i32), &hutil::hex(&buf[1..]), (*v as i32) < 0);
        run.count("wire_int");
    }
    // keys
    for tag in [1u32, 2, 15, 16, 17, 33, 127, 128, 2047, 2048, 100_000, (1 << 29) - 1] {
        for (wt, n) in [(WireType::Varint, 0u32), (WireType::SixtyFourBit, 1), (WireType::LengthDelimited, 2), (WireType::ThirtyTwoBit, 5)] {
            let mut buf = vec![];
            encode_key(tag, wt, &mut buf);
            run.case("key", &format!("({tag} {n})"), &hutil::hex(&buf), true);
            run.count("wire_key");
        }
    }
    // length-delimited
    for len in [0usize, 1, 2, 127, 128, 129, 300, 16384] {
        let payload: Vec<u8> = (0..len).map(|_| rng.below(256) as u8).collect();
        let mut buf = vec![];
        prost::encoding::bytes::encode(2, &payload, &mut buf);
        run.case("lendelim", &format!("(2 {})", hutil::hex(&payload)), &hutil::hex(&buf), len > 0);
        run.count("wire_lendelim");
    }
}

// ----------------------------------------------------------------------------------- (b) scalars

fn scalar_case(run: &mut Run, sv: ScalarValue, req: String) {
    let p = match protobuf::ScalarValue::try_from(&sv) {
        Ok(p) => p,
        Err(e) => {
            run.count("scalar_encode_rejected");
            run.note(&format!("scalar {sv:?} not encodable: {e}"));
            return;
        }
    };
    let bytes = p.encode_to_vec();
    run.case("scalar", &req, &hutil::hex(&bytes), true);
    let back = protobuf::ScalarValue::decode(&bytes[..]).ok().and_then(|p| ScalarValue::try_from(&p).ok());
    // `==` on ScalarValue: NULLs of the same type compare equal
    let ok = matches!(&back, Some(b) if *b == sv && b.data_type() == sv.data_type());
    run.oracle(ok, &format!("scalar roundtrip {req}"), &format!("{sv:?} decoded as {back:?}"));
    run.count("scalar");
}

fn scalars(run: &mut Run, rng: &mut Rng) {
    let n = run.budget(60, 1500);
    let ints: Vec<i128> = {
        let mut v: Vec<i128> = vec![0, 1, -1, 127, 128, -128, -129, 255, 256, 32767, -32768, 65535, 65536, i32::MAX as i128, i32::MIN as i128, u32::MAX as i128, i64::MAX as i128, i64::MIN as i128, u64::MAX as i128];
        for _ in 0..n {
            let bits = rng.below(64) + 1;
            v.push(((rng.next() as i64) >> (64 - bits)) as i128);
            v.push((rng.next() >> (64 - bits)) as i128);
        }
        v
    };
    for v in &ints {
        let v = *v;
        if let Ok(x) = i8::try_from(v) {
            scalar_case(run, ScalarValue::Int8(Some(x)), format!("(i8 {x})"));
        }
        if let Ok(x) = i16::try_from(v) {
            scalar_case(run, ScalarValue::Int16(Some(x)), format!("(i16 {x})"));
        }
        if let Ok(x) = i32::try_from(v) {
            scalar_case(run, ScalarValue::Int32(Some(x)), format!("(i32 {x})"));
        }
        if let Ok(x) = i64::try_from(v) {
            scalar_case(run, ScalarValue::Int64(Some(x)), format!("(i64 {x})"));
        }
        if let Ok(x) = u8::try_from(v) {
            scalar_case(run, ScalarValue::UInt8(Some(x)), format!("(u8 {x})"));
        }
        if let Ok(x) = u16::try_from(v) {
            scalar_case(run, ScalarValue::UInt16(Some(x)), format!("(u16 {x})"));
        }
        if let Ok(x) = u32::try_from(v) {
            scalar_case(run, ScalarValue::UInt32(Some(x)), format!("(u32 {x})"));
        }
        if let Ok(x) = u64::try_from(v) {
            scalar_case(run, ScalarValue::UInt64(Some(x)), format!("(u64 {x})"));
        }
    }
    scalar_case(run, ScalarValue::Boolean(Some(true)), "(bool t)".into());
    scalar_case(run, ScalarValue::Boolean(Some(false)), "(bool f)".into());
    let mut strs: Vec<String> = vec!["".into(), "a".into(), "it's".into(), "héllo wörld ✓".into(), "x".repeat(127), "y".repeat(128), "z".repeat(300)];
    for _ in 0..n / 4 {
        let len = rng.below(12) as usize;
        strs.push((0..len).map(|_| *rng.pick(&['a', 'b', ' ', '%', '\'', 'é', '∀', '\u{1F600}', '\n', '0'])).collect());
    }
    for s in &strs {
        let h = hutil::hex(s.as_bytes());
        scalar_case(run, ScalarValue::Utf8(Some(s.clone())), format!("(utf8 {h})"));
        scalar_case(run, ScalarValue::LargeUtf8(Some(s.clone())), format!("(large_utf8 {h})"));
        scalar_case(run, ScalarValue::Utf8View(Some(s.clone())), format!("(utf8_view {h})"));
    }
    // typed NULLs
    for (sv, name) in [
        (ScalarValue::Null, "none"),
        (ScalarValue::Boolean(None), "bool"),
        (ScalarValue::Int8(None), "i8"),
        (ScalarValue::Int16(None), "i16"),
        (ScalarValue::Int32(None), "i32"),
        (ScalarValue::Int64(None), "i64"),
        (ScalarValue::UInt8(None), "u8"),
        (ScalarValue::UInt16(None), "u16"),
        (ScalarValue::UInt32(None), "u32"),
        (ScalarValue::UInt64(None), "u64"),
        (ScalarValue::Utf8(None), "utf8"),
        (ScalarValue::LargeUtf8(None), "large_utf8"),
        (ScalarValue::Utf8View(None), "utf8_view"),
    ] {
        scalar_case(run, sv, format!("(null {name})"));
    }
}

// ------------------------------------------------------------------------------------- (c) plans

fn collect_exprs(plan: &LogicalPlan, out: &mut Vec<Expr>) {
    use datafusion_common::tree_node::{TreeNode, TreeNodeRecursion};
    let _ = plan.apply(|p| {
        out.extend(p.expressions());
        Ok(TreeNodeRecursion::Continue)
    });
}

/// does the plan contain an `EmptyRelation` that declares columns?  (logical_plan/mod.rs encodes only
/// `produce_one_row`; the schema is dropped — finding C35-1)
pub fn has_schemaful_empty_relation(plan: &LogicalPlan) -> bool {
    use datafusion_common::tree_node::{TreeNode, TreeNodeRecursion};
    let mut found = false;
    let _ = plan.apply_with_subqueries(|p| {
        if let LogicalPlan::EmptyRelation(e) = p {
            if !e.schema.fields().is_empty() {
                found = true;
            }
        }
        Ok(TreeNodeRecursion::Continue)
    });
    found
}

/// why do the two textual forms differ?  Specific, stable causes get their own signature so that
/// known findings never hide a different defect.
fn text_diff_cause(before: &LogicalPlan, after: &LogicalPlan) -> &'static str {
    use datafusion_common::tree_node::{TreeNode, TreeNodeRecursion};
    let mut nary_union = false;
    let mut any_union = false;
    let _ = before.apply(|p| {
        if let LogicalPlan::Union(u) = p {
            any_union = true;
            if u.inputs.len() > 2 {
                nary_union = true;
            }
        }
        Ok(TreeNodeRecursion::Continue)
    });
    let nb = format!("{}", before.display_indent());
    let na = format!("{}", after.display_indent());
    if nb != na {
        // an n-ary Union is decoded as left-nested binary Unions
        let flat = |s: &str| s.lines().map(|l| l.trim_start().to_string()).filter(|l| l != "Union").collect::<Vec<_>>();
        if nary_union && flat(&nb) == flat(&na) {
            return "union-renested";
        }
        // only the qualifiers of column references differ (`c0` vs `left.c0`) and the positional
        // export (columns resolved to indices) is identical: not a difference the property forbids
        if strip_qualifiers(&nb) == strip_qualifiers(&na) {
            let (eb, ea) = (export_plan(before), export_plan(after));
            if eb == ea {
                return "qualifier-only";
            }
        }
        return "text-differs";
    }
    let sb = format!("{}", before.display_indent_schema()).replace(";N", "");
    let sa = format!("{}", after.display_indent_schema()).replace(";N", "");
    if any_union && sb == sa {
        // Union's schema is not encoded; it is recomputed from the inputs on decode
        return "union-schema-recomputed";
    }
    "text-differs:schema"
}

/// drop `ident.` in front of an identifier (`left.c0` → `c0`)
fn strip_qualifiers(s: &str) -> String {
    let cs: Vec<char> = s.chars().collect();
    let mut out = String::new();
    let mut i = 0;
    while i < cs.len() {
        if cs[i].is_alphabetic() || cs[i] == '_' {
            let mut j = i;
            while j < cs.len() && (cs[j].is_alphanumeric() || cs[j] == '_') {
                j += 1;
            }
            if j + 1 < cs.len() && cs[j] == '.' && (cs[j + 1].is_alphabetic() || cs[j + 1] == '_') {
                i = j + 1; // skip the qualifier and the dot
                continue;
            }
            out.extend(&cs[i..j]);
            i = j;
        } else {
            out.push(cs[i]);
            i += 1;
        }
    }
    out
}

pub struct PlanCase {
    pub sql: String,
    pub variant: &'static str,
    pub ordered: bool,
}

/// send BEFORE/AFTER to the Lean judge; returns whether the case was exporter-supported
pub fn judge_case(run: &mut Run, before: &LogicalPlan, after: &LogicalPlan, dbs: &[&DataSet], nontrivial: bool) -> bool {
    match (export_plan(before), export_plan(after)) {
        (Ok(b), Ok(a)) => {
            run.count("export_supported");
            if a == b {
                run.count("export_identical");
                run.case("judge", &format!("({b} {a} ())"), "ok", nontrivial);
            } else {
                run.count("export_differs");
                let d = dbs.iter().map(|d| d.db_sexp()).collect::<Vec<_>>().join(" ");
                run.case("judge", &format!("({b} {a} ({d}))"), "ok", nontrivial);
            }
            true
        }
        (Err(w), Err(_)) => {
            run.count("export_unsupported");
            run.count(&format!("unsupported:{w}"));
            false
        }
        (Ok(_), Err(w)) | (Err(w), Ok(_)) => {
            // the round trip moved the plan across the fragment's border; the row/type oracles decide
            run.count("export_asymmetric");
            run.count(&format!("asymmetric:{w}"));
            false
        }
    }
}

fn plans(run: &mut Run, rng: &mut Rng) {
    let rtm = rt::runtime();
    let n = run.budget(160, 4000);
    let mut ds = DataSet::generate(rng);
    let mut ds2 = DataSet::generate(rng);
    let corpus = ["SELECT t1.a FROM t1 WHERE false", "SELECT count(*) AS c0 FROM t2 WHERE 1 = 0", "SELECT t3.h FROM t3 ORDER BY 1 LIMIT 0"];
    for i in 0..n + corpus.len() as u64 {
        if i % 8 == 0 {
            ds = DataSet::generate(rng);
            ds2 = DataSet::generate(rng);
        }
        let q = if (i as usize) < corpus.len() {
            crate::plangen::Query { sql: corpus[i as usize].to_string(), tys: vec![], ordered: false, tags: vec!["corpus"] }
        } else {
            Gen::new(rng).statement()
        };
        let ctx = ds.fresh_ctx(DataSet::default_cfg());
        let plan0 = match rtm.block_on(ctx.state().create_logical_plan(&q.sql)) {
            Ok(p) => p,
            Err(e) => {
                run.count("gen_rejected");
                if run.notes.len() < 8 {
                    run.note(&format!("rejected: {} :: {}", q.sql, e.to_string().lines().next().unwrap_or("")));
                }
                continue;
            }
        };
        run.count("statements");
        for t in &q.tags {
            run.count(&format!("sql:{t}"));
        }
        let mut variants: Vec<(&'static str, LogicalPlan)> = vec![("raw", plan0.clone())];
        match ctx.state().optimize(&plan0) {
            Ok(p) => variants.push(("opt", p)),
            Err(_) => run.count("optimize_failed"),
        }
        for (vname, plan) in variants {
            let sig_base = format!("{vname} sql=`{}` data=`{}`", q.sql, ds.describe());
            let codec = rtm.block_on(MemCodec::for_ctx(&ctx, &ds));
            let bytes = match hutil::catch(std::panic::AssertUnwindSafe(|| logical_plan_to_bytes_with_extension_codec(&plan, &codec))) {
                Ok(Ok(b)) => b,
                Ok(Err(e)) => {
                    run.count("encode_rejected");
                    if run.notes.len() < 12 {
                        run.note(&format!("encode rejected ({vname}): {} :: {}", q.sql, e.to_string().lines().next().unwrap_or("")));
                    }
                    continue;
                }
                Err(p) => {
                    run.oracle(false, &format!("encode-panic {sig_base}"), &p);
                    continue;
                }
            };
            run.count(&format!("plans_{vname}"));
            // decode in a FRESH session
            let ctx2 = ds.fresh_ctx(DataSet::default_cfg());
            let codec2 = rtm.block_on(MemCodec::for_ctx(&ctx2, &ds));
            let task = ctx2.task_ctx();
            let empty_rel = has_schemaful_empty_relation(&plan);
            let after = match hutil::catch(std::panic::AssertUnwindSafe(|| logical_plan_from_bytes_with_extension_codec(&bytes, &task, &codec2))) {
                Ok(Ok(p)) => p,
                Ok(Err(e)) => {
                    let kind = if empty_rel { "empty-relation-schema-dropped decode-failed" } else { "decode-failed" };
                    run.oracle(false, &format!("{kind} {sig_base}"), &format!("encoding succeeded ({} bytes) but decoding fails: {e}", bytes.len()));
                    continue;
                }
                Err(p) => {
                    run.oracle(false, &format!("decode-panic {sig_base}"), &p);
                    continue;
                }
            };
            // oracle 1: same textual form (with schema)
            let tb = format!("{}", plan.display_indent_schema());
            let ta = format!("{}", after.display_indent_schema());
            if empty_rel && tb != ta {
                // one report under the specific signature; the plan's other oracles are skipped
                run.count("empty_relation_schema_dropped");
                run.oracle(false, &format!("empty-relation-schema-dropped {sig_base}"), &format!("before:\\n{tb}\\nafter:\\n{ta}"));
                continue;
            }
            let cause = if tb == ta { "" } else { text_diff_cause(&plan, &after) };
            run.oracle(tb == ta || cause == "qualifier-only", &format!("{cause} {sig_base}"), &format!("before:\\n{tb}\\nafter:\\n{ta}"));
            if !cause.is_empty() {
                run.count(&format!("cause:{cause}"));
            }
            // oracle 2: same rows / names / types / nullability (the nullability flags of a plan whose
            // Union schema was recomputed are already reported above)
            let level = if cause.starts_with("union-") { SchemaLevel::NamesTypes } else { SchemaLevel::Full };
            let ob = rtm.block_on(rt::run_logical(&ctx, &plan));
            let oa = rtm.block_on(rt::run_logical(&ctx2, &after));
            match rt::same_outcome(&ob, &oa, q.ordered, level) {
                Ok(()) => run.oracle(true, "", ""),
                Err((what, detail)) => {
                    let pre = if cause.starts_with("union-") { format!("{cause} ") } else { String::new() };
                    run.oracle(false, &format!("{pre}result-differs:{what} {sig_base}"), &format!("{detail}\\nbefore:\\n{tb}\\nafter:\\n{ta}"))
                }
            }
            if matches!(ob, rt::Outcome::Err(_)) {
                run.count("exec_error");
            }
            // the Lean judge on the exported structure
            // the Lean judge is asked only when the implementation-level oracle saw no difference
            // (a case that already failed is reported under its own signature)
            if rt::same_outcome(&ob, &oa, q.ordered, level).is_ok() {
                judge_case(run, &plan, &after, &[&ds], q.tags.len() >= 2);
            } else {
                run.count("judge_skipped_oracle_failed");
            }
            // (d) expressions
            if vname == "raw" {
                let mut es = vec![];
                collect_exprs(&plan, &mut es);
                for e in es {
                    let Ok(Ok(b)) = hutil::catch(std::panic::AssertUnwindSafe(|| e.to_bytes())) else {
                        run.count("expr_encode_rejected");
                        continue;
                    };
                    let back = hutil::catch(std::panic::AssertUnwindSafe(|| Expr::from_bytes_with_ctx(&b, &task)));
                    let ok = matches!(&back, Ok(Ok(x)) if *x == e);
                    run.oracle(ok, &format!("expr-roundtrip `{e}`"), &format!("decoded as {back:?}"));
                    run.count("exprs");
                }
            }
        }
    }
}

pub fn run(run: &mut Run, args: &Args) {
    hutil::quiet_panics();
    let mut rng = Rng::new(args.seed);
    wire(run, &mut rng.fork());
    scalars(run, &mut rng.fork());
    plans(run, &mut rng.fork());
}
