//! C48 — DataFrame operations compute the same results as the equivalent SQL.
//!
//! Chains of DataFrame operations (filter, select, select_columns, with_column,
//! with_column_renamed, drop_columns, aggregate, sort(+limit), distinct, distinct_on, union,
//! union_distinct, union_by_name(+distinct), intersect(+distinct), except(+distinct), join on
//! keys, join_on expressions) are generated TOGETHER with the SQL statement of the same meaning
//! (every step wraps the previous statement as a derived table).  Scalar expressions are written
//! once as SQL text and turned into `Expr`s with `DataFrame::parse_sql_expr`, so the two sides
//! differ exactly in what the property is about: the DataFrame / LogicalPlanBuilder methods versus
//! the SQL planner.
//!
//! Implementation-level oracle (decides a violation): `df.collect()` vs `ctx.sql(text).collect()`
//! — same rows (list when the chain ends in a sort, bag otherwise) and the same output types.
//! The exported plans BEFORE (DataFrame) / AFTER (SQL) go to the Lean judge of C35.
use datafusion::prelude::{DataFrame, SessionContext};
use datafusion_common::JoinType;
use datafusion_expr::{Expr, SortExpr, col};
use hutil::{Args, Rng, Run};

use crate::c35::judge_case;
use crate::plangen::{DataSet, Gen, Scope, ScopeCol, Ty, table_shapes};
use crate::rt::{self, SchemaLevel};

type R<T> = Result<T, String>;

#[derive(Clone)]
struct Chain {
    /// `DataFrame::aggregate` returned more columns than group + aggregate expressions
    /// (implicit group-by expressions from functional dependencies; finding C48-1)
    implicit_cols: bool,
    df: DataFrame,
    sql: String,
    cols: Vec<(String, Ty)>,
    ordered: bool,
    ops: Vec<&'static str>,
}

struct Cx<'a> {
    rng: &'a mut Rng,
    ctr: u32,
}

fn e2s<E: std::fmt::Display>(e: E) -> String {
    e.to_string().lines().next().unwrap_or("").chars().take(200).collect()
}

impl<'a> Cx<'a> {
    fn fresh(&mut self, p: &str) -> String {
        self.ctr += 1;
        format!("{p}{}", self.ctr)
    }

    fn scope(cols: &[(String, Ty)]) -> Scope {
        cols.iter().map(|(n, t)| ScopeCol { text: n.clone(), ty: *t }).collect()
    }

    fn names(cols: &[(String, Ty)]) -> String {
        cols.iter().map(|c| c.0.clone()).collect::<Vec<_>>().join(", ")
    }

    fn gen_expr(&mut self, cols: &[(String, Ty)], ty: Ty, d: u32) -> String {
        let sc = Self::scope(cols);
        let mut g = Gen::new(&mut *self.rng);
        g.wide = false;
        g.expr(&sc, ty, d)
    }

    fn order_keys(&mut self, cols: &[(String, Ty)], first: Option<&str>) -> (Vec<SortExpr>, String) {
        let mut names: Vec<String> = cols.iter().map(|c| c.0.clone()).collect();
        if let Some(f) = first {
            names.retain(|n| n != f);
            names.insert(0, f.to_string());
        } else {
            for i in (1..names.len()).rev() {
                let j = self.rng.below(i as u64 + 1) as usize;
                names.swap(i, j);
            }
        }
        let mut ks = vec![];
        let mut txt = vec![];
        for n in names {
            let asc = self.rng.chance(2, 3);
            let nf = self.rng.chance(1, 2);
            ks.push(col(n.as_str()).sort(asc, nf));
            txt.push(format!("{n} {} NULLS {}", if asc { "ASC" } else { "DESC" }, if nf { "FIRST" } else { "LAST" }));
        }
        (ks, txt.join(", "))
    }

    async fn base(&mut self, ctx: &SessionContext) -> R<Chain> {
        let ts = table_shapes();
        let t = &ts[self.rng.below(ts.len() as u64) as usize];
        let df = ctx.table(t.name).await.map_err(e2s)?;
        let cols = t
            .cols
            .iter()
            .map(|c| {
                (
                    c.name.to_string(),
                    match c.dt {
                        arrow::datatypes::DataType::Utf8 => Ty::Str,
                        arrow::datatypes::DataType::Boolean => Ty::Bool,
                        _ => Ty::Int,
                    },
                )
            })
            .collect();
        Ok(Chain { implicit_cols: false, df, sql: format!("SELECT * FROM {}", t.name), cols, ordered: false, ops: vec![] })
    }

    /// a right-hand side for joins: another table with every column renamed to a unique name
    async fn right_side(&mut self, ctx: &SessionContext) -> R<Chain> {
        let ts = table_shapes();
        let t = &ts[self.rng.below(ts.len() as u64) as usize];
        let p = self.fresh("r");
        let df = ctx.table(t.name).await.map_err(e2s)?;
        let mut exprs = vec![];
        let mut items = vec![];
        let mut cols = vec![];
        for c in &t.cols {
            let n = format!("{p}_{}", c.name);
            exprs.push(col(c.name).alias(n.as_str()));
            items.push(format!("{} AS {n}", c.name));
            cols.push((
                n,
                match c.dt {
                    arrow::datatypes::DataType::Utf8 => Ty::Str,
                    arrow::datatypes::DataType::Boolean => Ty::Bool,
                    _ => Ty::Int,
                },
            ));
        }
        let df = df.select(exprs).map_err(e2s)?;
        Ok(Chain { implicit_cols: false, df, sql: format!("SELECT {} FROM {}", items.join(", "), t.name), cols, ordered: false, ops: vec![] })
    }

    async fn step(&mut self, ctx: &SessionContext, c: Chain) -> R<Chain> {
        let s = self.fresh("s");
        let Chain { df, sql, cols, mut ops, implicit_cols, .. } = c;
        if implicit_cols {
            // the column bookkeeping no longer matches: stop extending this chain
            return Ok(Chain { implicit_cols, df, sql, cols, ordered: false, ops });
        }
        let int_cols: Vec<String> = cols.iter().filter(|c| c.1 == Ty::Int).map(|c| c.0.clone()).collect();
        let k = self.rng.below(19);
        match k {
            0 | 1 => {
                let p = self.gen_expr(&cols, Ty::Bool, 2);
                let e = df.parse_sql_expr(&p).map_err(e2s)?;
                ops.push("filter");
                Ok(Chain { implicit_cols: false, df: df.filter(e).map_err(e2s)?, sql: format!("SELECT * FROM ({sql}) AS {s} WHERE {p}"), cols, ordered: false, ops })
            }
            2 => {
                let n = 1 + self.rng.below(3) as usize;
                let mut exprs = vec![];
                let mut items = vec![];
                let mut ncols = vec![];
                for _ in 0..n {
                    let ty = *self.rng.pick(&[Ty::Int, Ty::Int, Ty::Str, Ty::Bool]);
                    let t = self.gen_expr(&cols, ty, 2);
                    let name = self.fresh("x");
                    exprs.push(df.parse_sql_expr(&t).map_err(e2s)?.alias(name.as_str()));
                    items.push(format!("{t} AS {name}"));
                    ncols.push((name, ty));
                }
                ops.push("select");
                Ok(Chain { implicit_cols: false, df: df.select(exprs).map_err(e2s)?, sql: format!("SELECT {} FROM ({sql}) AS {s}", items.join(", ")), cols: ncols, ordered: false, ops })
            }
            3 => {
                // select_columns: a non-empty sub-sequence in random order
                let mut pick: Vec<(String, Ty)> = cols.iter().filter(|_| self.rng.chance(2, 3)).cloned().collect();
                if pick.is_empty() {
                    pick.push(cols[0].clone());
                }
                for i in (1..pick.len()).rev() {
                    let j = self.rng.below(i as u64 + 1) as usize;
                    pick.swap(i, j);
                }
                let names: Vec<&str> = pick.iter().map(|c| c.0.as_str()).collect();
                ops.push("select_columns");
                Ok(Chain { implicit_cols: false, df: df.select_columns(&names).map_err(e2s)?, sql: format!("SELECT {} FROM ({sql}) AS {s}", names.join(", ")), cols: pick, ordered: false, ops })
            }
            4 => {
                let ty = *self.rng.pick(&[Ty::Int, Ty::Str, Ty::Bool]);
                let t = self.gen_expr(&cols, ty, 2);
                let e = df.parse_sql_expr(&t).map_err(e2s)?;
                if self.rng.chance(1, 3) {
                    // replace an existing column in place
                    let i = self.rng.below(cols.len() as u64) as usize;
                    let name = cols[i].0.clone();
                    let items: Vec<String> = cols.iter().map(|c| if c.0 == name { format!("{t} AS {name}") } else { c.0.clone() }).collect();
                    let mut ncols = cols.clone();
                    ncols[i].1 = ty;
                    ops.push("with_column_replace");
                    Ok(Chain { implicit_cols: false, df: df.with_column(&name, e).map_err(e2s)?, sql: format!("SELECT {} FROM ({sql}) AS {s}", items.join(", ")), cols: ncols, ordered: false, ops })
                } else {
                    let name = self.fresh("w");
                    let mut ncols = cols.clone();
                    ncols.push((name.clone(), ty));
                    ops.push("with_column");
                    Ok(Chain { implicit_cols: false, df: df.with_column(&name, e).map_err(e2s)?, sql: format!("SELECT *, {t} AS {name} FROM ({sql}) AS {s}"), cols: ncols, ordered: false, ops })
                }
            }
            5 => {
                let i = self.rng.below(cols.len() as u64) as usize;
                let old = cols[i].0.clone();
                let new = self.fresh("n");
                let items: Vec<String> = cols.iter().map(|c| if c.0 == old { format!("{old} AS {new}") } else { c.0.clone() }).collect();
                let mut ncols = cols.clone();
                ncols[i].0 = new.clone();
                ops.push("with_column_renamed");
                Ok(Chain { implicit_cols: false, df: df.with_column_renamed(old.as_str(), &new).map_err(e2s)?, sql: format!("SELECT {} FROM ({sql}) AS {s}", items.join(", ")), cols: ncols, ordered: false, ops })
            }
            6 if cols.len() >= 2 => {
                let i = self.rng.below(cols.len() as u64) as usize;
                let dropped = cols[i].0.clone();
                let ncols: Vec<(String, Ty)> = cols.iter().filter(|c| c.0 != dropped).cloned().collect();
                ops.push("drop_columns");
                Ok(Chain { implicit_cols: false, df: df.drop_columns(&[dropped.as_str()]).map_err(e2s)?, sql: format!("SELECT {} FROM ({sql}) AS {s}", Self::names(&ncols)), cols: ncols, ordered: false, ops })
            }
            7 | 8 => {
                // aggregate
                let nk = self.rng.below(3) as usize;
                let mut keys: Vec<(String, Ty)> = vec![];
                for _ in 0..nk {
                    let c = cols[self.rng.below(cols.len() as u64) as usize].clone();
                    if !keys.iter().any(|k| k.0 == c.0) {
                        keys.push(c);
                    }
                }
                let na = 1 + self.rng.below(2) as usize;
                let mut aggs = vec![];
                let mut items: Vec<String> = keys.iter().map(|k| k.0.clone()).collect();
                let mut ncols = keys.clone();
                for _ in 0..na {
                    let f = *self.rng.pick(&["count", "sum", "min", "max", "count_star", "count_distinct"]);
                    let a = self.gen_expr(&cols, Ty::Int, 1);
                    let t = match f {
                        "count_star" => "count(*)".to_string(),
                        "count_distinct" => format!("count(DISTINCT {a})"),
                        _ => format!("{f}({a})"),
                    };
                    let name = self.fresh("g");
                    aggs.push(df.parse_sql_expr(&t).map_err(e2s)?.alias(name.as_str()));
                    items.push(format!("{t} AS {name}"));
                    ncols.push((name, Ty::Int));
                }
                let gexprs: Vec<Expr> = keys.iter().map(|k| col(k.0.as_str())).collect();
                let gb = if keys.is_empty() { String::new() } else { format!(" GROUP BY {}", Self::names(&keys)) };
                ops.push(if keys.is_empty() { "aggregate_global" } else { "aggregate" });
                let expected_cols = gexprs.len() + aggs.len();
                let adf = df.aggregate(gexprs, aggs).map_err(e2s)?;
                let implicit = adf.schema().fields().len() != expected_cols;
                Ok(Chain { implicit_cols: implicit, df: adf, sql: format!("SELECT {} FROM ({sql}) AS {s}{gb}", items.join(", ")), cols: ncols, ordered: false, ops })
            }
            9 | 10 => {
                let (ks, txt) = self.order_keys(&cols, None);
                let mut d = df.sort(ks).map_err(e2s)?;
                let mut q = format!("SELECT * FROM ({sql}) AS {s} ORDER BY {txt}");
                ops.push("sort");
                if self.rng.chance(1, 2) {
                    let skip = self.rng.below(3) as usize;
                    let fetch = self.rng.below(5) as usize;
                    d = d.limit(skip, Some(fetch)).map_err(e2s)?;
                    q = format!("{q} LIMIT {fetch} OFFSET {skip}");
                    ops.push("limit");
                }
                Ok(Chain { implicit_cols: false, df: d, sql: q, cols, ordered: true, ops })
            }
            11 => {
                ops.push("distinct");
                Ok(Chain { implicit_cols: false, df: df.distinct().map_err(e2s)?, sql: format!("SELECT DISTINCT * FROM ({sql}) AS {s}"), cols, ordered: false, ops })
            }
            12 => {
                let key = cols[self.rng.below(cols.len() as u64) as usize].0.clone();
                let (ks, txt) = self.order_keys(&cols, Some(&key));
                let sel: Vec<Expr> = cols.iter().map(|c| col(c.0.as_str())).collect();
                ops.push("distinct_on");
                Ok(Chain {
                    implicit_cols: false,
                    df: df.distinct_on(vec![col(key.as_str())], sel, Some(ks)).map_err(e2s)?,
                    sql: format!("SELECT DISTINCT ON ({key}) {} FROM ({sql}) AS {s} ORDER BY {txt}", Self::names(&cols)),
                    cols,
                    ordered: false,
                    ops,
                })
            }
            13 | 14 => {
                // set operation with a filtered copy of the same input
                let p = self.gen_expr(&cols, Ty::Bool, 1);
                let e = df.parse_sql_expr(&p).map_err(e2s)?;
                let other = df.clone().filter(e).map_err(e2s)?;
                let s2 = self.fresh("s");
                let (name, kw): (&'static str, &str) = *self.rng.pick(&[
                    ("union", "UNION ALL"),
                    ("union_distinct", "UNION"),
                    ("intersect", "INTERSECT ALL"),
                    ("intersect_distinct", "INTERSECT"),
                    ("except", "EXCEPT ALL"),
                    ("except_distinct", "EXCEPT"),
                ]);
                // `except`: the filtered copy on the right would always give a subset; swap sides half the time
                let swap = self.rng.chance(1, 2);
                let (l, r) = if swap { (other, df) } else { (df, other) };
                let lsql = if swap { format!("SELECT * FROM ({sql}) AS {s} WHERE {p}") } else { format!("SELECT * FROM ({sql}) AS {s}") };
                let rsql = if swap { format!("SELECT * FROM ({sql}) AS {s2}") } else { format!("SELECT * FROM ({sql}) AS {s2} WHERE {p}") };
                let d = match name {
                    "union" => l.union(r),
                    "union_distinct" => l.union_distinct(r),
                    "intersect" => l.intersect(r),
                    "intersect_distinct" => l.intersect_distinct(r),
                    "except" => l.except(r),
                    _ => l.except_distinct(r),
                }
                .map_err(e2s)?;
                ops.push(name);
                Ok(Chain { implicit_cols: false, df: d, sql: format!("({lsql}) {kw} ({rsql})"), cols, ordered: false, ops })
            }
            15 if cols.len() >= 2 => {
                // union_by_name with the same input, columns reversed and filtered
                let p = self.gen_expr(&cols, Ty::Bool, 1);
                let e = df.parse_sql_expr(&p).map_err(e2s)?;
                let rev: Vec<(String, Ty)> = cols.iter().rev().cloned().collect();
                let rev_names: Vec<&str> = rev.iter().map(|c| c.0.as_str()).collect();
                let other = df.clone().filter(e).map_err(e2s)?.select_columns(&rev_names).map_err(e2s)?;
                let s2 = self.fresh("s");
                let s3 = self.fresh("s");
                let distinct = self.rng.chance(1, 3);
                let d = if distinct { df.union_by_name_distinct(other) } else { df.union_by_name(other) }.map_err(e2s)?;
                ops.push(if distinct { "union_by_name_distinct" } else { "union_by_name" });
                let all = Self::names(&cols);
                Ok(Chain {
                    implicit_cols: false,
                    df: d,
                    sql: format!(
                        "(SELECT {all} FROM ({sql}) AS {s}) {} (SELECT {all} FROM (SELECT {} FROM ({sql}) AS {s2} WHERE {p}) AS {s3})",
                        if distinct { "UNION" } else { "UNION ALL" },
                        rev_names.join(", ")
                    ),
                    cols,
                    ordered: false,
                    ops,
                })
            }
            16 | 17 if !int_cols.is_empty() => {
                let right = self.right_side(ctx).await?;
                let rints: Vec<String> = right.cols.iter().filter(|c| c.1 == Ty::Int).map(|c| c.0.clone()).collect();
                let lk = int_cols[self.rng.below(int_cols.len() as u64) as usize].clone();
                let rk = rints[self.rng.below(rints.len() as u64) as usize].clone();
                let (jt, kw, side): (JoinType, &str, u8) = *self.rng.pick(&[
                    (JoinType::Inner, "INNER JOIN", 2),
                    (JoinType::Left, "LEFT JOIN", 2),
                    (JoinType::Right, "RIGHT JOIN", 2),
                    (JoinType::Full, "FULL JOIN", 2),
                    (JoinType::LeftSemi, "LEFT SEMI JOIN", 0),
                    (JoinType::LeftAnti, "LEFT ANTI JOIN", 0),
                    (JoinType::RightSemi, "RIGHT SEMI JOIN", 1),
                    (JoinType::RightAnti, "RIGHT ANTI JOIN", 1),
                ]);
                let l2 = int_cols[self.rng.below(int_cols.len() as u64) as usize].clone();
                let r2 = rints[self.rng.below(rints.len() as u64) as usize].clone();
                let extra = self.rng.chance(1, 2);
                let rs = self.fresh("s");
                let ncols: Vec<(String, Ty)> = match side {
                    0 => cols.clone(),
                    1 => right.cols.clone(),
                    _ => cols.iter().chain(right.cols.iter()).cloned().collect(),
                };
                let (d, on) = if k == 16 {
                    let filter = if extra { Some(col(l2.as_str()).lt_eq(col(r2.as_str()))) } else { None };
                    ops.push("join");
                    (
                        df.join(right.df, jt, &[lk.as_str()], &[rk.as_str()], filter).map_err(e2s)?,
                        format!("{lk} = {rk}{}", if extra { format!(" AND {l2} <= {r2}") } else { String::new() }),
                    )
                } else {
                    let mut es = vec![col(lk.as_str()).eq(col(rk.as_str()))];
                    if extra {
                        es.push(col(l2.as_str()).gt(col(r2.as_str())));
                    }
                    ops.push("join_on");
                    (
                        df.join_on(right.df, jt, es).map_err(e2s)?,
                        format!("{lk} = {rk}{}", if extra { format!(" AND {l2} > {r2}") } else { String::new() }),
                    )
                };
                Ok(Chain { implicit_cols: false, df: d, sql: format!("SELECT * FROM ({sql}) AS {s} {kw} ({}) AS {rs} ON {on}", right.sql), cols: ncols, ordered: false, ops })
            }
            _ => {
                let p = self.gen_expr(&cols, Ty::Bool, 1);
                let e = df.parse_sql_expr(&p).map_err(e2s)?;
                ops.push("filter");
                Ok(Chain { implicit_cols: false, df: df.filter(e).map_err(e2s)?, sql: format!("SELECT * FROM ({sql}) AS {s} WHERE {p}"), cols, ordered: false, ops })
            }
        }
    }
}

pub fn run(run: &mut Run, args: &Args) {
    hutil::quiet_panics();
    let mut rng0 = Rng::new(args.seed);
    let rtm = rt::runtime();
    let n = run.budget(300, 8000);
    let mut ds = DataSet::generate(&mut rng0);
    let mut ds2 = DataSet::generate(&mut rng0);
    for i in 0..n {
        if i % 8 == 0 {
            ds = DataSet::generate(&mut rng0);
            ds2 = DataSet::generate(&mut rng0);
        }
        let ctx = ds.fresh_ctx(DataSet::default_cfg());
        let len = 1 + rng0.below(4) as usize;
        let mut cx = Cx { rng: &mut rng0, ctr: 0 };
        let built: R<Chain> = rtm.block_on(async {
            let mut c = cx.base(&ctx).await?;
            for _ in 0..len {
                c = cx.step(&ctx, c).await?;
            }
            Ok(c)
        });
        let chain = match built {
            Ok(c) => c,
            Err(e) => {
                run.count("gen_rejected");
                if run.notes.len() < 10 {
                    run.note(&format!("builder rejected: {e}"));
                }
                continue;
            }
        };
        run.count("chains");
        for o in &chain.ops {
            run.count(&format!("op:{o}"));
        }
        // features of the chain that trigger known DataFrame defects (notes/C48.md)
        let mut trig: Vec<&str> = vec![];
        if chain.implicit_cols {
            trig.push("implicit-group-by-columns");
        }
        if chain.ops.iter().any(|o| o.starts_with("union_by_name")) {
            trig.push("union-by-name");
        }
        if chain.ops.iter().any(|o| *o == "distinct_on") {
            trig.push("distinct-on");
        }
        if let Some(i) = chain.ops.iter().position(|o| *o == "aggregate_global") {
            if chain.ops[i + 1..].iter().any(|o| *o == "filter") {
                trig.push("global-aggregate-then-filter");
            }
        }
        if let Some(i) = chain.ops.iter().position(|o| o.starts_with("union")) {
            // a set operation / sort stacked on a DataFrame union
            if chain.ops[i + 1..].iter().any(|o| o.starts_with("intersect") || o.starts_with("except") || *o == "sort" || o.starts_with("union")) {
                trig.push("op-over-union");
            }
        }
        if chain.ops.iter().any(|o| *o == "select" || o.starts_with("with_column")) {
            trig.push("computed-column");
        }
        let sig_base = format!(
            "{}ops={} sql=`{}` data=`{}`",
            if trig.is_empty() { String::new() } else { format!("[{}] ", trig.join("+")) },
            chain.ops.join(">"),
            chain.sql,
            ds.describe()
        );
        if chain.implicit_cols {
            run.count("implicit_group_by_columns");
        }
        // the SQL side, in a FRESH session
        let ctx2 = ds.fresh_ctx(DataSet::default_cfg());
        let sql_plan = match rtm.block_on(ctx2.state().create_logical_plan(&chain.sql)) {
            Ok(p) => p,
            Err(e) => {
                // the generator's SQL rendering is at fault, not the engine
                run.count("sql_rejected");
                if run.notes.len() < 10 {
                    run.note(&format!("sql rejected: {} :: {}", chain.sql, e2s(e)));
                }
                continue;
            }
        };
        let df_plan = chain.df.logical_plan().clone();
        let ob = rtm.block_on(rt::run_logical(&ctx, &df_plan));
        let oa = rtm.block_on(rt::run_logical(&ctx2, &sql_plan));
        if matches!(oa, rt::Outcome::Err(_)) && matches!(ob, rt::Outcome::Rows { .. }) {
            // the SQL statement itself does not run: there is nothing to compare the DataFrame with
            run.count("sql_side_fails");
            if run.notes.len() < 12 {
                run.note(&format!("sql side fails ({}): {}", rt::last_err(), chain.sql));
            }
            continue;
        }
        match rt::same_outcome(&ob, &oa, chain.ordered, SchemaLevel::TypesExact) {
            Ok(()) => run.oracle(true, "", ""),
            Err((what, detail)) => {
                let ek = if what == "error" {
                    let e = rt::last_err();
                    if e.contains("No field named") {
                        "(no-field)"
                    } else if e.contains("SanityCheckPlan") {
                        "(sanity-check)"
                    } else {
                        "(other)"
                    }
                } else {
                    ""
                };
                run.oracle(false, &format!("df-vs-sql:{what}{ek} {sig_base}"), &format!("{detail} [{}]", rt::last_err()))
            }
        }
        if let (rt::Outcome::Rows { schema: a, .. }, rt::Outcome::Rows { schema: b, .. }) = (&ob, &oa) {
            if a.iter().zip(b.iter()).any(|(x, y)| x.0 != y.0) {
                run.count("names_differ");
            }
            if a.iter().zip(b.iter()).any(|(x, y)| x.2 != y.2) {
                run.count("nullability_differs");
            }
        }
        if matches!(ob, rt::Outcome::Err(_)) {
            run.count("exec_error");
        }
        if rt::same_outcome(&ob, &oa, chain.ordered, SchemaLevel::TypesExact).is_ok() {
            judge_case(run, &df_plan, &sql_plan, &[&ds], chain.ops.len() >= 2);
            // the same question for the OPTIMISED plans of both sides (the optimizer removes the
            // `SELECT *` identity projections every SQL step adds, so these are often `same`)
            if let (Ok(a), Ok(b)) = (ctx.state().optimize(&df_plan), ctx2.state().optimize(&sql_plan)) {
                run.count("optimised_pairs");
                judge_case(run, &a, &b, &[&ds], chain.ops.len() >= 2);
            }
        } else {
            run.count("judge_skipped_oracle_failed");
        }
    }
}
