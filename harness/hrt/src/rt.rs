//! rt — shared round-trip utilities: executing a logical / physical plan to canonical rows,
//! schema signatures, error classes, the implementation-level oracle "same rows, same types".
use std::sync::Arc;
use std::time::Duration;

use arrow::array::*;
use arrow::datatypes::{DataType, SchemaRef};
use arrow::record_batch::RecordBatch;
use arrow::util::display::{ArrayFormatter, FormatOptions};
use datafusion::physical_plan::{ExecutionPlan, collect};
use datafusion::prelude::SessionContext;
use datafusion_expr::LogicalPlan;

pub fn runtime() -> tokio::runtime::Runtime {
    tokio::runtime::Builder::new_current_thread().enable_all().build().unwrap()
}

/// result of executing a plan: schema + rows (canonical cell text) or an error class
#[derive(Clone, Debug, PartialEq)]
pub enum Outcome {
    Rows { schema: Vec<(String, String, bool)>, rows: Vec<Vec<String>> },
    Err(String),
}

/// the full text of the most recent execution error (for replay details only)
pub static LAST_ERR: std::sync::Mutex<String> = std::sync::Mutex::new(String::new());

pub fn last_err() -> String {
    LAST_ERR.lock().map(|s| s.chars().take(400).collect()).unwrap_or_default()
}

pub fn err_class(msg: &str) -> String {
    if let Ok(mut l) = LAST_ERR.lock() {
        *l = msg.lines().next().unwrap_or("").to_string();
    }
    let m = msg.to_lowercase();
    if m.contains("divide by zero") {
        "err:div0".into()
    } else if m.contains("overflow") {
        "err:overflow".into()
    } else if m.contains("cast") || m.contains("cannot parse") || m.contains("can't be casted") {
        "err:cast".into()
    } else if m.contains("more than one row") || m.contains("at most one row") {
        "err:card".into()
    } else if m.contains("resources exhausted") {
        "err:resources".into()
    } else if m.contains("timeout") {
        "err:timeout".into()
    } else if m.contains("panic") {
        "err:panic".into()
    } else {
        "err:other".into()
    }
}

pub fn cell_text(a: &ArrayRef, i: usize) -> String {
    if a.is_null(i) {
        return "null".into();
    }
    match a.data_type() {
        DataType::Int8 => format!("(i 8 s {})", a.as_any().downcast_ref::<Int8Array>().unwrap().value(i)),
        DataType::Int16 => format!("(i 16 s {})", a.as_any().downcast_ref::<Int16Array>().unwrap().value(i)),
        DataType::Int32 => format!("(i 32 s {})", a.as_any().downcast_ref::<Int32Array>().unwrap().value(i)),
        DataType::Int64 => format!("(i 64 s {})", a.as_any().downcast_ref::<Int64Array>().unwrap().value(i)),
        DataType::UInt8 => format!("(i 8 u {})", a.as_any().downcast_ref::<UInt8Array>().unwrap().value(i)),
        DataType::UInt16 => format!("(i 16 u {})", a.as_any().downcast_ref::<UInt16Array>().unwrap().value(i)),
        DataType::UInt32 => format!("(i 32 u {})", a.as_any().downcast_ref::<UInt32Array>().unwrap().value(i)),
        DataType::UInt64 => format!("(i 64 u {})", a.as_any().downcast_ref::<UInt64Array>().unwrap().value(i)),
        DataType::Boolean => format!("(b {})", if a.as_any().downcast_ref::<BooleanArray>().unwrap().value(i) { "t" } else { "f" }),
        DataType::Utf8 => format!("(s {})", hutil::hex(a.as_any().downcast_ref::<StringArray>().unwrap().value(i).as_bytes())),
        DataType::LargeUtf8 => format!("(s {})", hutil::hex(a.as_any().downcast_ref::<LargeStringArray>().unwrap().value(i).as_bytes())),
        DataType::Utf8View => format!("(s {})", hutil::hex(a.as_any().downcast_ref::<StringViewArray>().unwrap().value(i).as_bytes())),
        _ => {
            let opts = FormatOptions::default();
            match ArrayFormatter::try_new(a.as_ref(), &opts) {
                Ok(f) => format!("(o {})", hutil::hex(f.value(i).to_string().as_bytes())),
                Err(_) => "(o ?)".into(),
            }
        }
    }
}

pub fn schema_sig(s: &SchemaRef) -> Vec<(String, String, bool)> {
    s.fields().iter().map(|f| (f.name().clone(), format!("{}", f.data_type()), f.is_nullable())).collect()
}

pub fn batches_rows(batches: &[RecordBatch]) -> Vec<Vec<String>> {
    let mut rows = vec![];
    for b in batches {
        for i in 0..b.num_rows() {
            rows.push((0..b.num_columns()).map(|j| cell_text(b.column(j), i)).collect());
        }
    }
    rows
}

const DEADLINE: Duration = Duration::from_secs(20);

pub async fn run_logical(ctx: &SessionContext, plan: &LogicalPlan) -> Outcome {
    let fut = async {
        let df = ctx.execute_logical_plan(plan.clone()).await?;
        let schema: SchemaRef = Arc::new(df.schema().as_arrow().clone());
        let batches = df.collect().await?;
        // the stream's own schema when there is one (it is what the consumer sees)
        let schema = batches.first().map(|b| b.schema()).unwrap_or(schema);
        Ok::<_, datafusion_common::DataFusionError>((schema, batches))
    };
    match tokio::time::timeout(DEADLINE, fut).await {
        Err(_) => Outcome::Err("err:timeout".into()),
        Ok(Err(e)) => Outcome::Err(err_class(&e.to_string())),
        Ok(Ok((schema, batches))) => Outcome::Rows { schema: schema_sig(&schema), rows: batches_rows(&batches) },
    }
}

pub async fn run_physical(ctx: &SessionContext, plan: Arc<dyn ExecutionPlan>) -> Outcome {
    let schema = plan.schema();
    let fut = collect(plan, ctx.task_ctx());
    match tokio::time::timeout(DEADLINE, fut).await {
        Err(_) => Outcome::Err("err:timeout".into()),
        Ok(Err(e)) => Outcome::Err(err_class(&e.to_string())),
        Ok(Ok(batches)) => Outcome::Rows { schema: schema_sig(&schema), rows: batches_rows(&batches) },
    }
}

/// how strictly output schemas are compared
#[derive(Clone, Copy, PartialEq)]
pub enum SchemaLevel {
    /// names, types, nullability
    Full,
    /// names and types
    NamesTypes,
    /// exact types only (names and nullability flags are not compared)
    TypesExact,
    /// types only, up to logical equivalence (Utf8 ~ LargeUtf8 ~ Utf8View)
    LogicalTypes,
}

fn logical_ty(t: &str) -> &str {
    match t {
        "Utf8View" | "LargeUtf8" => "Utf8",
        t => t,
    }
}

pub fn rows_text(rows: &[Vec<String>]) -> String {
    let mut s = String::from("(");
    for (i, r) in rows.iter().enumerate() {
        if i > 0 {
            s.push(' ');
        }
        s.push('(');
        s.push_str(&r.join(" "));
        s.push(')');
    }
    s.push(')');
    s
}

/// Compare two outcomes.  `ordered`: compare row lists, otherwise bags.  Returns `Ok(())` or a
/// short description of the first difference (`rows`, `type`, `nullable`, `name`, `arity`, `error`).
pub fn same_outcome(a: &Outcome, b: &Outcome, ordered: bool, level: SchemaLevel) -> Result<(), (String, String)> {
    match (a, b) {
        (Outcome::Err(x), Outcome::Err(y)) => {
            if x == y || (x != "err:timeout" && y != "err:timeout" && x != "err:panic" && y != "err:panic") {
                // both fail (the class may differ when several rows fail for different reasons)
                Ok(())
            } else {
                Err(("error".into(), format!("before {x} after {y}")))
            }
        }
        (Outcome::Err(x), Outcome::Rows { .. }) => Err(("error".into(), format!("before fails with {x} ({}), after returns rows", last_err()))),
        (Outcome::Rows { .. }, Outcome::Err(y)) => Err(("error".into(), format!("before returns rows, after fails with {y} ({})", last_err()))),
        (Outcome::Rows { schema: sa, rows: ra }, Outcome::Rows { schema: sb, rows: rb }) => {
            if sa.len() != sb.len() {
                return Err(("arity".into(), format!("{} vs {} columns", sa.len(), sb.len())));
            }
            for (i, (x, y)) in sa.iter().zip(sb.iter()).enumerate() {
                let ty_ok = if level == SchemaLevel::LogicalTypes { logical_ty(&x.1) == logical_ty(&y.1) } else { x.1 == y.1 };
                if !ty_ok {
                    return Err(("type".into(), format!("column {i}: {} vs {}", x.1, y.1)));
                }
                if (level == SchemaLevel::Full || level == SchemaLevel::NamesTypes) && x.0 != y.0 {
                    return Err(("name".into(), format!("column {i}: `{}` vs `{}`", x.0, y.0)));
                }
                if level == SchemaLevel::Full && x.2 != y.2 {
                    return Err(("nullable".into(), format!("column {i} `{}`: nullable {} vs {}", x.0, x.2, y.2)));
                }
            }
            let (mut ra, mut rb) = (ra.clone(), rb.clone());
            if !ordered {
                ra.sort();
                rb.sort();
            }
            if ra != rb {
                return Err(("rows".into(), format!("before {} after {}", rows_text(&ra), rows_text(&rb))));
            }
            Ok(())
        }
    }
}
