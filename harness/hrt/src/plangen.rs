//! plangen — small data sets (MemTables with NULLs, duplicates, a NOT NULL column) and a compact
//! generator of SQL text over them, shared by C35 / C36 / C37 / C38 / C48.
//!
//! Every random choice derives from the `hutil::Rng` handed in.  The generator is type-aware
//! (Int / Str / Bool) so that most statements plan; statements the planner rejects are counted by
//! the callers (`gen_rejected`) and skipped.  Queries that carry `ORDER BY` always order by *all*
//! output columns, so an ordered result is a deterministic list; everything else is a bag.
use std::sync::Arc;

use arrow::array::{ArrayRef, BooleanArray, Int32Array, Int64Array, StringArray};
use arrow::datatypes::{DataType, Field, Schema, SchemaRef};
use arrow::record_batch::RecordBatch;
use datafusion::datasource::MemTable;
use datafusion::prelude::{SessionConfig, SessionContext};
use hutil::Rng;

#[derive(Clone, Copy, PartialEq, Eq, Debug)]
pub enum Ty {
    Int,
    Str,
    Bool,
}

#[derive(Clone, Debug, PartialEq)]
pub enum Cell {
    Null,
    I(i64),
    S(String),
    B(bool),
}

#[derive(Clone, Debug)]
pub struct ColDef {
    pub name: &'static str,
    pub dt: DataType,
    pub nullable: bool,
}

#[derive(Clone, Debug)]
pub struct TableDef {
    pub name: &'static str,
    pub cols: Vec<ColDef>,
    pub rows: Vec<Vec<Cell>>,
}

#[derive(Clone, Debug)]
pub struct DataSet {
    pub tables: Vec<TableDef>,
}

fn col(name: &'static str, dt: DataType, nullable: bool) -> ColDef {
    ColDef { name, dt, nullable }
}

pub fn table_shapes() -> Vec<TableDef> {
    vec![
        TableDef {
            name: "t1",
            cols: vec![
                col("a", DataType::Int32, true),
                col("b", DataType::Int32, true),
                col("c", DataType::Utf8, true),
                col("d", DataType::Boolean, true),
            ],
            rows: vec![],
        },
        TableDef {
            name: "t2",
            cols: vec![col("a", DataType::Int32, false), col("e", DataType::Int64, true), col("f", DataType::Utf8, true)],
            rows: vec![],
        },
        TableDef { name: "t3", cols: vec![col("g", DataType::Int32, true), col("h", DataType::Utf8, false)], rows: vec![] },
    ]
}

const STRS: [&str; 7] = ["a", "b", "ab", "", "B", "a%", "ba"];

impl DataSet {
    pub fn generate(rng: &mut Rng) -> DataSet {
        let mut tables = table_shapes();
        for t in tables.iter_mut() {
            let n = match rng.below(10) {
                0 => 0,
                1 => 1,
                _ => 3 + rng.below(4) as usize,
            };
            for _ in 0..n {
                let mut row = vec![];
                for c in &t.cols {
                    let null = c.nullable && rng.chance(1, 4);
                    row.push(if null {
                        Cell::Null
                    } else {
                        match c.dt {
                            DataType::Int32 | DataType::Int64 => Cell::I(rng.range(-2, 3)),
                            DataType::Utf8 => Cell::S(rng.pick(&STRS).to_string()),
                            _ => Cell::B(rng.chance(1, 2)),
                        }
                    });
                }
                t.rows.push(row.clone());
                if rng.chance(1, 6) {
                    t.rows.push(row); // exact duplicate
                }
            }
        }
        DataSet { tables }
    }

    pub fn schema_of(t: &TableDef) -> SchemaRef {
        Arc::new(Schema::new(t.cols.iter().map(|c| Field::new(c.name, c.dt.clone(), c.nullable)).collect::<Vec<_>>()))
    }

    fn batch(t: &TableDef, rows: &[Vec<Cell>]) -> RecordBatch {
        let schema = Self::schema_of(t);
        let mut arrays: Vec<ArrayRef> = vec![];
        for (j, c) in t.cols.iter().enumerate() {
            let a: ArrayRef = match c.dt {
                DataType::Int32 => Arc::new(Int32Array::from(
                    rows.iter().map(|r| if let Cell::I(v) = &r[j] { Some(*v as i32) } else { None }).collect::<Vec<_>>(),
                )),
                DataType::Int64 => Arc::new(Int64Array::from(
                    rows.iter().map(|r| if let Cell::I(v) = &r[j] { Some(*v) } else { None }).collect::<Vec<_>>(),
                )),
                DataType::Utf8 => Arc::new(StringArray::from(
                    rows.iter().map(|r| if let Cell::S(v) = &r[j] { Some(v.clone()) } else { None }).collect::<Vec<_>>(),
                )),
                _ => Arc::new(BooleanArray::from(
                    rows.iter().map(|r| if let Cell::B(v) = &r[j] { Some(*v) } else { None }).collect::<Vec<_>>(),
                )),
            };
            arrays.push(a);
        }
        RecordBatch::try_new(schema, arrays).unwrap()
    }

    /// a FRESH session with the data registered as MemTables (one partition, two batches)
    pub fn fresh_ctx(&self, cfg: SessionConfig) -> SessionContext {
        let ctx = SessionContext::new_with_config(cfg);
        for t in &self.tables {
            let k = t.rows.len() / 2;
            let batches = vec![Self::batch(t, &t.rows[..k]), Self::batch(t, &t.rows[k..])];
            let mt = MemTable::try_new(Self::schema_of(t), vec![batches]).unwrap();
            ctx.register_table(t.name, Arc::new(mt)).unwrap();
        }
        ctx
    }

    pub fn default_cfg() -> SessionConfig {
        SessionConfig::new().with_target_partitions(2).with_batch_size(4)
    }

    /// the model's `db` s-expression
    pub fn db_sexp(&self) -> String {
        let mut s = String::from("(");
        for (i, t) in self.tables.iter().enumerate() {
            if i > 0 {
                s.push(' ');
            }
            s.push_str(&format!("({} {} (", t.name, t.cols.len()));
            for (k, r) in t.rows.iter().enumerate() {
                if k > 0 {
                    s.push(' ');
                }
                s.push('(');
                for (j, c) in r.iter().enumerate() {
                    if j > 0 {
                        s.push(' ');
                    }
                    s.push_str(&match c {
                        Cell::Null => "null".to_string(),
                        Cell::I(v) => format!("(i {} s {})", if t.cols[j].dt == DataType::Int64 { 64 } else { 32 }, v),
                        Cell::S(v) => format!("(s {})", hutil::hex(v.as_bytes())),
                        Cell::B(v) => format!("(b {})", if *v { "t" } else { "f" }),
                    });
                }
                s.push(')');
            }
            s.push_str("))");
        }
        s.push(')');
        s
    }

    /// human readable dump for notes / replays
    pub fn describe(&self) -> String {
        let mut s = String::new();
        for t in &self.tables {
            s.push_str(&format!("{}({}): ", t.name, t.cols.iter().map(|c| c.name).collect::<Vec<_>>().join(",")));
            for r in &t.rows {
                s.push('[');
                s.push_str(
                    &r.iter()
                        .map(|c| match c {
                            Cell::Null => "NULL".to_string(),
                            Cell::I(v) => v.to_string(),
                            Cell::S(v) => format!("'{v}'"),
                            Cell::B(v) => v.to_string(),
                        })
                        .collect::<Vec<_>>()
                        .join(","),
                );
                s.push(']');
            }
            s.push_str("; ");
        }
        s
    }
}

// ------------------------------------------------------------------------------------------ SQL

#[derive(Clone, Debug)]
pub struct ScopeCol {
    pub text: String,
    pub ty: Ty,
}
pub type Scope = Vec<ScopeCol>;

#[derive(Clone, Debug)]
pub struct Query {
    pub sql: String,
    pub tys: Vec<Ty>,
    /// carries a top-level ORDER BY over all output columns: the result is a deterministic list
    pub ordered: bool,
    /// feature tags (for the input-distribution counters)
    pub tags: Vec<&'static str>,
}

pub struct Gen<'a> {
    pub rng: &'a mut Rng,
    alias: u32,
    tags: Vec<&'static str>,
    /// allow window functions / scalar functions outside the Lean fragment
    pub wide: bool,
}

fn ty_of(dt: &DataType) -> Ty {
    match dt {
        DataType::Utf8 => Ty::Str,
        DataType::Boolean => Ty::Bool,
        _ => Ty::Int,
    }
}

impl<'a> Gen<'a> {
    pub fn new(rng: &'a mut Rng) -> Self {
        Gen { rng, alias: 0, tags: vec![], wide: true }
    }

    fn tag(&mut self, t: &'static str) {
        if !self.tags.contains(&t) {
            self.tags.push(t);
        }
    }

    fn fresh(&mut self, p: &str) -> String {
        self.alias += 1;
        format!("{p}{}", self.alias)
    }

    fn table_scope(&mut self, t: &TableDef, qual: &str) -> Scope {
        t.cols.iter().map(|c| ScopeCol { text: format!("{qual}.{}", c.name), ty: ty_of(&c.dt) }).collect()
    }

    fn pick_table(&mut self) -> TableDef {
        let ts = table_shapes();
        ts[self.rng.below(ts.len() as u64) as usize].clone()
    }

    fn cols_of(sc: &Scope, ty: Ty) -> Vec<&ScopeCol> {
        sc.iter().filter(|c| c.ty == ty).collect()
    }

    // ---- scalar expressions

    pub fn int_lit(&mut self) -> String {
        match self.rng.below(12) {
            0 => "NULL".into(),
            1 => "0".into(),
            2 => "-1".into(),
            3 => "2147483647".into(),
            _ => self.rng.range(-2, 3).to_string(),
        }
    }

    pub fn str_lit(&mut self) -> String {
        match self.rng.below(10) {
            0 => "NULL".into(),
            1 => "'it''s'".into(),
            _ => format!("'{}'", self.rng.pick(&STRS)),
        }
    }

    pub fn expr(&mut self, sc: &Scope, ty: Ty, d: u32) -> String {
        match ty {
            Ty::Int => self.int_expr(sc, d),
            Ty::Str => self.str_expr(sc, d),
            Ty::Bool => self.pred(sc, d, false),
        }
    }

    pub fn int_expr(&mut self, sc: &Scope, d: u32) -> String {
        let cols = Self::cols_of(sc, Ty::Int);
        let leaf = d == 0 || self.rng.chance(2, 5);
        if leaf {
            if !cols.is_empty() && self.rng.chance(3, 4) {
                return cols[self.rng.below(cols.len() as u64) as usize].text.clone();
            }
            return self.int_lit();
        }
        match self.rng.below(12) {
            0 | 1 => {
                let op = *self.rng.pick(&["+", "-", "*"]);
                format!("({} {op} {})", self.int_expr(sc, d - 1), self.int_expr(sc, d - 1))
            }
            2 => {
                self.tag("div");
                let op = *self.rng.pick(&["/", "%"]);
                format!("({} {op} {})", self.int_expr(sc, d - 1), self.rng.pick(&["2", "3", "-2"]))
            }
            3 => format!("(- {})", self.int_expr(sc, d - 1)),
            4 | 5 => {
                self.tag("case");
                if self.rng.chance(1, 3) {
                    format!(
                        "CASE {} WHEN {} THEN {} WHEN {} THEN {} END",
                        self.int_expr(sc, d - 1),
                        self.int_lit(),
                        self.int_expr(sc, d - 1),
                        self.int_lit(),
                        self.int_lit()
                    )
                } else {
                    format!(
                        "CASE WHEN {} THEN {} ELSE {} END",
                        self.pred(sc, d - 1, false),
                        self.int_expr(sc, d - 1),
                        self.int_expr(sc, d - 1)
                    )
                }
            }
            6 => {
                self.tag("cast");
                let t = *self.rng.pick(&["BIGINT", "INT", "SMALLINT"]);
                if self.rng.chance(1, 2) {
                    format!("CAST({} AS {t})", self.int_expr(sc, d - 1))
                } else {
                    format!("TRY_CAST({} AS {t})", self.str_expr(sc, d - 1))
                }
            }
            7 => {
                self.tag("coalesce");
                format!("COALESCE({}, {})", self.int_expr(sc, d - 1), self.int_expr(sc, d - 1))
            }
            8 => {
                self.tag("nullif");
                format!("NULLIF({}, {})", self.int_expr(sc, d - 1), self.int_expr(sc, d - 1))
            }
            9 if self.wide => {
                self.tag("scalar_fn");
                if self.rng.chance(1, 2) {
                    format!("abs({})", self.int_expr(sc, d - 1))
                } else {
                    format!("character_length({})", self.str_expr(sc, d - 1))
                }
            }
            10 => {
                self.tag("cast");
                format!("CAST({} AS INT)", self.pred(sc, d - 1, false))
            }
            _ => self.int_expr(sc, 0),
        }
    }

    pub fn str_expr(&mut self, sc: &Scope, d: u32) -> String {
        let cols = Self::cols_of(sc, Ty::Str);
        let leaf = d == 0 || self.rng.chance(1, 2);
        if leaf {
            if !cols.is_empty() && self.rng.chance(3, 4) {
                return cols[self.rng.below(cols.len() as u64) as usize].text.clone();
            }
            return self.str_lit();
        }
        match self.rng.below(7) {
            0 | 1 => {
                self.tag("concat");
                format!("({} || {})", self.str_expr(sc, d - 1), self.str_expr(sc, d - 1))
            }
            2 => {
                self.tag("cast");
                format!("CAST({} AS VARCHAR)", self.int_expr(sc, d - 1))
            }
            3 => {
                self.tag("case");
                format!("CASE WHEN {} THEN {} ELSE {} END", self.pred(sc, d - 1, false), self.str_expr(sc, d - 1), self.str_lit())
            }
            4 => {
                self.tag("coalesce");
                format!("COALESCE({}, {})", self.str_expr(sc, d - 1), self.str_lit())
            }
            5 if self.wide => {
                self.tag("scalar_fn");
                let f = *self.rng.pick(&["upper", "lower", "btrim"]);
                format!("{f}({})", self.str_expr(sc, d - 1))
            }
            _ => self.str_expr(sc, 0),
        }
    }

    /// a boolean expression; `subq`: sub-queries allowed here
    pub fn pred(&mut self, sc: &Scope, d: u32, subq: bool) -> String {
        let n = if d == 0 { 7 } else if subq { 16 } else { 12 };
        match self.rng.below(n) {
            0 | 1 => {
                let op = *self.rng.pick(&["=", "<>", "<", "<=", ">", ">="]);
                let dd = d.saturating_sub(1);
                format!("{} {op} {}", self.int_expr(sc, dd), self.int_expr(sc, dd))
            }
            2 => {
                let op = *self.rng.pick(&["=", "<>", "<", ">="]);
                let dd = d.saturating_sub(1);
                format!("{} {op} {}", self.str_expr(sc, dd), self.str_expr(sc, dd))
            }
            3 => {
                self.tag("is_null");
                let ty = *self.rng.pick(&[Ty::Int, Ty::Str]);
                let e = self.expr(sc, ty, 0);
                format!("{e} IS {}NULL", if self.rng.chance(1, 2) { "NOT " } else { "" })
            }
            4 => {
                self.tag("in_list");
                let neg = if self.rng.chance(1, 3) { "NOT " } else { "" };
                if self.rng.chance(2, 3) {
                    format!("{} {neg}IN ({}, {}, {})", self.int_expr(sc, 0), self.int_lit(), self.int_lit(), self.int_lit())
                } else {
                    format!("{} {neg}IN ({}, {})", self.str_expr(sc, 0), self.str_lit(), self.str_lit())
                }
            }
            5 => {
                self.tag("between");
                let neg = if self.rng.chance(1, 3) { "NOT " } else { "" };
                format!("{} {neg}BETWEEN {} AND {}", self.int_expr(sc, 0), self.int_lit(), self.int_lit())
            }
            6 => {
                self.tag("like");
                let neg = if self.rng.chance(1, 3) { "NOT " } else { "" };
                let kw = if self.rng.chance(1, 4) { "ILIKE" } else { "LIKE" };
                let pat = *self.rng.pick(&["'a%'", "'%b'", "'_'", "'%'", "'a\\%'", "'%a%'", "''"]);
                format!("{} {neg}{kw} {pat}", self.str_expr(sc, 0))
            }
            7 | 8 => {
                let op = *self.rng.pick(&["AND", "OR"]);
                format!("({} {op} {})", self.pred(sc, d - 1, subq), self.pred(sc, d - 1, subq))
            }
            9 => format!("(NOT {})", self.pred(sc, d - 1, subq)),
            10 => {
                self.tag("is_bool");
                let k = *self.rng.pick(&["TRUE", "FALSE", "UNKNOWN"]);
                let neg = if self.rng.chance(1, 2) { "NOT " } else { "" };
                let bcols = Self::cols_of(sc, Ty::Bool);
                let e = if !bcols.is_empty() && self.rng.chance(1, 2) {
                    bcols[self.rng.below(bcols.len() as u64) as usize].text.clone()
                } else {
                    format!("({})", self.pred(sc, d - 1, false))
                };
                format!("{e} IS {neg}{k}")
            }
            11 => {
                self.tag("is_distinct");
                let neg = if self.rng.chance(1, 2) { "NOT " } else { "" };
                format!("{} IS {neg}DISTINCT FROM {}", self.int_expr(sc, d - 1), self.int_expr(sc, d - 1))
            }
            12 => {
                // EXISTS, possibly correlated
                self.tag("exists");
                let t = self.pick_table();
                let q = self.fresh("s");
                let isc = self.table_scope(&t, &q);
                let neg = if self.rng.chance(1, 3) { "NOT " } else { "" };
                let w = self.corr_pred(sc, &isc);
                format!("{neg}EXISTS (SELECT 1 FROM {} AS {q} WHERE {w})", t.name)
            }
            13 => {
                self.tag("in_subquery");
                let t = self.pick_table();
                let q = self.fresh("s");
                let isc = self.table_scope(&t, &q);
                let neg = if self.rng.chance(1, 2) { "NOT " } else { "" };
                let ic = Self::cols_of(&isc, Ty::Int)[0].text.clone();
                let w = if self.rng.chance(1, 2) { format!(" WHERE {}", self.corr_pred(sc, &isc)) } else { String::new() };
                format!("{} {neg}IN (SELECT {ic} FROM {} AS {q}{w})", self.int_expr(sc, 0), t.name)
            }
            14 => {
                self.tag("scalar_subquery");
                let t = self.pick_table();
                let q = self.fresh("s");
                let isc = self.table_scope(&t, &q);
                let ic = Self::cols_of(&isc, Ty::Int)[0].text.clone();
                let f = *self.rng.pick(&["max", "min", "count", "sum"]);
                let w = if self.rng.chance(1, 2) { format!(" WHERE {}", self.corr_pred(sc, &isc)) } else { String::new() };
                let op = *self.rng.pick(&["=", "<", ">="]);
                format!("{} {op} (SELECT {f}({ic}) FROM {} AS {q}{w})", self.int_expr(sc, 0), t.name)
            }
            _ => {
                let bcols = Self::cols_of(sc, Ty::Bool);
                if !bcols.is_empty() {
                    bcols[self.rng.below(bcols.len() as u64) as usize].text.clone()
                } else {
                    self.rng.pick(&["TRUE", "FALSE"]).to_string()
                }
            }
        }
    }

    /// predicate inside a sub-query: correlated equality with an outer column (mostly) and/or a local one
    fn corr_pred(&mut self, outer: &Scope, inner: &Scope) -> String {
        let oi = Self::cols_of(outer, Ty::Int);
        let ii = Self::cols_of(inner, Ty::Int);
        if !oi.is_empty() && !ii.is_empty() && self.rng.chance(3, 4) {
            self.tag("correlated");
            let o = oi[self.rng.below(oi.len() as u64) as usize].text.clone();
            let i = ii[self.rng.below(ii.len() as u64) as usize].text.clone();
            let op = *self.rng.pick(&["=", "=", "=", "<", "<>"]);
            if self.rng.chance(1, 3) {
                format!("{i} {op} {o} AND {}", self.pred(inner, 0, false))
            } else {
                format!("{i} {op} {o}")
            }
        } else {
            self.pred(inner, 1, false)
        }
    }

    // ---- FROM

    fn from(&mut self, d: u32) -> (String, Scope) {
        match self.rng.below(if d == 0 { 3 } else { 12 }) {
            0 | 1 => {
                let t = self.pick_table();
                let sc = self.table_scope(&t, t.name);
                (t.name.to_string(), sc)
            }
            2 => {
                self.tag("table_alias");
                let t = self.pick_table();
                let q = self.fresh("x");
                let sc = self.table_scope(&t, &q);
                (format!("{} AS {q}", t.name), sc)
            }
            3..=7 => {
                let l = self.pick_table();
                let r = self.pick_table();
                let (lq, rq) = if l.name == r.name || self.rng.chance(1, 4) {
                    (self.fresh("x"), self.fresh("y"))
                } else {
                    (l.name.to_string(), r.name.to_string())
                };
                let lsc = self.table_scope(&l, &lq);
                let rsc = self.table_scope(&r, &rq);
                let lt = if lq == l.name { l.name.to_string() } else { format!("{} AS {lq}", l.name) };
                let rt = if rq == r.name { r.name.to_string() } else { format!("{} AS {rq}", r.name) };
                let li = Self::cols_of(&lsc, Ty::Int);
                let ri = Self::cols_of(&rsc, Ty::Int);
                let lk = li[self.rng.below(li.len() as u64) as usize].text.clone();
                let rk = ri[self.rng.below(ri.len() as u64) as usize].text.clone();
                let mut both = lsc.clone();
                both.extend(rsc.clone());
                let mut on = match self.rng.below(6) {
                    0 => format!("{lk} < {rk}"),
                    1 => format!("{lk} = {rk} + 1"),
                    _ => format!("{lk} = {rk}"),
                };
                if self.rng.chance(1, 3) {
                    on = format!("{on} AND {}", self.pred(&both, 1, false));
                }
                let k = self.rng.below(10);
                let (kw, sc, tag): (&str, Scope, &'static str) = match k {
                    0 | 1 => ("INNER JOIN", both, "join_inner"),
                    2 => ("LEFT JOIN", both, "join_left"),
                    3 => ("RIGHT JOIN", both, "join_right"),
                    4 => ("FULL JOIN", both, "join_full"),
                    5 => ("LEFT SEMI JOIN", lsc, "join_leftsemi"),
                    6 => ("LEFT ANTI JOIN", lsc, "join_leftanti"),
                    7 => ("RIGHT SEMI JOIN", rsc, "join_rightsemi"),
                    8 => ("RIGHT ANTI JOIN", rsc, "join_rightanti"),
                    _ => ("CROSS JOIN", both, "join_cross"),
                };
                self.tag(tag);
                if kw == "CROSS JOIN" {
                    (format!("{lt} CROSS JOIN {rt}"), sc)
                } else {
                    (format!("{lt} {kw} {rt} ON {on}"), sc)
                }
            }
            8 => {
                // three-way join
                self.tag("join_3way");
                (
                    "t1 JOIN t2 ON t1.a = t2.a LEFT JOIN t3 ON t2.a = t3.g".to_string(),
                    {
                        let ts = table_shapes();
                        let mut sc = self.table_scope(&ts[0], "t1");
                        sc.extend(self.table_scope(&ts[1], "t2"));
                        sc.extend(self.table_scope(&ts[2], "t3"));
                        sc
                    },
                )
            }
            _ => {
                self.tag("derived_table");
                let q = self.select(d - 1, None);
                let a = self.fresh("dt");
                let sc = q.tys.iter().enumerate().map(|(i, t)| ScopeCol { text: format!("{a}.c{i}"), ty: *t }).collect();
                (format!("({}) AS {a}", q.sql), sc)
            }
        }
    }

    // ---- SELECT (no top-level ORDER BY); output columns are always named c0..c(n-1)

    /// `want`: required output types (for set operations)
    pub fn select(&mut self, d: u32, want: Option<&[Ty]>) -> Query {
        let k = self.rng.below(if d == 0 { 6 } else { 11 });
        match k {
            0..=3 => self.plain(d, want),
            4 | 5 => self.grouped(d, want),
            6 | 7 => {
                // set operation
                let l = self.select(d - 1, want);
                let r = self.select(d - 1, Some(&l.tys.clone()));
                let op = *self.rng.pick(&["UNION ALL", "UNION", "INTERSECT", "EXCEPT", "UNION ALL", "INTERSECT ALL", "EXCEPT ALL"]);
                self.tag(match op {
                    "UNION ALL" => "union_all",
                    "UNION" => "union",
                    "INTERSECT" => "intersect",
                    "EXCEPT" => "except",
                    "INTERSECT ALL" => "intersect_all",
                    _ => "except_all",
                });
                Query { sql: format!("({}) {op} ({})", l.sql, r.sql), tys: l.tys, ordered: false, tags: vec![] }
            }
            8 if self.wide && want.is_none() => self.windowed(),
            9 => {
                self.tag("cte");
                let inner = self.select(d - 1, None);
                let w = self.fresh("w");
                let sc: Scope = inner.tys.iter().enumerate().map(|(i, t)| ScopeCol { text: format!("{w}.c{i}"), ty: *t }).collect();
                let items = self.items(&sc, want, 1);
                let wh = if self.rng.chance(1, 2) { format!(" WHERE {}", self.pred(&sc, 1, false)) } else { String::new() };
                Query {
                    sql: format!("WITH {w} AS ({}) SELECT {} FROM {w}{wh}", inner.sql, items.0),
                    tys: items.1,
                    ordered: false,
                    tags: vec![],
                }
            }
            _ => self.plain(d, want),
        }
    }

    /// select list `e AS c0, ...`
    fn items(&mut self, sc: &Scope, want: Option<&[Ty]>, d: u32) -> (String, Vec<Ty>) {
        let tys: Vec<Ty> = match want {
            Some(w) => w.to_vec(),
            None => {
                let n = 1 + self.rng.below(3) as usize;
                (0..n).map(|_| *self.rng.pick(&[Ty::Int, Ty::Int, Ty::Str, Ty::Bool])).collect()
            }
        };
        let mut parts = vec![];
        for (i, t) in tys.iter().enumerate() {
            let e = self.expr(sc, *t, d);
            parts.push(format!("{e} AS c{i}"));
        }
        (parts.join(", "), tys)
    }

    fn plain(&mut self, d: u32, want: Option<&[Ty]>) -> Query {
        let (from, sc) = self.from(d);
        let distinct = self.rng.chance(1, 6);
        if distinct {
            self.tag("distinct");
        }
        let (items, tys) = self.items(&sc, want, 2);
        let wh = if self.rng.chance(3, 5) {
            self.tag("where");
            format!(" WHERE {}", self.pred(&sc, 2, d > 0))
        } else {
            String::new()
        };
        Query {
            sql: format!("SELECT {}{items} FROM {from}{wh}", if distinct { "DISTINCT " } else { "" }),
            tys,
            ordered: false,
            tags: vec![],
        }
    }

    fn grouped(&mut self, d: u32, want: Option<&[Ty]>) -> Query {
        self.tag("group_by");
        let (from, sc) = self.from(d);
        // output: some keys then aggregates, matching `want` when given
        let tys: Vec<Ty> = match want {
            Some(w) => w.to_vec(),
            None => {
                let n = 1 + self.rng.below(3) as usize;
                (0..n).map(|_| *self.rng.pick(&[Ty::Int, Ty::Int, Ty::Str])).collect()
            }
        };
        let mut keys: Vec<String> = vec![];
        let mut items = vec![];
        for (i, t) in tys.iter().enumerate() {
            let as_key = *t == Ty::Bool || (i == 0 && self.rng.chance(2, 3)) || self.rng.chance(1, 4);
            if as_key {
                let e = self.expr(&sc, *t, 1);
                keys.push(e.clone());
                items.push(format!("{e} AS c{i}"));
            } else {
                let e = match t {
                    Ty::Int => {
                        let f = *self.rng.pick(&["count", "sum", "min", "max", "count_star", "count_distinct", "sum_filter"]);
                        let a = self.int_expr(&sc, 1);
                        match f {
                            "count_star" => "count(*)".to_string(),
                            "count_distinct" => {
                                self.tag("agg_distinct");
                                format!("count(DISTINCT {a})")
                            }
                            "sum_filter" => {
                                self.tag("agg_filter");
                                format!("sum({a}) FILTER (WHERE {})", self.pred(&sc, 1, false))
                            }
                            _ => format!("{f}({a})"),
                        }
                    }
                    _ => {
                        let f = *self.rng.pick(&["min", "max"]);
                        format!("{f}({})", self.str_expr(&sc, 1))
                    }
                };
                items.push(format!("{e} AS c{i}"));
            }
        }
        let wh = if self.rng.chance(1, 2) { format!(" WHERE {}", self.pred(&sc, 1, false)) } else { String::new() };
        let gb = if keys.is_empty() { String::new() } else { format!(" GROUP BY {}", keys.join(", ")) };
        let having = if self.rng.chance(1, 3) {
            self.tag("having");
            let a = self.int_expr(&sc, 0);
            format!(" HAVING {}({a}) {} {}", self.rng.pick(&["count", "max", "sum"]), self.rng.pick(&[">", "<=", "="]), self.rng.range(-1, 3))
        } else {
            String::new()
        };
        Query { sql: format!("SELECT {} FROM {from}{wh}{gb}{having}", items.join(", ")), tys, ordered: false, tags: vec![] }
    }

    fn windowed(&mut self) -> Query {
        self.tag("window");
        let t = self.pick_table();
        let sc = self.table_scope(&t, t.name);
        let all: Vec<String> = sc.iter().map(|c| c.text.clone()).collect();
        let ic = Self::cols_of(&sc, Ty::Int)[0].text.clone();
        let part = if self.rng.chance(1, 2) { format!("PARTITION BY {} ", sc[self.rng.below(sc.len() as u64) as usize].text) } else { String::new() };
        let total = format!("ORDER BY {}", all.join(", "));
        let w = match self.rng.below(7) {
            0 => format!("row_number() OVER ({part}{total})"),
            1 => format!("rank() OVER ({part}ORDER BY {ic})"),
            2 => format!("sum({ic}) OVER ({part}{total} ROWS BETWEEN 1 PRECEDING AND CURRENT ROW)"),
            3 => format!("count(*) OVER ({part})"),
            4 => format!("lag({ic}) OVER ({part}{total})"),
            5 => format!("max({ic}) OVER ({part}ORDER BY {ic} DESC NULLS LAST)"),
            _ => format!("dense_rank() OVER ({part}ORDER BY {ic} NULLS FIRST)"),
        };
        let c0 = sc[self.rng.below(sc.len() as u64) as usize].clone();
        let wh = if self.rng.chance(1, 3) { format!(" WHERE {}", self.pred(&sc, 1, false)) } else { String::new() };
        Query {
            sql: format!("SELECT {} AS c0, {w} AS c1 FROM {}{wh}", c0.text, t.name),
            tys: vec![c0.ty, Ty::Int],
            ordered: false,
            tags: vec![],
        }
    }

    /// a complete statement: a SELECT, optionally `ORDER BY <all columns> [LIMIT n [OFFSET m]]`
    pub fn statement(&mut self) -> Query {
        self.tags.clear();
        self.alias = 0;
        let d = 1 + self.rng.below(2) as u32;
        let q = self.select(d, None);
        let mut sql = q.sql.clone();
        let mut ordered = false;
        let setop = sql.starts_with('(');
        if self.rng.chance(2, 5) {
            self.tag("order_by");
            ordered = true;
            let mut keys = vec![];
            let mut idx: Vec<usize> = (0..q.tys.len()).collect();
            // random key order
            for i in (1..idx.len()).rev() {
                let j = self.rng.below(i as u64 + 1) as usize;
                idx.swap(i, j);
            }
            for i in idx {
                let dir = *self.rng.pick(&["", " ASC", " DESC", " DESC NULLS LAST", " ASC NULLS FIRST", " NULLS LAST"]);
                keys.push(if setop || self.rng.chance(1, 2) { format!("{}{dir}", i + 1) } else { format!("c{i}{dir}") });
            }
            sql = format!("{sql} ORDER BY {}", keys.join(", "));
            if self.rng.chance(1, 2) {
                self.tag("limit");
                sql = format!("{sql} LIMIT {}", self.rng.below(4));
                if self.rng.chance(1, 2) {
                    self.tag("offset");
                    sql = format!("{sql} OFFSET {}", self.rng.below(3));
                }
            }
        }
        Query { sql, tys: q.tys, ordered, tags: self.tags.clone() }
    }
}
