//! C36 — physical plans survive protobuf serialisation.
//!
//! (a) option codecs on REAL operators: `GlobalLimitExec{skip,fetch}`, `LocalLimitExec{fetch}`,
//!     `SortExec{fetch}`, `SortPreservingMergeExec{fetch}`, `CoalescePartitionsExec{fetch}`,
//!     `FilterExec{fetch}` built with boundary values (… 2^32-1, 2^32, 2^63-1, 2^63, usize::MAX),
//!     sent through `physical_plan_to_bytes` / `physical_plan_from_bytes`; the decoded option is
//!     compared with the Lean model of the codec (Base/PhysCodec.lean: `n as i64`/-1, `n as u32`)
//!     — equality — and, as the implementation-level oracle, with the ORIGINAL option
//!     (the property: "same … options").
//! (b) enum tables JoinType / NullEquality / JoinConstraint ↔ protobuf numbers, whole domain.
//! (c) plans: every `plangen` statement planned under several session configurations →
//!     `physical_plan_to_bytes` → `physical_plan_from_bytes` in a FRESH SessionContext;
//!     oracles: same structure by a field-walking export of both plans (operator, per-operator
//!     options, expressions, schema incl. nullability, output partitioning and ordering),
//!     same `displayable` text, and same rows / names / types / nullability when both are
//!     executed.  The exported structures also go to the Lean side (`pjudge`: structural equality
//!     of the two trees).
use std::sync::Arc;

use arrow::datatypes::{DataType, Field, Schema};
use datafusion::physical_plan::aggregates::AggregateExec;
use datafusion::physical_plan::coalesce_partitions::CoalescePartitionsExec;
use datafusion::physical_plan::empty::EmptyExec;
use datafusion::physical_plan::expressions::{
    BinaryExpr, CastExpr, Column, InListExpr, LikeExpr, Literal, TryCastExpr, lit,
};
use datafusion::physical_plan::filter::FilterExec;
use datafusion::physical_plan::joins::{CrossJoinExec, HashJoinExec, NestedLoopJoinExec, SortMergeJoinExec};
use datafusion::physical_plan::limit::{GlobalLimitExec, LocalLimitExec};
use datafusion::physical_plan::projection::ProjectionExec;
use datafusion::physical_plan::repartition::RepartitionExec;
use datafusion::physical_plan::sorts::sort::SortExec;
use datafusion::physical_plan::sorts::sort_preserving_merge::SortPreservingMergeExec;
use datafusion::physical_plan::{ExecutionPlan, ExecutionPlanProperties, Partitioning, PhysicalExpr, displayable};
use datafusion::prelude::SessionConfig;
use datafusion_common::{JoinConstraint, JoinType, NullEquality};
use datafusion_physical_expr::{LexOrdering, PhysicalSortExpr, ScalarFunctionExpr};
use datafusion_proto::bytes::{physical_plan_from_bytes, physical_plan_to_bytes};
use datafusion_proto::protobuf;
use hutil::{Args, Rng, Run};

use crate::export::export_scalar;
use crate::plangen::{DataSet, Gen};
use crate::rt::{self, SchemaLevel};

// --------------------------------------------------------------------------- field-walking export

fn tf(b: bool) -> &'static str {
    if b { "t" } else { "f" }
}

fn atom(s: &str) -> String {
    // one s-expression atom: hex so that blanks/parens never matter
    hutil::hex(s.as_bytes())
}

pub fn pexpr(e: &Arc<dyn PhysicalExpr>) -> String {
    let kids = || e.children().iter().map(|c| pexpr(c)).collect::<Vec<_>>().join(" ");
    if let Some(c) = e.downcast_ref::<Column>() {
        // by index only: the NAME inside a physical Column is not used for evaluation and the decoder
        // re-derives it from the input schema (stale names left by the planner change harmlessly)
        format!("(col {})", c.index())
    } else if let Some(l) = e.downcast_ref::<Literal>() {
        match export_scalar(l.value()) {
            Ok(s) => format!("(lit {} {s})", atom(&l.value().data_type().to_string())),
            Err(_) => format!("(lit-other {})", atom(&format!("{:?}", l.value()))),
        }
    } else if let Some(b) = e.downcast_ref::<BinaryExpr>() {
        format!("(bin {} {})", atom(&format!("{:?}", b.op())), kids())
    } else if let Some(c) = e.downcast_ref::<CastExpr>() {
        format!("(cast {} {})", atom(&c.cast_type().to_string()), kids())
    } else if let Some(c) = e.downcast_ref::<TryCastExpr>() {
        format!("(try_cast {} {})", atom(&c.cast_type().to_string()), kids())
    } else if let Some(i) = e.downcast_ref::<InListExpr>() {
        format!("(in {} {})", tf(i.negated()), kids())
    } else if let Some(l) = e.downcast_ref::<LikeExpr>() {
        format!("(like {} {} {})", tf(l.negated()), tf(l.case_insensitive()), kids())
    } else if let Some(f) = e.downcast_ref::<ScalarFunctionExpr>() {
        format!("(fn {} {} {})", atom(f.name()), atom(&f.return_type().to_string()), kids())
    } else {
        // head = the node's own text with the children's texts removed is not available generically:
        // use the Display text of the node (it includes the children) plus the walked children
        format!("(expr {} {})", atom(&e.to_string()), kids())
    }
}

fn psort(s: &PhysicalSortExpr) -> String {
    format!("({} {} {})", pexpr(&s.expr), tf(s.options.descending), tf(s.options.nulls_first))
}

fn pordering(o: Option<&LexOrdering>) -> String {
    match o {
        None => "()".into(),
        Some(l) => format!("({})", l.iter().map(psort).collect::<Vec<_>>().join(" ")),
    }
}

fn ppartitioning(p: &Partitioning) -> String {
    match p {
        Partitioning::RoundRobinBatch(n) => format!("(rr {n})"),
        Partitioning::Hash(es, n) => format!("(hash {n} {})", es.iter().map(pexpr).collect::<Vec<_>>().join(" ")),
        Partitioning::UnknownPartitioning(n) => format!("(unknown {n})"),
        other => format!("(other {})", atom(&other.to_string())),
    }
}

thread_local! {
    /// when set, schemas are printed without their nullability flags
    static MASK_NULLABLE: std::cell::Cell<bool> = const { std::cell::Cell::new(false) };
}

fn pschema(s: &Schema) -> String {
    let mask = MASK_NULLABLE.with(|m| m.get());
    if mask {
        return format!(
            "({})",
            s.fields().iter().map(|f| format!("({} {})", atom(f.name()), atom(&f.data_type().to_string()))).collect::<Vec<_>>().join(" ")
        );
    }
    format!(
        "({})",
        s.fields()
            .iter()
            .map(|f| format!("({} {} {})", atom(f.name()), atom(&f.data_type().to_string()), tf(f.is_nullable())))
            .collect::<Vec<_>>()
            .join(" ")
    )
}

fn jt(j: &JoinType) -> String {
    format!("{j:?}").to_lowercase()
}

fn opt_n(n: Option<usize>) -> String {
    match n {
        Some(n) => format!("({n})"),
        None => "()".into(),
    }
}

/// operator-specific options, read field by field through the operators' accessors
fn pattrs(p: &dyn ExecutionPlan) -> String {
    if let Some(x) = p.downcast_ref::<ProjectionExec>() {
        format!("(exprs {})", x.expr().iter().map(|pe| format!("({} {})", pexpr(&pe.expr), atom(&pe.alias))).collect::<Vec<_>>().join(" "))
    } else if let Some(x) = p.downcast_ref::<FilterExec>() {
        format!(
            "(pred {}) (proj {}) (sel {})",
            pexpr(x.predicate()),
            atom(&format!("{:?}", x.projection())),
            x.default_selectivity()
        )
    } else if let Some(x) = p.downcast_ref::<GlobalLimitExec>() {
        format!("(skip {}) (gfetch {})", x.skip(), opt_n(x.fetch()))
    } else if let Some(x) = p.downcast_ref::<LocalLimitExec>() {
        format!("(lfetch {})", x.fetch())
    } else if let Some(x) = p.downcast_ref::<SortExec>() {
        format!("(keys {}) (preserve {})", pordering(Some(x.expr())), tf(x.preserve_partitioning()))
    } else if let Some(x) = p.downcast_ref::<SortPreservingMergeExec>() {
        format!("(keys {})", pordering(Some(x.expr())))
    } else if let Some(x) = p.downcast_ref::<RepartitionExec>() {
        format!("(part {}) (preserve_order {})", ppartitioning(x.partitioning()), tf(x.preserve_order()))
    } else if let Some(x) = p.downcast_ref::<HashJoinExec>() {
        format!(
            "(jt {}) (mode {}) (nulleq {}) (on {}) (filter {}) (proj {})",
            jt(x.join_type()),
            atom(&format!("{:?}", x.partition_mode())),
            tf(x.null_equality() == NullEquality::NullEqualsNull),
            x.on().iter().map(|(l, r)| format!("({} {})", pexpr(l), pexpr(r))).collect::<Vec<_>>().join(" "),
            pjoin_filter(x.filter()),
            atom(&format!("{:?}", x.contains_projection()))
        )
    } else if let Some(x) = p.downcast_ref::<NestedLoopJoinExec>() {
        format!("(jt {}) (filter {})", jt(x.join_type()), pjoin_filter(x.filter()))
    } else if let Some(x) = p.downcast_ref::<SortMergeJoinExec>() {
        format!(
            "(jt {}) (nulleq {}) (on {}) (filter {}) (sortopts {})",
            jt(&x.join_type()),
            tf(x.null_equality() == NullEquality::NullEqualsNull),
            x.on().iter().map(|(l, r)| format!("({} {})", pexpr(l), pexpr(r))).collect::<Vec<_>>().join(" "),
            pjoin_filter(x.filter().as_ref()),
            x.sort_options().iter().map(|o| format!("({} {})", tf(o.descending), tf(o.nulls_first))).collect::<Vec<_>>().join(" ")
        )
    } else if p.downcast_ref::<CrossJoinExec>().is_some() {
        "(cross)".into()
    } else if let Some(x) = p.downcast_ref::<AggregateExec>() {
        let g = x.group_expr();
        format!(
            "(mode {}) (group {}) (nullexpr {}) (groups {}) (aggs {}) (filters {}) (limit {})",
            atom(&format!("{:?}", x.mode())),
            g.expr().iter().map(|(e, n)| format!("({} {})", pexpr(e), atom(n))).collect::<Vec<_>>().join(" "),
            g.null_expr().iter().map(|(e, n)| format!("({} {})", pexpr(e), atom(n))).collect::<Vec<_>>().join(" "),
            atom(&format!("{:?}", g.groups())),
            x.aggr_expr()
                .iter()
                .map(|a| {
                    format!(
                        "({} {} {} {} {} ({}) ({}))",
                        atom(a.name()),
                        atom(a.fun().name()),
                        tf(a.is_distinct()),
                        tf(a.ignore_nulls()),
                        tf(a.is_reversed()),
                        a.expressions().iter().map(pexpr).collect::<Vec<_>>().join(" "),
                        a.order_bys().iter().map(psort).collect::<Vec<_>>().join(" ")
                    )
                })
                .collect::<Vec<_>>()
                .join(" "),
            x.filter_expr().iter().map(|f| f.as_ref().map(pexpr).unwrap_or_else(|| "()".into())).collect::<Vec<_>>().join(" "),
            atom(&format!("{:?}", x.limit_options().map(|l| (l.limit, l.descending))))
        )
    } else {
        String::new()
    }
}

fn pjoin_filter(f: Option<&datafusion::physical_plan::joins::utils::JoinFilter>) -> String {
    match f {
        None => "()".into(),
        Some(f) => format!(
            "({} {} {})",
            pexpr(f.expression()),
            atom(&format!("{:?}", f.column_indices().iter().map(|c| (c.index, format!("{:?}", c.side))).collect::<Vec<_>>())),
            pschema(f.schema())
        ),
    }
}

/// `ProjectionExec` whose i-th expression is `col i` or `CAST(col i)`: what `UnionExec::try_new`
/// (`coerce_schema`) wraps around an input whose field nullability differs from the union schema
fn is_coercion_wrapper(p: &Arc<dyn ExecutionPlan>) -> bool {
    match p.downcast_ref::<ProjectionExec>() {
        None => false,
        Some(x) => x.expr().iter().enumerate().all(|(i, pe)| {
            let inner = match pe.expr.downcast_ref::<CastExpr>() {
                Some(c) => Arc::clone(c.expr()),
                None => Arc::clone(&pe.expr),
            };
            matches!(inner.downcast_ref::<Column>(), Some(c) if c.index() == i)
        }),
    }
}

pub fn pexport(p: &Arc<dyn ExecutionPlan>) -> String {
    pexport_with(p, false)
}

/// the whole plan: `(name attrs (fetch ..) (schema ..) (part ..) (order ..) (bounded/emission) child*)`;
/// `elide`: skip the coercion wrappers directly under a UnionExec
pub fn pexport_with(p: &Arc<dyn ExecutionPlan>, elide: bool) -> String {
    let props = p.properties();
    let is_union = p.name() == "UnionExec";
    let kids = p
        .children()
        .iter()
        .map(|c| {
            let mut c: Arc<dyn ExecutionPlan> = Arc::clone(c);
            while elide && is_union && is_coercion_wrapper(&c) {
                let inner = Arc::clone(c.children()[0]);
                c = inner;
            }
            pexport_with(&c, elide)
        })
        .collect::<Vec<_>>()
        .join(" ");
    format!(
        "({} {} (fetch {}) (schema {}) (part {}) (order {}) (props {}) {kids})",
        p.name(),
        pattrs(p.as_ref()),
        opt_n(p.fetch()),
        pschema(p.schema().as_ref()),
        ppartitioning(p.output_partitioning()),
        pordering(p.output_ordering()),
        atom(&format!("{:?}/{:?}", props.emission_type, props.boundedness)),
    )
}

// ------------------------------------------------------------------------------ (a) option codecs

fn empty_input() -> Arc<dyn ExecutionPlan> {
    let schema = Arc::new(Schema::new(vec![Field::new("a", DataType::Int32, true)]));
    Arc::new(EmptyExec::new(schema))
}

fn roundtrip(plan: Arc<dyn ExecutionPlan>) -> Result<Arc<dyn ExecutionPlan>, String> {
    let ctx = datafusion::prelude::SessionContext::new();
    let bytes = physical_plan_to_bytes(plan).map_err(|e| format!("encode: {e}"))?;
    physical_plan_from_bytes(&bytes, &ctx.task_ctx()).map_err(|e| format!("decode: {e}"))
}

fn show_opt(n: Option<usize>) -> String {
    match n {
        Some(n) => n.to_string(),
        None => "none".into(),
    }
}

fn option_codecs(run: &mut Run, rng: &mut Rng) {
    let mut vals: Vec<usize> = vec![
        0,
        1,
        2,
        1000,
        (1usize << 31) - 1,
        1 << 31,
        (1usize << 32) - 1,
        1 << 32,
        (1usize << 32) + 1,
        (1usize << 32) + 5,
        3 << 32,
        (1usize << 63) - 1,
        1 << 63,
        (1usize << 63) + 1,
        usize::MAX - 1,
        usize::MAX,
    ];
    for _ in 0..run.budget(40, 800) {
        let bits = rng.below(64) + 1;
        vals.push((rng.next() >> (64 - bits)) as usize);
    }
    let sort_key = || {
        LexOrdering::new(vec![PhysicalSortExpr::new_default(Arc::new(Column::new("a", 0)) as Arc<dyn PhysicalExpr>)]).unwrap()
    };
    for &v in &vals {
        let fetches: Vec<Option<usize>> = vec![Some(v), None];
        for f in fetches {
            // GlobalLimitExec: skip = v, fetch = f
            let plan: Arc<dyn ExecutionPlan> = Arc::new(GlobalLimitExec::new(empty_input(), v, f));
            let req = format!("(global {v} {})", show_opt(f));
            match hutil::catch(std::panic::AssertUnwindSafe(|| roundtrip(plan))) {
                Ok(Ok(back)) => match back.downcast_ref::<GlobalLimitExec>() {
                    Some(g) => {
                        run.case("limit_codec", &req, &format!("{} {}", g.skip(), show_opt(g.fetch())), v >= (1 << 31));
                        let ok = g.skip() == v && g.fetch() == f;
                        let mut tags = vec![];
                        if g.skip() != v {
                            tags.push(if v >= (1usize << 32) { "skip-truncated-u32" } else { "skip-unexpected" });
                        }
                        if g.fetch() != f {
                            tags.push(if matches!(f, Some(x) if x >= (1usize << 63)) { "fetch-dropped-i64" } else { "fetch-unexpected" });
                        }
                        run.oracle(ok, &format!("limit-codec {} GlobalLimitExec skip={v} fetch={}", tags.join("+"), show_opt(f)), &format!("decoded skip={} fetch={}", g.skip(), show_opt(g.fetch())));
                    }
                    None => run.oracle(false, &format!("limit-codec GlobalLimitExec skip={v} fetch={} wrong-node", show_opt(f)), back.name()),
                },
                Ok(Err(e)) => {
                    run.count("codec_rejected");
                    run.case("limit_codec", &req, &format!("err:{}", if e.starts_with("encode") { "encode" } else { "decode" }), true);
                }
                Err(p) => run.oracle(false, &format!("limit-codec GlobalLimitExec skip={v} panic"), &p),
            }
            run.count("codec_global_limit");
        }
        // operators with a single fetch
        let singles: Vec<(&str, Arc<dyn ExecutionPlan>)> = vec![
            ("local", Arc::new(LocalLimitExec::new(empty_input(), v))),
            ("sort", Arc::new(SortExec::new(sort_key(), empty_input()).with_fetch(Some(v)))),
            ("spm", Arc::new(SortPreservingMergeExec::new(sort_key(), empty_input()).with_fetch(Some(v)))),
            ("coalesce", Arc::new(CoalescePartitionsExec::new(empty_input()).with_fetch(Some(v)))),
            (
                "filter",
                FilterExec::try_new(lit(true), empty_input()).ok().and_then(|f| (Arc::new(f) as Arc<dyn ExecutionPlan>).with_fetch(Some(v))).unwrap_or_else(empty_input),
            ),
        ];
        for (kind, plan) in singles {
            if plan.downcast_ref::<EmptyExec>().is_some() {
                continue;
            }
            let req = format!("({kind} {v})");
            let orig = if kind == "local" { Some(v) } else { plan.fetch() };
            match hutil::catch(std::panic::AssertUnwindSafe(|| roundtrip(plan))) {
                Ok(Ok(back)) => {
                    let got = if kind == "local" { back.downcast_ref::<LocalLimitExec>().map(|l| l.fetch()) } else { back.fetch() };
                    run.case("fetch_codec", &req, &show_opt(got), v >= (1 << 31));
                    let tag = match kind {
                        "sort" | "spm" => if v >= (1usize << 63) { "fetch-dropped-i64" } else { "fetch-unexpected" },
                        _ => if v >= (1usize << 32) { "fetch-truncated-u32" } else { "fetch-unexpected" },
                    };
                    run.oracle(got == orig, &format!("fetch-codec {tag} {kind} fetch={v}"), &format!("{} fetch {} decoded as {}", back.name(), show_opt(orig), show_opt(got)));
                }
                Ok(Err(e)) => {
                    run.count("codec_rejected");
                    run.case("fetch_codec", &req, &format!("err:{}", if e.starts_with("encode") { "encode" } else { "decode" }), true);
                }
                Err(p) => run.oracle(false, &format!("fetch-codec {kind} fetch={v} panic"), &p),
            }
            run.count(&format!("codec_{kind}"));
        }
    }
}

// ------------------------------------------------------------------------------- (b) enum tables

fn enum_tables(run: &mut Run) {
    let jts = [
        JoinType::Inner,
        JoinType::Left,
        JoinType::Right,
        JoinType::Full,
        JoinType::LeftSemi,
        JoinType::RightSemi,
        JoinType::LeftAnti,
        JoinType::RightAnti,
        JoinType::LeftMark,
        JoinType::RightMark,
    ];
    for j in jts {
        let p = protobuf::JoinType::from(j);
        let n = p as i32;
        run.case("join_type", &jt(&j), &n.to_string(), true);
        let back = protobuf::JoinType::try_from(n).ok().map(JoinType::from);
        run.oracle(back == Some(j), &format!("enum JoinType {j:?}"), &format!("{back:?}"));
    }
    for i in 0..12i32 {
        let back = protobuf::JoinType::try_from(i).ok().map(JoinType::from);
        run.case("join_type_of", &i.to_string(), &back.map(|j| jt(&j)).unwrap_or_else(|| "none".into()), true);
    }
    for (ne, name) in [(NullEquality::NullEqualsNothing, "nothing"), (NullEquality::NullEqualsNull, "null")] {
        let p = protobuf::NullEquality::from(ne);
        run.case("null_equality", name, &(p as i32).to_string(), true);
        let back = protobuf::NullEquality::try_from(p as i32).ok().map(NullEquality::from);
        run.oracle(back == Some(ne), &format!("enum NullEquality {ne:?}"), &format!("{back:?}"));
    }
    for (jc, name) in [(JoinConstraint::On, "on"), (JoinConstraint::Using, "using")] {
        let p = protobuf::JoinConstraint::from(jc);
        run.case("join_constraint", name, &(p as i32).to_string(), true);
        let back = protobuf::JoinConstraint::try_from(p as i32).ok().map(JoinConstraint::from);
        run.oracle(back == Some(jc), &format!("enum JoinConstraint {jc:?}"), &format!("{back:?}"));
    }
}

// ------------------------------------------------------------------------------------- (c) plans

fn configs() -> Vec<(&'static str, SessionConfig)> {
    vec![
        ("p1", SessionConfig::new().with_target_partitions(1)),
        ("p4b2", SessionConfig::new().with_target_partitions(4).with_batch_size(2)),
        (
            "p3smj",
            SessionConfig::new().with_target_partitions(3).with_batch_size(3).set_bool("datafusion.optimizer.prefer_hash_join", false),
        ),
        (
            "p2nojoinrep",
            SessionConfig::new()
                .with_target_partitions(2)
                .set_bool("datafusion.optimizer.repartition_joins", false)
                .set_bool("datafusion.optimizer.repartition_aggregations", false)
                .set_bool("datafusion.execution.coalesce_batches", false),
        ),
        (
            "p4collect",
            SessionConfig::new()
                .with_target_partitions(4)
                .set_usize("datafusion.optimizer.hash_join_single_partition_threshold", 0)
                .set_usize("datafusion.optimizer.hash_join_single_partition_threshold_rows", 0)
                .set_bool("datafusion.optimizer.enable_round_robin_repartition", false),
        ),
    ]
}

/// does the plan carry a skip / fetch that the `as u32` option codecs cannot represent?
fn has_big_u32_option(p: &Arc<dyn ExecutionPlan>) -> bool {
    let big = |n: usize| n >= (1usize << 32);
    let here = if let Some(g) = p.downcast_ref::<GlobalLimitExec>() {
        big(g.skip())
    } else if let Some(l) = p.downcast_ref::<LocalLimitExec>() {
        big(l.fetch())
    } else if p.downcast_ref::<SortExec>().is_some()
        || p.downcast_ref::<SortPreservingMergeExec>().is_some()
        || p.downcast_ref::<HashJoinExec>().is_some()
    {
        false // int64 / uint64 encodings
    } else {
        // FilterExec, CoalescePartitionsExec, CoalesceBatchesExec, DataSourceExec (MemorySourceConfig /
        // FileScanConfig limit): optional uint32
        matches!(p.fetch(), Some(n) if big(n))
    };
    here || p.children().iter().any(|c| has_big_u32_option(c))
}

fn op_names(p: &Arc<dyn ExecutionPlan>, out: &mut Vec<String>) {
    out.push(p.name().to_string());
    for c in p.children() {
        op_names(c, out);
    }
}

fn plans(run: &mut Run, rng: &mut Rng) {
    let rtm = rt::runtime();
    let n = run.budget(120, 3000);
    let cfgs = configs();
    let mut ds = DataSet::generate(rng);
    for i in 0..n {
        if i % 8 == 0 {
            ds = DataSet::generate(rng);
        }
        let mut q = Gen::new(rng).statement();
        let mut big_limit = false;
        // large LIMIT / OFFSET values: the option codecs narrow some of them
        if q.ordered && rng.chance(1, 6) {
            big_limit = true;
            let big = *rng.pick(&["4294967296", "4294967297", "2147483648", "9223372036854775807", "4294967295"]);
            if !q.sql.contains(" LIMIT ") {
                q.sql = format!("{} LIMIT {big}", q.sql);
            } else if !q.sql.contains(" OFFSET ") {
                q.sql = format!("{} OFFSET {big}", q.sql);
            }
            run.count("sql:big_limit");
        }
        let picks: Vec<usize> = if run.thorough() { (0..cfgs.len()).collect() } else { vec![i as usize % cfgs.len(), (i as usize + 2) % cfgs.len()] };
        for ci in picks {
            let (cname, cfg) = &cfgs[ci];
            let ctx = ds.fresh_ctx(cfg.clone());
            let plan = match rtm.block_on(async { ctx.sql(&q.sql).await?.create_physical_plan().await }) {
                Ok(p) => p,
                Err(_) => {
                    run.count("gen_rejected");
                    continue;
                }
            };
            run.count("plans");
            run.count(&format!("cfg:{cname}"));
            let mut names = vec![];
            op_names(&plan, &mut names);
            names.sort();
            names.dedup();
            for nme in &names {
                run.count(&format!("op:{nme}"));
            }
            let sig_base = format!("cfg={cname} sql=`{}` data=`{}`", q.sql, ds.describe());
            let bytes = match hutil::catch(std::panic::AssertUnwindSafe(|| physical_plan_to_bytes(Arc::clone(&plan)))) {
                Ok(Ok(b)) => b,
                Ok(Err(e)) => {
                    run.count("encode_rejected");
                    if run.notes.len() < 10 {
                        run.note(&format!("encode rejected ({cname}): {} :: {}", q.sql, e.to_string().lines().next().unwrap_or("")));
                    }
                    continue;
                }
                Err(p) => {
                    run.oracle(false, &format!("encode-panic {sig_base}"), &p);
                    continue;
                }
            };
            let ctx2 = ds.fresh_ctx(cfg.clone());
            let task = ctx2.task_ctx();
            let after = match hutil::catch(std::panic::AssertUnwindSafe(|| physical_plan_from_bytes(&bytes, &task))) {
                Ok(Ok(p)) => p,
                Ok(Err(e)) => {
                    run.oracle(false, &format!("decode-failed {sig_base}"), &format!("encoding succeeded ({} bytes) but decoding fails: {e}", bytes.len()));
                    continue;
                }
                Err(p) => {
                    run.oracle(false, &format!("decode-panic {sig_base}"), &p);
                    continue;
                }
            };
            // structure, field by field
            let sb = pexport(&plan);
            let sa = pexport(&after);
            let tb = displayable(plan.as_ref()).indent(true).to_string();
            let ta = displayable(after.as_ref()).indent(true).to_string();
            // UnionExec::try_new re-coerces its inputs on decode and wraps them in one more
            // ProjectionExec (finding C36-2): recognised when the plans agree once those wrappers are elided
            let masked = |p: &Arc<dyn ExecutionPlan>| {
                MASK_NULLABLE.with(|m| m.set(true));
                let r = pexport_with(p, true);
                MASK_NULLABLE.with(|m| m.set(false));
                r
            };
            let cause = if sb == sa {
                ""
            } else if has_big_u32_option(&plan) {
                run.count("cause:option-truncated-u32");
                "option-truncated-u32"
            } else if names.iter().any(|n| n == "UnionExec") && masked(&plan) == masked(&after) {
                run.count("cause:union-input-rewrapped");
                "union-input-rewrapped"
            } else {
                "structure-differs"
            };
            let elided = if cause == "structure-differs" { first_diff(&masked(&plan), &masked(&after)) } else { String::new() };
            run.oracle(sb == sa, &format!("{cause} {sig_base}"), &format!("{}\\nELIDED {elided}\\nbefore:\\n{tb}\\nafter:\\n{ta}", first_diff(&sb, &sa)));
            // the Lean side re-decides the structural equality (the violation itself is the oracle above)
            run.case("pjudge", &format!("({sb} {sa})"), if sb == sa { "ok" } else { "bad:differ" }, names.len() >= 4);
            let mut fnames = vec![];
            all_field_names(&plan, &mut fnames);
            all_field_names(&after, &mut fnames);
            fnames.sort_by(|a, b| b.len().cmp(&a.len()).then(a.cmp(b)));
            fnames.dedup();
            if tb != ta {
                run.count("display_differs_raw");
            }
            // reported only when the field-walking export saw nothing (it covers what it does not walk)
            let d_ok = sb != sa || strip_column_names(&tb, &fnames) == strip_column_names(&ta, &fnames);
            run.oracle(d_ok, &format!("display-differs {sig_base}"), &format!("before:\\n{tb}\\nafter:\\n{ta}"));
            // results (not for the huge LIMIT/OFFSET statements: TopK operators pre-allocate `fetch` slots
            // and a fetch of 2^32 aborts the process with an allocation failure)
            if big_limit {
                run.count("not_executed_big_limit");
                continue;
            }
            let ob = rtm.block_on(rt::run_physical(&ctx, plan));
            let oa = rtm.block_on(rt::run_physical(&ctx2, after));
            match rt::same_outcome(&ob, &oa, q.ordered, SchemaLevel::Full) {
                Ok(()) => run.oracle(true, "", ""),
                Err((what, detail)) => {
                    let pre = if cause == "option-truncated-u32" { "option-truncated-u32 " } else { "" };
                    run.oracle(false, &format!("{pre}result-differs:{what} {sig_base}"), &detail)
                }
            }
        }
    }
}

fn all_field_names(p: &Arc<dyn ExecutionPlan>, out: &mut Vec<String>) {
    for f in p.schema().fields() {
        out.push(f.name().clone());
    }
    for c in p.children() {
        all_field_names(c, out);
    }
}

/// display text with the names of column references removed (`b@1` → `@1`)
fn strip_column_names(text: &str, names: &[String]) -> String {
    let mut t = text.to_string();
    for n in names {
        if !n.is_empty() {
            t = t.replace(&format!("{n}@"), "@");
        }
    }
    t
}

fn first_diff(a: &str, b: &str) -> String {
    let i = a.bytes().zip(b.bytes()).position(|(x, y)| x != y).unwrap_or(a.len().min(b.len()));
    let lo = i.saturating_sub(80);
    format!("first difference at byte {i}: before …{}… after …{}…", &a[lo..(i + 80).min(a.len())], &b[lo..(i + 80).min(b.len())])
}

pub fn run(run: &mut Run, args: &Args) {
    hutil::quiet_panics();
    let mut rng = Rng::new(args.seed);
    option_codecs(run, &mut rng.fork());
    enum_tables(run);
    plans(run, &mut rng.fork());
}
