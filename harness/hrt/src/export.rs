//! export — walks real `LogicalPlan` / `Expr` values FIELD BY FIELD (never through `Display`) and
//! prints the model s-expression of `lean/DfModel/Sql/Codec.lean` (positional: every column
//! reference is resolved to its index in the input schema with the engine's own
//! `DFSchema::index_of_column`, so aliases and qualifiers are canonicalised away by construction).
//!
//! Anything outside the model fragment gives `Err(reason)` (reported as `unsupported`, counted,
//! never a disagreement).  Every field of a supported node is either exported or checked to have
//! its neutral value (e.g. `TableScan::fetch == None`, `Join::null_aware == false`,
//! `AggregateFunction::order_by == []`), otherwise the node is unsupported — a field the exporter
//! does not look at cannot hide a difference.
//!
//! Sub-query expressions inside a `Filter` / `Projection` are exported as the model's dependent
//! join: `(project (col 0..n-1) (filter pred' (apply k x input sub)))` where `pred'` refers to the
//! appended column.
use datafusion_common::{Column, DFSchema, JoinConstraint, JoinType, NullEquality, ScalarValue};
use datafusion_expr::expr::{AggregateFunction, Alias, Between, BinaryExpr, Case, Cast, InList, Like, ScalarFunction, TryCast};
use datafusion_expr::logical_plan::{
    Aggregate, Distinct, EmptyRelation, Filter, Join, Limit, LogicalPlan, Projection, Sort, SubqueryAlias, TableScan, Union, Values,
};
use datafusion_expr::{Expr, Operator};
use arrow::datatypes::DataType;

pub type Res<T> = Result<T, String>;

fn uns<T>(why: &str) -> Res<T> {
    Err(why.to_string())
}

pub fn export_type(dt: &DataType) -> Res<String> {
    Ok(match dt {
        DataType::Null => "null".into(),
        DataType::Boolean => "bool".into(),
        DataType::Utf8 | DataType::LargeUtf8 | DataType::Utf8View => "str".into(),
        DataType::Int8 => "(int 8 s)".into(),
        DataType::Int16 => "(int 16 s)".into(),
        DataType::Int32 => "(int 32 s)".into(),
        DataType::Int64 => "(int 64 s)".into(),
        DataType::UInt8 => "(int 8 u)".into(),
        DataType::UInt16 => "(int 16 u)".into(),
        DataType::UInt32 => "(int 32 u)".into(),
        DataType::UInt64 => "(int 64 u)".into(),
        _ => return uns("type"),
    })
}

pub fn export_scalar(v: &ScalarValue) -> Res<String> {
    fn i(w: u32, s: bool, v: Option<i128>) -> String {
        match v {
            None => "null".into(),
            Some(n) => format!("(i {w} {} {n})", if s { "s" } else { "u" }),
        }
    }
    Ok(match v {
        ScalarValue::Null => "null".into(),
        ScalarValue::Boolean(None) => "null".into(),
        ScalarValue::Boolean(Some(b)) => format!("(b {})", if *b { "t" } else { "f" }),
        ScalarValue::Int8(x) => i(8, true, x.map(|v| v as i128)),
        ScalarValue::Int16(x) => i(16, true, x.map(|v| v as i128)),
        ScalarValue::Int32(x) => i(32, true, x.map(|v| v as i128)),
        ScalarValue::Int64(x) => i(64, true, x.map(|v| v as i128)),
        ScalarValue::UInt8(x) => i(8, false, x.map(|v| v as i128)),
        ScalarValue::UInt16(x) => i(16, false, x.map(|v| v as i128)),
        ScalarValue::UInt32(x) => i(32, false, x.map(|v| v as i128)),
        ScalarValue::UInt64(x) => i(64, false, x.map(|v| v as i128)),
        ScalarValue::Utf8(x) | ScalarValue::LargeUtf8(x) | ScalarValue::Utf8View(x) => match x {
            None => "null".into(),
            Some(s) => format!("(s {})", hutil::hex(s.as_bytes())),
        },
        _ => return uns("literal"),
    })
}

/// pending dependent joins collected while exporting the expressions of one node
struct Subs {
    /// (kind, x, sub-plan) in the order of the appended columns
    list: Vec<(String, String, String)>,
    base: usize,
    allowed: bool,
}

struct Ctx<'a> {
    /// schema the expression's columns resolve against
    schema: &'a DFSchema,
    /// schema of the enclosing query's row, for `OuterReferenceColumn`
    outer: Option<&'a DFSchema>,
}

fn bin_op(op: &Operator) -> Res<&'static str> {
    Ok(match op {
        Operator::Eq => "eq",
        Operator::NotEq => "ne",
        Operator::Lt => "lt",
        Operator::LtEq => "le",
        Operator::Gt => "gt",
        Operator::GtEq => "ge",
        Operator::Plus => "add",
        Operator::Minus => "sub",
        Operator::Multiply => "mul",
        Operator::Divide => "div",
        Operator::Modulo => "mod",
        Operator::And => "and",
        Operator::Or => "or",
        Operator::IsDistinctFrom => "distinct",
        Operator::IsNotDistinctFrom => "notdistinct",
        Operator::StringConcat => "concat",
        _ => return uns("operator"),
    })
}

fn col_index(schema: &DFSchema, c: &Column) -> Res<usize> {
    schema.index_of_column(c).map_err(|_| "column-resolution".to_string())
}

fn export_expr(e: &Expr, cx: &Ctx, subs: &mut Subs) -> Res<String> {
    let go = |e: &Expr, subs: &mut Subs| export_expr(e, cx, subs);
    Ok(match e {
        Expr::Alias(Alias { expr, .. }) => go(expr, subs)?,
        Expr::Column(c) => format!("(col {})", col_index(cx.schema, c)?),
        Expr::OuterReferenceColumn(_, c) => match cx.outer {
            Some(o) => format!("(outer {})", col_index(o, c)?),
            None => return uns("outer-ref"),
        },
        Expr::Literal(v, _) => format!("(lit {})", export_scalar(v)?),
        Expr::BinaryExpr(BinaryExpr { left, op, right }) => {
            format!("(bin {} {} {})", bin_op(op)?, go(left, subs)?, go(right, subs)?)
        }
        Expr::Not(a) => format!("(not {})", go(a, subs)?),
        Expr::Negative(a) => format!("(neg {})", go(a, subs)?),
        Expr::IsNull(a) => format!("(is null f {})", go(a, subs)?),
        Expr::IsNotNull(a) => format!("(is null t {})", go(a, subs)?),
        Expr::IsTrue(a) => format!("(is true f {})", go(a, subs)?),
        Expr::IsNotTrue(a) => format!("(is true t {})", go(a, subs)?),
        Expr::IsFalse(a) => format!("(is false f {})", go(a, subs)?),
        Expr::IsNotFalse(a) => format!("(is false t {})", go(a, subs)?),
        Expr::IsUnknown(a) => format!("(is unknown f {})", go(a, subs)?),
        Expr::IsNotUnknown(a) => format!("(is unknown t {})", go(a, subs)?),
        Expr::Between(Between { expr, negated, low, high }) => {
            format!("(between {} {} {} {})", tf(*negated), go(expr, subs)?, go(low, subs)?, go(high, subs)?)
        }
        Expr::Case(Case { expr, when_then_expr, else_expr }) => {
            let o = match expr {
                Some(x) => go(x, subs)?,
                None => String::new(),
            };
            let mut ws = vec![];
            for (w, t) in when_then_expr {
                ws.push(format!("({} {})", go(w, subs)?, go(t, subs)?));
            }
            let el = match else_expr {
                Some(x) => go(x, subs)?,
                None => String::new(),
            };
            format!("(case ({o}) ({}) ({el}))", ws.join(" "))
        }
        Expr::Cast(Cast { expr, field }) => {
            if !field.metadata().is_empty() {
                return uns("cast-metadata");
            }
            format!("(cast {} f {})", export_type(field.data_type())?, go(expr, subs)?)
        }
        Expr::TryCast(TryCast { expr, field }) => {
            if !field.metadata().is_empty() {
                return uns("cast-metadata");
            }
            format!("(cast {} t {})", export_type(field.data_type())?, go(expr, subs)?)
        }
        Expr::InList(InList { expr, list, negated }) => {
            let mut s = format!("(in {} {}", tf(*negated), go(expr, subs)?);
            for x in list {
                s.push(' ');
                s.push_str(&go(x, subs)?);
            }
            s.push(')');
            s
        }
        Expr::Like(Like { negated, expr, pattern, escape_char, case_insensitive }) => {
            let esc = match escape_char {
                Some(c) => format!("{}", *c as u32),
                None => String::new(),
            };
            format!("(like {} {} {} {} ({esc}))", tf(*negated), tf(*case_insensitive), go(expr, subs)?, go(pattern, subs)?)
        }
        Expr::ScalarFunction(ScalarFunction { func, args }) => match func.name() {
            "coalesce" => {
                let mut s = String::from("(coalesce");
                for x in args {
                    s.push(' ');
                    s.push_str(&go(x, subs)?);
                }
                s.push(')');
                s
            }
            "nullif" if args.len() == 2 => format!("(nullif {} {})", go(&args[0], subs)?, go(&args[1], subs)?),
            _ => return uns("scalar-function"),
        },
        Expr::Exists(ex) => {
            let c = push_sub(subs, cx, "exists", None, &ex.subquery.subquery)?;
            if ex.negated { format!("(not {c})") } else { c }
        }
        Expr::InSubquery(is) => {
            let x = go(&is.expr, subs)?;
            let c = push_sub(subs, cx, "in", Some(x), &is.subquery.subquery)?;
            if is.negated { format!("(not {c})") } else { c }
        }
        Expr::ScalarSubquery(sq) => push_sub(subs, cx, "scalar", None, &sq.subquery)?,
        Expr::Placeholder(_) => return uns("placeholder"),
        Expr::AggregateFunction(_) => return uns("aggregate-in-expr"),
        Expr::WindowFunction(_) => return uns("window"),
        _ => return uns("expr"),
    })
}

fn push_sub(subs: &mut Subs, cx: &Ctx, kind: &str, x: Option<String>, sub: &LogicalPlan) -> Res<String> {
    if !subs.allowed {
        return uns("subquery-position");
    }
    if cx.outer.is_some() {
        // a sub-query nested in a sub-query could refer two levels up; the model has one level
        return uns("nested-subquery");
    }
    let p = export_plan_in(sub, Some(cx.schema))?;
    let idx = subs.base + subs.list.len();
    subs.list.push((kind.to_string(), x.map(|s| format!("({s})")).unwrap_or_else(|| "()".into()), p));
    Ok(format!("(col {idx})"))
}

fn tf(b: bool) -> &'static str {
    if b { "t" } else { "f" }
}

fn no_subs() -> Subs {
    Subs { list: vec![], base: 0, allowed: false }
}

fn wrap_apply(input: String, subs: &Subs) -> String {
    let mut p = input;
    for (k, x, s) in &subs.list {
        p = format!("(apply {k} {x} {p} {s})");
    }
    p
}

fn identity_cols(n: usize) -> String {
    (0..n).map(|i| format!("(col {i})")).collect::<Vec<_>>().join(" ")
}

fn export_agg(e: &Expr, cx: &Ctx) -> Res<String> {
    let e = match e {
        Expr::Alias(a) => a.expr.as_ref(),
        e => e,
    };
    let Expr::AggregateFunction(AggregateFunction { func, params }) = e else {
        return uns("aggregate-shape");
    };
    if !params.order_by.is_empty() || params.null_treatment.is_some() {
        return uns("aggregate-options");
    }
    let mut ns = no_subs();
    let filter = match &params.filter {
        Some(f) => format!("({})", export_expr(f, cx, &mut ns)?),
        None => "()".into(),
    };
    let name = func.name();
    let fname = match name {
        "count" | "sum" | "min" | "max" => name,
        _ => return uns("aggregate-function"),
    };
    if params.args.len() != 1 {
        return uns("aggregate-arity");
    }
    // count(*) arrives as count(<non-null literal>)
    if fname == "count" {
        if let Expr::Literal(v, _) = &params.args[0] {
            if !v.is_null() && !params.distinct {
                return Ok(format!("(count_star f (lit null) {filter})"));
            }
        }
    }
    let a = export_expr(&params.args[0], cx, &mut ns)?;
    Ok(format!("({fname} {} {a} {filter})", tf(params.distinct)))
}

fn lit_usize(e: &Option<Box<Expr>>) -> Res<Option<usize>> {
    match e {
        None => Ok(None),
        Some(b) => match b.as_ref() {
            Expr::Literal(ScalarValue::Int64(Some(n)), _) if *n >= 0 => Ok(Some(*n as usize)),
            Expr::Literal(ScalarValue::UInt64(Some(n)), _) => Ok(Some(*n as usize)),
            _ => uns("limit-expr"),
        },
    }
}

pub fn export_plan(plan: &LogicalPlan) -> Res<String> {
    export_plan_in(plan, None)
}

fn export_plan_in(plan: &LogicalPlan, outer: Option<&DFSchema>) -> Res<String> {
    let rec = |p: &LogicalPlan| export_plan_in(p, outer);
    Ok(match plan {
        LogicalPlan::TableScan(TableScan { table_name, projection, filters, fetch, source, .. }) => {
            if !filters.is_empty() {
                return uns("scan-filters");
            }
            if fetch.is_some() {
                return uns("scan-fetch");
            }
            let base = format!("(scan {})", table_name.table());
            match projection {
                None => base,
                Some(ix) => {
                    let n = source.schema().fields().len();
                    if ix.len() == n && ix.iter().enumerate().all(|(i, j)| i == *j) {
                        base
                    } else {
                        format!("(project ({}) {base})", ix.iter().map(|i| format!("(col {i})")).collect::<Vec<_>>().join(" "))
                    }
                }
            }
        }
        LogicalPlan::SubqueryAlias(SubqueryAlias { input, .. }) => rec(input)?,
        LogicalPlan::Projection(Projection { expr, input, .. }) => {
            let schema = input.schema();
            let cx = Ctx { schema, outer };
            let mut subs = Subs { list: vec![], base: schema.fields().len(), allowed: true };
            let mut es = vec![];
            for e in expr {
                es.push(export_expr(e, &cx, &mut subs)?);
            }
            let inp = rec(input)?;
            format!("(project ({}) {})", es.join(" "), wrap_apply(inp, &subs))
        }
        LogicalPlan::Filter(Filter { predicate, input, .. }) => {
            let schema = input.schema();
            let cx = Ctx { schema, outer };
            let n = schema.fields().len();
            let mut subs = Subs { list: vec![], base: n, allowed: true };
            let p = export_expr(predicate, &cx, &mut subs)?;
            let inp = rec(input)?;
            if subs.list.is_empty() {
                format!("(filter {p} {inp})")
            } else {
                format!("(project ({}) (filter {p} {}))", identity_cols(n), wrap_apply(inp, &subs))
            }
        }
        LogicalPlan::Aggregate(Aggregate { input, group_expr, aggr_expr, .. }) => {
            let cx = Ctx { schema: input.schema(), outer };
            let mut ks = vec![];
            for g in group_expr {
                if matches!(g, Expr::GroupingSet(_)) {
                    return uns("grouping-set");
                }
                ks.push(export_expr(g, &cx, &mut no_subs())?);
            }
            let mut ags = vec![];
            for a in aggr_expr {
                ags.push(export_agg(a, &cx)?);
            }
            format!("(aggregate ({}) ({}) {})", ks.join(" "), ags.join(" "), rec(input)?)
        }
        LogicalPlan::Sort(Sort { expr, input, fetch }) => {
            let cx = Ctx { schema: input.schema(), outer };
            let mut ks = vec![];
            for s in expr {
                ks.push(format!("({} {} {})", export_expr(&s.expr, &cx, &mut no_subs())?, tf(!s.asc), tf(s.nulls_first)));
            }
            let sorted = format!("(sort ({}) {})", ks.join(" "), rec(input)?);
            match fetch {
                None => sorted,
                Some(n) => format!("(limit 0 ({n}) {sorted})"),
            }
        }
        LogicalPlan::Limit(Limit { skip, fetch, input }) => {
            let s = lit_usize(skip)?.unwrap_or(0);
            let f = match lit_usize(fetch)? {
                Some(n) => format!("({n})"),
                None => "()".into(),
            };
            format!("(limit {s} {f} {})", rec(input)?)
        }
        LogicalPlan::Join(Join { left, right, on, filter, join_type, join_constraint, null_equality, null_aware, .. }) => {
            if *null_aware {
                return uns("join-null-aware");
            }
            if *join_constraint != JoinConstraint::On {
                return uns("join-using");
            }
            let jt = match join_type {
                JoinType::Inner => "inner",
                JoinType::Left => "left",
                JoinType::Right => "right",
                JoinType::Full => "full",
                JoinType::LeftSemi => "leftsemi",
                JoinType::RightSemi => "rightsemi",
                JoinType::LeftAnti => "leftanti",
                JoinType::RightAnti => "rightanti",
                JoinType::LeftMark => "leftmark",
                JoinType::RightMark => "rightmark",
            };
            let lcx = Ctx { schema: left.schema(), outer };
            let rcx = Ctx { schema: right.schema(), outer };
            let mut ons = vec![];
            for (l, r) in on {
                ons.push(format!("({} {})", export_expr(l, &lcx, &mut no_subs())?, export_expr(r, &rcx, &mut no_subs())?));
            }
            let f = match filter {
                None => "()".to_string(),
                Some(f) => {
                    let both = left.schema().join(right.schema()).map_err(|_| "join-schema".to_string())?;
                    let cx = Ctx { schema: &both, outer };
                    format!("({})", export_expr(f, &cx, &mut no_subs())?)
                }
            };
            let ne = tf(*null_equality == NullEquality::NullEqualsNull);
            format!("(join {jt} {ne} ({}) {f} {} {})", ons.join(" "), rec(left)?, rec(right)?)
        }
        LogicalPlan::Union(Union { inputs, .. }) => {
            if inputs.is_empty() {
                return uns("union-empty");
            }
            let mut it = inputs.iter();
            let mut acc = rec(it.next().unwrap())?;
            for p in it {
                acc = format!("(setop union t {acc} {})", rec(p)?);
            }
            acc
        }
        LogicalPlan::Distinct(Distinct::All(input)) => format!("(distinct {})", rec(input)?),
        LogicalPlan::Distinct(Distinct::On(_)) => return uns("distinct-on"),
        LogicalPlan::Values(Values { schema, values }) => {
            let mut rows = vec![];
            for r in values {
                let mut cells = vec![];
                for e in r {
                    match e {
                        Expr::Literal(v, _) => cells.push(export_scalar(v)?),
                        _ => return uns("values-expr"),
                    }
                }
                rows.push(format!("({})", cells.join(" ")));
            }
            format!("(values {} {})", schema.fields().len(), rows.join(" "))
        }
        LogicalPlan::EmptyRelation(EmptyRelation { produce_one_row, schema }) => {
            if *produce_one_row {
                if !schema.fields().is_empty() {
                    return uns("empty-relation-shape");
                }
                "(values 0 ())".to_string()
            } else {
                format!("(values {})", schema.fields().len())
            }
        }
        LogicalPlan::Window(_) => return uns("window"),
        LogicalPlan::Subquery(_) => return uns("subquery-node"),
        LogicalPlan::Repartition(_) => return uns("repartition"),
        LogicalPlan::Unnest(_) => return uns("unnest"),
        LogicalPlan::RecursiveQuery(_) => return uns("recursive"),
        _ => return uns("plan-node"),
    })
}
