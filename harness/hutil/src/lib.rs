//! Shared harness utilities: deterministic PRNG, case/answer writers, oracle-failure log,
//! statistics for the evidence file.  No DataFusion dependency.
use std::collections::{BTreeMap, BTreeSet};
use std::fmt::Write as _;
use std::fs::{self, File};
use std::io::{BufWriter, Write};
use std::path::{Path, PathBuf};

/// xoshiro-free, dependency-free PRNG (splitmix64). Every random choice of a run derives from it.
#[derive(Clone)]
pub struct Rng(pub u64);
impl Rng {
    pub fn new(seed: u64) -> Self {
        Rng(seed ^ 0x9E37_79B9_7F4A_7C15)
    }
    pub fn next(&mut self) -> u64 {
        self.0 = self.0.wrapping_add(0x9E37_79B9_7F4A_7C15);
        let mut z = self.0;
        z = (z ^ (z >> 30)).wrapping_mul(0xBF58_476D_1CE4_E5B9);
        z = (z ^ (z >> 27)).wrapping_mul(0x94D0_49BB_1331_11EB);
        z ^ (z >> 31)
    }
    /// uniform in 0..n (n>0)
    pub fn below(&mut self, n: u64) -> u64 {
        self.next() % n
    }
    pub fn range(&mut self, lo: i64, hi_incl: i64) -> i64 {
        lo + (self.below((hi_incl - lo + 1) as u64) as i64)
    }
    pub fn chance(&mut self, num: u64, den: u64) -> bool {
        self.below(den) < num
    }
    pub fn pick<'a, T>(&mut self, xs: &'a [T]) -> &'a T {
        &xs[self.below(xs.len() as u64) as usize]
    }
    pub fn fork(&mut self) -> Rng {
        Rng(self.next())
    }
}

pub fn hex(bytes: &[u8]) -> String {
    let mut s = String::with_capacity(1 + 2 * bytes.len());
    s.push('x');
    for b in bytes {
        let _ = write!(s, "{:02x}", b);
    }
    s
}

/// One run of one property's harness: writes
///   `<out>/cases.txt`   request lines for the model driver (`<PROP> <op> <sexp>`),
///   `<out>/impl.out`    the implementation's canonical answer per request,
///   `<out>/oracle.txt`  implementation-level property failures (`<sig>\t<detail>` per line),
///   `<out>/stats.json`  counts for the evidence file.
pub struct Run {
    pub prop: String,
    pub out: PathBuf,
    pub tier: String,
    pub seed: u64,
    cases: BufWriter<File>,
    answers: BufWriter<File>,
    oracle: BufWriter<File>,
    pub n_cases: u64,
    pub n_oracle_checks: u64,
    pub n_oracle_fail: u64,
    distinct: BTreeSet<u64>,
    pub n_nontrivial: u64,
    pub counters: BTreeMap<String, u64>,
    pub samples: Vec<String>,
    pub notes: Vec<String>,
}

fn fnv(s: &str) -> u64 {
    let mut h: u64 = 0xcbf29ce484222325;
    for b in s.as_bytes() {
        h ^= *b as u64;
        h = h.wrapping_mul(0x100000001b3);
    }
    h
}

impl Run {
    pub fn new(prop: &str, out: &Path, tier: &str, seed: u64) -> Self {
        fs::create_dir_all(out).unwrap();
        let f = |n: &str| BufWriter::new(File::create(out.join(n)).unwrap());
        Run {
            prop: prop.to_string(),
            out: out.to_path_buf(),
            tier: tier.to_string(),
            seed,
            cases: f("cases.txt"),
            answers: f("impl.out"),
            oracle: f("oracle.txt"),
            n_cases: 0,
            n_oracle_checks: 0,
            n_oracle_fail: 0,
            distinct: BTreeSet::new(),
            n_nontrivial: 0,
            counters: BTreeMap::new(),
            samples: vec![],
            notes: vec![],
        }
    }
    pub fn thorough(&self) -> bool {
        self.tier == "thorough"
    }
    /// pick a budget by tier
    pub fn budget(&self, quick: u64, thorough: u64) -> u64 {
        if self.thorough() { thorough } else { quick }
    }
    /// Record one correspondence case. `nontrivial` per the property's stated rule.
    pub fn case(&mut self, op: &str, sexp: &str, impl_answer: &str, nontrivial: bool) {
        debug_assert!(!sexp.contains('\n') && !impl_answer.contains('\n'));
        writeln!(self.cases, "{} {} {}", self.prop, op, sexp).unwrap();
        writeln!(self.answers, "{}", impl_answer).unwrap();
        self.n_cases += 1;
        let key = fnv(&format!("{op} {sexp}"));
        if self.distinct.insert(key) && nontrivial {
            self.n_nontrivial += 1;
        }
        if self.samples.len() < 5 && (nontrivial || self.n_cases > 50) {
            self.samples.push(format!("{} {} {} => {}", self.prop, op, sexp, impl_answer));
        }
    }
    /// Record an implementation-level oracle check (property predicate evaluated on the real
    /// code's outputs). On failure the signature identifies the failing input for
    /// known_findings matching; detail is the replay text.
    pub fn oracle(&mut self, ok: bool, sig: &str, detail: &str) {
        self.n_oracle_checks += 1;
        if !ok {
            self.n_oracle_fail += 1;
            writeln!(self.oracle, "{}\t{}", sig, detail.replace('\n', "\\n")).unwrap();
        }
    }
    pub fn count(&mut self, key: &str) {
        *self.counters.entry(key.to_string()).or_insert(0) += 1;
    }
    pub fn add(&mut self, key: &str, n: u64) {
        *self.counters.entry(key.to_string()).or_insert(0) += n;
    }
    pub fn note(&mut self, s: &str) {
        self.notes.push(s.to_string());
    }
    pub fn finish(mut self) {
        self.cases.flush().unwrap();
        self.answers.flush().unwrap();
        self.oracle.flush().unwrap();
        let esc = |s: &str| {
            let mut o = String::new();
            for c in s.chars() {
                match c {
                    '"' => o.push_str("\\\""),
                    '\\' => o.push_str("\\\\"),
                    '\n' => o.push_str("\\n"),
                    '\t' => o.push_str("\\t"),
                    c if (c as u32) < 0x20 => {
                        let _ = write!(o, "\\u{:04x}", c as u32);
                    }
                    c => o.push(c),
                }
            }
            o
        };
        let mut j = String::new();
        j.push('{');
        let _ = write!(
            j,
            "\"prop\":\"{}\",\"tier\":\"{}\",\"seed\":{},\"cases\":{},\"distinct\":{},\"distinct_nontrivial\":{},\"oracle_checks\":{},\"oracle_failures\":{},",
            self.prop,
            self.tier,
            self.seed,
            self.n_cases,
            self.distinct.len(),
            self.n_nontrivial,
            self.n_oracle_checks,
            self.n_oracle_fail
        );
        j.push_str("\"counters\":{");
        let mut first = true;
        for (k, v) in &self.counters {
            if !first {
                j.push(',');
            }
            first = false;
            let _ = write!(j, "\"{}\":{}", esc(k), v);
        }
        j.push_str("},\"samples\":[");
        for (i, s) in self.samples.iter().enumerate() {
            if i > 0 {
                j.push(',');
            }
            let _ = write!(j, "\"{}\"", esc(s));
        }
        j.push_str("],\"notes\":[");
        for (i, s) in self.notes.iter().enumerate() {
            if i > 0 {
                j.push(',');
            }
            let _ = write!(j, "\"{}\"", esc(s));
        }
        j.push_str("]}");
        fs::write(self.out.join("stats.json"), j).unwrap();
    }
}

/// Parsed command line shared by all harness binaries:
///   `<bin> <PROP> --out DIR [--tier quick|thorough|search] [--seed N] [--replay FILE]`
pub struct Args {
    pub prop: String,
    pub out: PathBuf,
    pub tier: String,
    pub seed: u64,
    pub replay: Option<PathBuf>,
}
pub fn parse_args() -> Args {
    let a: Vec<String> = std::env::args().collect();
    let mut args = Args {
        prop: a.get(1).cloned().unwrap_or_default(),
        out: PathBuf::from("."),
        tier: "quick".into(),
        seed: 1,
        replay: None,
    };
    let mut i = 2;
    while i < a.len() {
        match a[i].as_str() {
            "--out" => {
                args.out = PathBuf::from(&a[i + 1]);
                i += 1
            }
            "--tier" => {
                args.tier = a[i + 1].clone();
                i += 1
            }
            "--seed" => {
                args.seed = a[i + 1].parse().unwrap_or(1);
                i += 1
            }
            "--replay" => {
                args.replay = Some(PathBuf::from(&a[i + 1]));
                i += 1
            }
            _ => {}
        }
        i += 1;
    }
    args
}

/// Run `f` catching panics; returns Err(panic message).
pub fn catch<T>(f: impl FnOnce() -> T + std::panic::UnwindSafe) -> Result<T, String> {
    std::panic::catch_unwind(f).map_err(|e| {
        if let Some(s) = e.downcast_ref::<&str>() {
            s.to_string()
        } else if let Some(s) = e.downcast_ref::<String>() {
            s.clone()
        } else {
            "panic".to_string()
        }
    })
}

pub fn quiet_panics() {
    std::panic::set_hook(Box::new(|_| {}));
}
