//! C19 — dropping a query stream releases resources and stops background work.
//!
//! PARTIAL BY NATURE (see notes/C19.md): the Lean side proves the ownership structure and the budget
//! arithmetic; that tokio really tears an aborted task down in bounded time is observed here, not proved.
//!
//! Model correspondence (`run.case`, equality):
//!   * `drop` — random ownership DAGs built from REAL objects (`SpawnedTask`, `JoinSet`,
//!              `RecordBatchReceiverStream` with a spawned producer, plain owners, `Arc`-shared nodes);
//!              every node holds a token; one root is dropped, the runtime is driven until quiescent and the
//!              set of released tokens must equal the model's `released`;
//!   * `coop` — the real `cooperative()` wrapper over a scripted inner stream (Ready / Pending / yield to the
//!              runtime), polled by hand inside one tokio task: the Ready/Pending sequence must equal the
//!              model with tokio's task budget (128).
//! Implementation-level oracle (`run.oracle`):
//!   * query shapes that spawn tasks (repartition, coalesce, union, joins, spilling sort, aggregate) over a
//!     TRACKING source (tokens held by the partition streams, poll counter): the result stream is dropped
//!     after k polled batches (k from 0 to completion); within a deadline the tokens' strong count is back
//!     at the baseline, `pool.reserved() == 0`, `used_disk_space() == 0`, and the poll counter has stopped;
//!   * an ENDLESS always-ready source under `tokio::time::timeout` on a current-thread runtime: the
//!     timeout must fire (the query yields), and the teardown above must hold afterwards.
use std::pin::Pin;
use std::sync::atomic::{AtomicUsize, Ordering};
use std::sync::{Arc, Mutex, Weak};
use std::task::{Context, Poll};
use std::time::{Duration, Instant};

use arrow::array::{ArrayRef, Int64Array, RecordBatch};
use arrow::datatypes::{DataType, Field, Schema, SchemaRef};
use datafusion::catalog::streaming::StreamingTable;
use datafusion::common::runtime::{JoinSet, SpawnedTask};
use datafusion::execution::runtime_env::RuntimeEnvBuilder;
use datafusion::physical_plan::coop::cooperative;
use datafusion::physical_plan::stream::RecordBatchReceiverStreamBuilder;
use datafusion::physical_plan::streaming::PartitionStream;
use datafusion::prelude::{SessionConfig, SessionContext};
use datafusion_common::Result;
use datafusion_execution::memory_pool::{GreedyMemoryPool, MemoryPool};
use datafusion_execution::{RecordBatchStream, SendableRecordBatchStream, TaskContext};
use futures::{Stream, StreamExt};
use hutil::{Args, Rng, Run};

fn schema1() -> SchemaRef {
    Arc::new(Schema::new(vec![Field::new("v", DataType::Int64, false)]))
}
fn batch(vs: Vec<i64>) -> RecordBatch {
    RecordBatch::try_new(schema1(), vec![Arc::new(Int64Array::from(vs)) as ArrayRef]).unwrap()
}

// ------------------------------------------------------------------ (a) ownership DAGs of real objects

type Obj = Box<dyn std::any::Any + Send>;

struct Plain {
    _token: Arc<()>,
    _children: Vec<Obj>,
}

/// build node `i` of kind `kind` owning `children` and `token`
fn build_node(kind: u64, token: Arc<()>, children: Vec<Obj>) -> Obj {
    match kind {
        0 => Box::new(Plain { _token: token, _children: children }),
        1 => Box::new(SpawnedTask::spawn(async move {
            let _keep = (token, children);
            futures::future::pending::<()>().await;
        })),
        2 => {
            let mut js: JoinSet<()> = JoinSet::new();
            js.spawn(async move {
                let _keep = (token, children);
                futures::future::pending::<()>().await;
            });
            Box::new(js)
        }
        _ => {
            let mut b = RecordBatchReceiverStreamBuilder::new(schema1(), 1);
            let tx = b.tx();
            b.spawn(async move {
                let _keep = (token, children);
                // a producer that blocks on the channel after the first batch
                let _ = tx.send(Ok(batch(vec![1]))).await;
                let _ = tx.send(Ok(batch(vec![2]))).await;
                futures::future::pending::<()>().await;
                Ok(())
            });
            let stream: SendableRecordBatchStream = b.build();
            Box::new(Mutex::new(stream))
        }
    }
}

fn drop_cases(run: &mut Run, rng: &mut Rng) {
    let n = run.budget(600, 6000);
    let rt = tokio::runtime::Builder::new_current_thread().enable_all().build().unwrap();
    for case_i in 0..n {
        let size = 2 + rng.below(9) as usize;
        // owners[i] ⊆ {0..i-1}; [] = root held by the harness
        let mut owners: Vec<Vec<usize>> = vec![vec![]];
        for i in 1..size {
            let k = match rng.below(10) {
                0 => 0,
                1..=6 => 1,
                _ => 2 + rng.below(2) as usize,
            };
            let mut os: Vec<usize> = vec![];
            for _ in 0..k {
                let p = rng.below(i as u64) as usize;
                if !os.contains(&p) {
                    os.push(p);
                }
            }
            os.sort();
            owners.push(os);
        }
        let kinds: Vec<u64> = (0..size).map(|_| rng.below(4)).collect();
        let roots: Vec<usize> = (0..size).filter(|i| owners[*i].is_empty()).collect();
        let r = *rng.pick(&roots);
        let (observed, all_after) = rt.block_on(async {
            let tokens: Vec<Arc<()>> = (0..size).map(|_| Arc::new(())).collect();
            let weaks: Vec<Weak<()>> = tokens.iter().map(Arc::downgrade).collect();
            let mut tokens: Vec<Option<Arc<()>>> = tokens.into_iter().map(Some).collect();
            // built objects: exclusive (moved to the single owner) or shared (Arc handed to every owner)
            let mut exclusive: Vec<Option<Obj>> = (0..size).map(|_| None).collect();
            let mut shared: Vec<Option<Arc<Mutex<Obj>>>> = (0..size).map(|_| None).collect();
            for i in (0..size).rev() {
                let mut children: Vec<Obj> = vec![];
                for c in i + 1..size {
                    if owners[c].contains(&i) {
                        if owners[c].len() == 1 {
                            children.push(exclusive[c].take().unwrap());
                        } else {
                            children.push(Box::new(shared[c].as_ref().unwrap().clone()));
                        }
                    }
                }
                let obj = build_node(kinds[i], tokens[i].take().unwrap(), children);
                if owners[i].len() >= 2 {
                    shared[i] = Some(Arc::new(Mutex::new(obj)));
                } else {
                    exclusive[i] = Some(obj);
                }
            }
            // the harness keeps only the roots
            drop(shared);
            let mut held: Vec<Option<Obj>> = exclusive;
            for _ in 0..5 {
                tokio::task::yield_now().await;
            }
            held[r] = None;
            let snapshot = |weaks: &Vec<Weak<()>>| -> String { weaks.iter().map(|w| if w.strong_count() == 0 { '1' } else { '0' }).collect() };
            // drive the runtime until quiescent
            let mut last = snapshot(&weaks);
            let mut stable = 0;
            let t0 = Instant::now();
            while stable < 30 && t0.elapsed() < Duration::from_secs(5) {
                tokio::task::yield_now().await;
                tokio::time::sleep(Duration::from_micros(200)).await;
                let s = snapshot(&weaks);
                if s == last {
                    stable += 1;
                } else {
                    stable = 0;
                    last = s;
                }
            }
            // then everything else
            held.clear();
            let t0 = Instant::now();
            loop {
                tokio::task::yield_now().await;
                tokio::time::sleep(Duration::from_micros(200)).await;
                let s = snapshot(&weaks);
                if !s.contains('0') || t0.elapsed() > Duration::from_secs(5) {
                    break (last, s);
                }
            }
        });
        let req = format!(
            "({r} {})",
            owners.iter().map(|os| format!("({})", os.iter().map(|x| x.to_string()).collect::<Vec<_>>().join(" "))).collect::<Vec<_>>().join(" ")
        );
        for k in &kinds {
            run.count(&format!("drop_kind_{}", ["plain", "spawned_task", "join_set", "receiver_stream"][*k as usize]));
        }
        let shared_n = owners.iter().filter(|o| o.len() >= 2).count();
        run.case("drop", &req, &observed, size >= 4 && (shared_n > 0 || roots.len() > 1));
        run.oracle(
            !all_after.contains('0'),
            &format!("drop-all case#{case_i} owners={owners:?} kinds={kinds:?}"),
            &format!("after dropping every root some tokens are still alive: {all_after}"),
        );
    }
}

// ------------------------------------------------------------------ (b) cooperative wrapper vs budget model

struct Scripted {
    script: Arc<Mutex<std::collections::VecDeque<bool>>>,
}
impl Stream for Scripted {
    type Item = Result<RecordBatch>;
    fn poll_next(self: Pin<&mut Self>, cx: &mut Context<'_>) -> Poll<Option<Self::Item>> {
        match self.script.lock().unwrap().pop_front() {
            Some(true) => Poll::Ready(Some(Ok(batch(vec![0])))),
            Some(false) => {
                cx.waker().wake_by_ref();
                Poll::Pending
            }
            None => Poll::Ready(None),
        }
    }
}
impl RecordBatchStream for Scripted {
    fn schema(&self) -> SchemaRef {
        schema1()
    }
}

fn coop_cases(run: &mut Run, rng: &mut Rng) {
    let n = run.budget(300, 3000);
    let rt = tokio::runtime::Builder::new_current_thread().enable_all().build().unwrap();
    for _ in 0..n {
        // scripts long enough to exhaust tokio's budget (128) several times
        let len = *rng.pick(&[5usize, 100, 140, 300, 420]);
        let p_pending = *rng.pick(&[0u64, 0, 1, 5]);
        let p_yield = *rng.pick(&[0u64, 0, 1]);
        let mut script: Vec<u8> = vec![];
        for _ in 0..len {
            let x = rng.below(100);
            script.push(if x < p_yield { b'y' } else if x < p_yield + p_pending * 4 { b'p' } else { b'r' });
        }
        let sc = script.clone();
        let outs: String = rt.block_on(async move {
            tokio::spawn(async move {
                let q = Arc::new(Mutex::new(std::collections::VecDeque::new()));
                let mut st = cooperative(Scripted { script: q.clone() });
                let mut out = String::new();
                for c in sc {
                    match c {
                        b'y' => tokio::task::yield_now().await,
                        c => {
                            // the inner stream consumes one script item only when it is actually polled:
                            // push the item, poll the wrapper once; if the wrapper answered Pending out of
                            // budget exhaustion the item was not consumed — take it back
                            q.lock().unwrap().push_back(c == b'r');
                            let r = futures::poll!(st.next());
                            let consumed = q.lock().unwrap().is_empty();
                            if !consumed {
                                q.lock().unwrap().clear();
                            }
                            out.push(if r.is_ready() { 'R' } else { 'P' });
                        }
                    }
                }
                out
            })
            .await
            .unwrap()
        });
        let req = format!("(128 ({}))", script.iter().map(|c| (*c as char).to_string()).collect::<Vec<_>>().join(" "));
        let exhausted = outs.matches('P').count() > script.iter().filter(|c| **c == b'p').count();
        run.count(if exhausted { "coop_budget_exhausted" } else { "coop_budget_not_exhausted" });
        run.case("coop", &req, &outs, exhausted);
    }
}

// ------------------------------------------------------------------ (c) real queries over a tracking source

#[derive(Debug)]
struct Tracking {
    batches: Vec<Vec<i64>>,
    endless: bool,
    token: Arc<()>,
    polls: Arc<AtomicUsize>,
}
struct TrackingStream {
    batches: std::vec::IntoIter<Vec<i64>>,
    endless: bool,
    _token: Arc<()>,
    polls: Arc<AtomicUsize>,
}
impl Stream for TrackingStream {
    type Item = Result<RecordBatch>;
    fn poll_next(mut self: Pin<&mut Self>, _cx: &mut Context<'_>) -> Poll<Option<Self::Item>> {
        self.polls.fetch_add(1, Ordering::Relaxed);
        if self.endless {
            return Poll::Ready(Some(Ok(batch((0..64).collect()))));
        }
        Poll::Ready(self.batches.next().map(|b| Ok(batch(b))))
    }
}
impl RecordBatchStream for TrackingStream {
    fn schema(&self) -> SchemaRef {
        schema1()
    }
}
impl PartitionStream for Tracking {
    fn schema(&self) -> &SchemaRef {
        static S: std::sync::OnceLock<SchemaRef> = std::sync::OnceLock::new();
        S.get_or_init(schema1)
    }
    fn execute(&self, _ctx: Arc<TaskContext>) -> SendableRecordBatchStream {
        Box::pin(TrackingStream { batches: self.batches.clone().into_iter(), endless: self.endless, _token: self.token.clone(), polls: self.polls.clone() })
    }
}

const SHAPES: &[(&str, &str)] = &[
    ("scan", "SELECT v FROM t"),
    ("filter", "SELECT v + 1 FROM t WHERE v % 3 = 0"),
    ("repartition-agg", "SELECT v % 10, count(*) FROM t GROUP BY v % 10"),
    ("sort", "SELECT v FROM t ORDER BY v DESC"),
    ("union", "SELECT v FROM t UNION ALL SELECT v + 1 FROM t"),
    ("hash-join", "SELECT a.v FROM t a JOIN t b ON a.v = b.v"),
    ("nl-join", "SELECT a.v FROM t a JOIN u b ON a.v < b.v"),
    ("window", "SELECT v, sum(v) OVER (PARTITION BY v % 4 ORDER BY v) FROM t"),
    ("distinct", "SELECT DISTINCT v % 50 FROM t"),
    ("limit", "SELECT v FROM t ORDER BY v LIMIT 7"),
];

struct DropOutcome {
    polled: usize,
    finished: bool,
    err: Option<String>,
    token_delta: isize,
    reserved: usize,
    disk: u64,
    polls_moving: bool,
    waited_ms: u128,
    timeout_fired: Option<bool>,
}

fn run_drop(sql: &'static str, parts: usize, tparts: usize, nb: usize, endless: bool, mem: Option<usize>, drop_after: Option<usize>) -> Option<std::result::Result<DropOutcome, String>> {
    let (tx, rx) = std::sync::mpsc::channel();
    std::thread::spawn(move || {
        let r = hutil::catch(std::panic::AssertUnwindSafe(|| {
            let rt = tokio::runtime::Builder::new_current_thread().enable_all().build().unwrap();
            let token = Arc::new(());
            let polls = Arc::new(AtomicUsize::new(0));
            let mk = |seed: i64| -> Arc<StreamingTable> {
                let ps: Vec<Arc<dyn PartitionStream>> = (0..parts)
                    .map(|p| {
                        Arc::new(Tracking {
                            batches: (0..nb).map(|b| (0..40).map(|i| (seed + (p * 1000 + b * 40 + i) as i64 * 7) % 1013).collect()).collect(),
                            endless,
                            token: token.clone(),
                            polls: polls.clone(),
                        }) as Arc<dyn PartitionStream>
                    })
                    .collect();
                Arc::new(StreamingTable::try_new(schema1(), ps).unwrap())
            };
            let pool: Arc<dyn MemoryPool> = Arc::new(GreedyMemoryPool::new(mem.unwrap_or(usize::MAX / 4)));
            let env = RuntimeEnvBuilder::new().with_memory_pool(pool.clone()).build_arc().unwrap();
            let cfg = SessionConfig::new().with_target_partitions(tparts).with_batch_size(32).with_sort_spill_reservation_bytes(0);
            let ctx = SessionContext::new_with_config_rt(cfg, env.clone());
            ctx.register_table("t", mk(1)).unwrap();
            ctx.register_table("u", mk(5)).unwrap();
            rt.block_on(async {
                let df = ctx.sql(sql).await.unwrap();
                let baseline = Arc::strong_count(&token);
                let mut polled = 0;
                let mut finished = false;
                let mut err = None;
                let mut timeout_fired = None;
                if endless {
                    // the whole query under a timeout: must return although the input never ends
                    let fut = async {
                        let mut st = df.execute_stream().await?;
                        while let Some(b) = st.next().await {
                            b?;
                        }
                        Ok::<_, datafusion_common::DataFusionError>(())
                    };
                    let r = tokio::time::timeout(Duration::from_millis(150), fut).await;
                    timeout_fired = Some(r.is_err());
                } else {
                    match df.execute_stream().await {
                        Err(e) => err = Some(e.to_string()),
                        Ok(mut st) => {
                            loop {
                                if let Some(d) = drop_after {
                                    if polled >= d {
                                        break;
                                    }
                                }
                                match st.next().await {
                                    None => {
                                        finished = true;
                                        break;
                                    }
                                    Some(Ok(_)) => polled += 1,
                                    Some(Err(e)) => {
                                        // dropped right after an error
                                        err = Some(e.to_string());
                                        break;
                                    }
                                }
                            }
                            drop(st);
                        }
                    }
                }
                // teardown must complete within the deadline
                let t0 = Instant::now();
                loop {
                    let ok = Arc::strong_count(&token) == baseline && pool.reserved() == 0 && env.disk_manager.used_disk_space() == 0;
                    if ok || t0.elapsed() > Duration::from_secs(10) {
                        break;
                    }
                    tokio::time::sleep(Duration::from_millis(1)).await;
                }
                let waited_ms = t0.elapsed().as_millis();
                // nobody polls the source any more
                let p0 = polls.load(Ordering::Relaxed);
                for _ in 0..20 {
                    tokio::task::yield_now().await;
                }
                tokio::time::sleep(Duration::from_millis(20)).await;
                let p1 = polls.load(Ordering::Relaxed);
                DropOutcome {
                    polled,
                    finished,
                    err,
                    token_delta: Arc::strong_count(&token) as isize - baseline as isize,
                    reserved: pool.reserved(),
                    disk: env.disk_manager.used_disk_space(),
                    polls_moving: p1 != p0,
                    waited_ms,
                    timeout_fired,
                }
            })
        }));
        let _ = tx.send(r);
    });
    rx.recv_timeout(Duration::from_secs(40)).ok()
}

fn query_oracle(run: &mut Run, rng: &mut Rng) {
    let rounds = run.budget(2, 6);
    for _ in 0..rounds {
        for (name, sql) in SHAPES {
            for &(parts, tparts) in &[(1usize, 1usize), (3, 4)] {
                if !run.thorough() && rng.chance(1, 2) {
                    continue;
                }
                let nb = *rng.pick(&[1usize, 4, 9]);
                let mem = if rng.chance(1, 3) { Some(*rng.pick(&[20_000usize, 200_000])) } else { None };
                // drop points: before the first batch, after 1, 2, … and after completion
                let mut points: Vec<Option<usize>> = vec![Some(0), Some(1), Some(2), Some(5), None];
                if run.thorough() {
                    points.extend([Some(3), Some(8), Some(20)]);
                }
                for dp in points {
                    let sig = format!("shape={name} src_parts={parts} target_parts={tparts} batches={nb} mem={mem:?} drop_after={dp:?}");
                    run.count(&format!("drop_query_{name}"));
                    match run_drop(sql, parts, tparts, nb, false, mem, dp) {
                        None => run.oracle(false, &format!("hang {sig}"), "no teardown report within 40 s"),
                        Some(Err(p)) => run.oracle(false, &format!("panic {sig}"), &p),
                        Some(Ok(o)) => {
                            run.count(if o.finished { "stream_finished" } else if o.err.is_some() { "dropped_after_error" } else { "dropped_midway" });
                            run.oracle(o.token_delta == 0, &format!("source-released {sig}"), &format!("{} source stream(s) still alive 10 s after the drop (polled {} batches)", o.token_delta, o.polled));
                            run.oracle(o.reserved == 0, &format!("reserved {sig}"), &format!("pool.reserved() = {} after the drop (waited {} ms)", o.reserved, o.waited_ms));
                            run.oracle(o.disk == 0, &format!("disk {sig}"), &format!("used_disk_space() = {} after the drop", o.disk));
                            run.oracle(!o.polls_moving, &format!("still-polling {sig}"), "the source is still being polled after the stream was dropped and torn down");
                        }
                    }
                }
            }
        }
    }
    // endless input under a timeout
    for (name, sql) in SHAPES {
        if *name == "limit" || *name == "scan" || *name == "filter" || *name == "union" {
            // these stream results forever: covered as well — the consumer loop never ends without the timeout
        }
        for &(parts, tparts) in &[(1usize, 1usize), (2, 3)] {
            let sig = format!("endless shape={name} src_parts={parts} target_parts={tparts}");
            run.count("endless_timeout");
            match run_drop(sql, parts, tparts, 0, true, Some(64 << 20), None) {
                None => run.oracle(false, &format!("hang {sig}"), "tokio::time::timeout(150 ms) over an endless input did not return within 40 s: the query does not yield"),
                Some(Err(p)) => run.oracle(false, &format!("panic {sig}"), &p),
                Some(Ok(o)) => {
                    run.oracle(o.timeout_fired == Some(true), &format!("timeout {sig}"), &format!("expected the timeout to fire, got {:?}", o.timeout_fired));
                    run.oracle(o.token_delta == 0, &format!("source-released {sig}"), &format!("{} source stream(s) still alive after the timeout", o.token_delta));
                    run.oracle(o.reserved == 0, &format!("reserved {sig}"), &format!("pool.reserved() = {}", o.reserved));
                    run.oracle(!o.polls_moving, &format!("still-polling {sig}"), "the endless source is still being polled after the timeout dropped the query");
                }
            }
        }
    }
}

pub fn run(run: &mut Run, args: &Args) {
    hutil::quiet_panics();
    let mut rng = Rng::new(args.seed);
    drop_cases(run, &mut rng);
    coop_cases(run, &mut rng);
    query_oracle(run, &mut rng);
}
