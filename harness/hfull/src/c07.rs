//! C07 — aggregate function state can be split, merged and retracted exactly.
//!
//! Every aggregate function registered by the default session (and the Spark set) is enumerated at
//! run time; for each function × accepted argument-type vector the decomposition laws are checked
//! directly on the implementation (implementation-level oracle, no model involved):
//!   split     one `update_batch` over all rows  ==  any split into batches
//!   merge     parts → `state()` → `merge_batch` (all at once and one by one; random order for
//!             order-insensitive functions)  ==  whole
//!   groups    `GroupsAccumulator` with random group indices / filters / chunking / `EmitTo::First`
//!             == scalar `Accumulator` per group; `state → merge_batch`; `convert_to_state`
//!   retract   sliding accumulator: update(xs ++ ys), retract(xs)  ==  recompute over ys
//! and for the functions modelled in Lean (count, sum, min, max, avg, bool_and/or, bit_and/or/xor,
//! first/last_value, count distinct) the values are compared with the model (`split`, `merge`,
//! `groups`, `retract` ops).  Functions that are not modelled are listed in the evidence notes.
use std::sync::Arc;

use arrow::array::{Array, ArrayRef, BooleanArray, Int64Array, RecordBatch};
use arrow::compute::cast;
use arrow::datatypes::{DataType, Field, FieldRef, Schema, SchemaRef};
use datafusion_common::ScalarValue;
use datafusion_expr::type_coercion::functions::fields_with_udf;
use datafusion_expr::{Accumulator, AggregateUDF, EmitTo, GroupsAccumulator};
use datafusion_physical_expr::PhysicalExpr;
use datafusion_physical_expr::aggregate::{AggregateExprBuilder, AggregateFunctionExpr};
use datafusion_physical_expr::expressions::{Column, lit};
use hutil::{Args, Rng, Run};

type Cell = Option<i64>;

/// sketch-based approximations are excluded from exactness by the property text
const SKETCH: &[&str] = &["approx_distinct", "approx_median", "approx_percentile_cont", "approx_percentile_cont_with_weight"];
/// result depends on row order (merges are done in input order only)
const ORDERED: &[&str] = &["any_value", "array_agg", "string_agg", "first_value", "last_value", "nth_value", "collect_list", "listagg"];
/// list-valued with unspecified element order
const SETLIKE: &[&str] = &["collect_set"];

fn modelled(name: &str, distinct: bool, types: &[DataType]) -> Option<&'static str> {
    if types.len() != 1 {
        return None;
    }
    let int = types[0] == DataType::Int64;
    let boolean = types[0] == DataType::Boolean;
    match (name, distinct) {
        ("count", false) if int => Some("count"),
        ("count", true) if int => Some("count_distinct"),
        ("sum", false) if int => Some("sum"),
        ("min", false) if int => Some("min"),
        ("max", false) if int => Some("max"),
        ("avg", false) if types[0] == DataType::Float64 => Some("avg"),
        ("bool_and", false) if boolean => Some("bool_and"),
        ("bool_or", false) if boolean => Some("bool_or"),
        ("bit_and", false) if int => Some("bit_and"),
        ("bit_or", false) if int => Some("bit_or"),
        ("bit_xor", false) if int => Some("bit_xor"),
        ("first_value", false) if int => Some("first_value"),
        ("last_value", false) if int => Some("last_value"),
        _ => None,
    }
}
fn sliding_model(m: &str) -> Option<&'static str> {
    match m {
        "count" => Some("count"),
        "sum" => Some("sum_sliding"),
        "min" => Some("min_sliding"),
        "max" => Some("max_sliding"),
        "avg" => Some("avg"),
        "bit_xor" => Some("bit_xor"),
        "count_distinct" => Some("count_distinct_sliding"),
        _ => None,
    }
}

struct Target {
    name: String,
    distinct: bool,
    types: Vec<DataType>,
    schema: SchemaRef,
    agg: AggregateFunctionExpr,
    ordered: bool,
    setlike: bool,
    model: Option<&'static str>,
    /// small values only (floating sums must stay exact)
    small: bool,
}

fn label(t: &Target) -> String {
    format!("{}{}({})", t.name, if t.distinct { " distinct" } else { "" }, t.types.iter().map(|d| d.to_string()).collect::<Vec<_>>().join(","))
}

fn build_targets(run: &mut Run) -> Vec<Target> {
    let mut udfs: Vec<Arc<AggregateUDF>> = datafusion_functions_aggregate::all_default_aggregate_functions();
    let n_default = udfs.len();
    udfs.extend(datafusion_spark::all_default_aggregate_functions());
    let mut out = vec![];
    let base = [DataType::Int64, DataType::Float64, DataType::Utf8, DataType::Boolean];
    let mut unmodelled = std::collections::BTreeSet::new();
    let mut no_sig = vec![];
    for (ui, udf) in udfs.iter().enumerate() {
        let name = udf.name().to_string();
        let origin = if ui < n_default { "" } else { "spark." };
        if SKETCH.contains(&name.as_str()) {
            run.count("fn:excluded-sketch");
            continue;
        }
        let mut accepted = 0;
        for arity in 1..=3usize {
            for b in &base {
                for distinct in [false, true] {
                    let declared: Vec<FieldRef> = (0..arity).map(|i| Arc::new(Field::new(format!("c{i}"), b.clone(), true))).collect();
                    // literal trailing arguments for the functions that need constants
                    let lit_tail: Option<Arc<dyn PhysicalExpr>> = match (name.as_str(), arity) {
                        ("percentile_cont", 2) => Some(lit(0.5f64)),
                        ("nth_value", 2) => Some(lit(2i64)),
                        ("string_agg", 2) | ("listagg", 2) => Some(lit(",")),
                        _ => None,
                    };
                    let mut declared = declared;
                    if let Some(l) = &lit_tail {
                        let dt = l.data_type(&Schema::empty()).unwrap();
                        declared[arity - 1] = Arc::new(Field::new(format!("c{}", arity - 1), dt, true));
                    }
                    let Ok(coerced) = hutil::catch(std::panic::AssertUnwindSafe(|| fields_with_udf(&declared, udf.as_ref()))).unwrap_or_else(|_| Err(datafusion_common::DataFusionError::Internal("panic".into()))) else {
                        continue;
                    };
                    let types: Vec<DataType> = coerced.iter().map(|f| f.data_type().clone()).collect();
                    let schema = Arc::new(Schema::new(types.iter().enumerate().map(|(i, t)| Field::new(format!("c{i}"), t.clone(), true)).collect::<Vec<_>>()));
                    let mut args: Vec<Arc<dyn PhysicalExpr>> = (0..arity).map(|i| Arc::new(Column::new(&format!("c{i}"), i)) as Arc<dyn PhysicalExpr>).collect();
                    if let Some(l) = lit_tail {
                        args[arity - 1] = l;
                    }
                    let built = hutil::catch(std::panic::AssertUnwindSafe(|| {
                        AggregateExprBuilder::new(udf.clone(), args).schema(schema.clone()).alias("a").with_distinct(distinct).build()
                    }));
                    let Ok(Ok(agg)) = built else { continue };
                    let probe = hutil::catch(std::panic::AssertUnwindSafe(|| agg.create_accumulator().map(|_| ())));
                    if !matches!(probe, Ok(Ok(()))) {
                        continue;
                    }
                    // the same coerced signature may be reached from several declared types
                    let key = (format!("{origin}{name}"), distinct, types.clone());
                    if out.iter().any(|t: &Target| (t.name.clone(), t.distinct, t.types.clone()) == key) {
                        continue;
                    }
                    accepted += 1;
                    let model = if origin.is_empty() { modelled(&name, distinct, &types) } else { None };
                    if model.is_none() {
                        unmodelled.insert(format!("{origin}{name}{}", if distinct { " distinct" } else { "" }));
                    }
                    let small = types.iter().any(|t| !matches!(t, DataType::Int64 | DataType::Boolean | DataType::Utf8 | DataType::UInt64 | DataType::Int32)) || name == "avg" || name.starts_with("try_");
                    out.push(Target {
                        name: format!("{origin}{name}"),
                        distinct,
                        types,
                        schema,
                        agg,
                        ordered: ORDERED.contains(&name.as_str()),
                        setlike: SETLIKE.contains(&name.as_str()) || (name == "array_agg" && distinct),
                        model,
                        small,
                    });
                }
            }
        }
        if accepted == 0 {
            no_sig.push(format!("{origin}{name}"));
        }
    }
    run.note(&format!("aggregate functions enumerated: {} default + {} spark; (function, distinct, coerced types) targets checked by the implementation-level laws: {}", n_default, udfs.len() - n_default, out.len()));
    run.note(&format!("excluded as sketch-based approximations (property text): {}", SKETCH.join(", ")));
    run.note(&format!("no accepted signature among Int64/Float64/Utf8/Boolean x arity 1..3 (not checked): {}", if no_sig.is_empty() { "-".into() } else { no_sig.join(", ") }));
    run.note(&format!("unmodelled in Lean (laws checked on the implementation only): {}", unmodelled.into_iter().collect::<Vec<_>>().join(", ")));
    out
}

// ---------------------------------------------------------------------------------------- data

fn gen_cell(rng: &mut Rng, small: bool) -> Cell {
    match rng.below(16) {
        0..=2 => None,
        3 if !small => Some(i64::MAX),
        4 if !small => Some(i64::MIN),
        5 if !small => Some(rng.next() as i64),
        _ => Some(rng.range(-3, 6)),
    }
}

fn gen_rows(rng: &mut Rng, n: usize, arity: usize, small: bool) -> Vec<Vec<Cell>> {
    (0..n).map(|_| (0..arity).map(|_| gen_cell(rng, small)).collect()).collect()
}

/// argument arrays for a slice of rows (base Int64 data cast to the coerced types, literal args evaluated)
fn arrays(t: &Target, rows: &[Vec<Cell>]) -> Vec<ArrayRef> {
    let cols: Vec<ArrayRef> = t
        .types
        .iter()
        .enumerate()
        .map(|(c, ty)| {
            let base: ArrayRef = Arc::new(rows.iter().map(|r| r[c]).collect::<Int64Array>());
            cast(&base, ty).unwrap()
        })
        .collect();
    let batch = RecordBatch::try_new_with_options(t.schema.clone(), cols, &arrow::array::RecordBatchOptions::new().with_row_count(Some(rows.len()))).unwrap();
    t.agg.expressions().iter().map(|e| e.evaluate(&batch).unwrap().into_array(rows.len()).unwrap()).collect()
}

fn chunks(rng: &mut Rng, n: usize) -> Vec<(usize, usize)> {
    let mut out = vec![];
    let mut i = 0;
    while i < n {
        if rng.chance(1, 6) {
            out.push((i, i)); // empty batch
        }
        let k = 1 + rng.below(4) as usize;
        let j = (i + k).min(n);
        out.push((i, j));
        i = j;
    }
    if out.is_empty() || rng.chance(1, 6) {
        out.push((n, n));
    }
    out
}

fn close(a: &ScalarValue, b: &ScalarValue) -> bool {
    // floating-point round-off is outside the property (exact functions): absolute + relative tolerance;
    // a NaN next to a value within round-off of zero is sqrt(-epsilon) (stddev after retraction)
    fn f(x: f64, y: f64) -> bool {
        (x.is_nan() && y.is_nan()) || x == y || (x - y).abs() <= 1e-6 * x.abs().max(y.abs()).max(1.0) || (x.is_nan() && y.abs() <= 1e-6) || (y.is_nan() && x.abs() <= 1e-6)
    }
    match (a, b) {
        (ScalarValue::Float64(Some(x)), ScalarValue::Float64(Some(y))) => f(*x, *y),
        (ScalarValue::Float32(Some(x)), ScalarValue::Float32(Some(y))) => f(*x as f64, *y as f64),
        _ => a == b,
    }
}

/// canonical form of a result (set-like lists are sorted)
fn canon(t: &Target, v: ScalarValue) -> ScalarValue {
    // string_agg(DISTINCT ..) without ORDER BY concatenates the distinct values in hash-set order: compare as a bag of tokens
    if t.distinct && (t.name == "string_agg" || t.name.ends_with("listagg")) {
        let sorted = |s: &str| {
            let mut parts: Vec<&str> = s.split(',').collect();
            parts.sort();
            parts.join(",")
        };
        match &v {
            ScalarValue::Utf8(Some(s)) => return ScalarValue::Utf8(Some(sorted(s))),
            ScalarValue::LargeUtf8(Some(s)) => return ScalarValue::LargeUtf8(Some(sorted(s))),
            ScalarValue::Utf8View(Some(s)) => return ScalarValue::Utf8View(Some(sorted(s))),
            _ => {}
        }
    }
    if t.setlike {
        if let ScalarValue::List(l) = &v {
            if l.len() == 1 && !l.is_null(0) {
                let inner = l.value(0);
                let mut items: Vec<ScalarValue> = (0..inner.len()).map(|i| ScalarValue::try_from_array(&inner, i).unwrap()).collect();
                items.sort_by_key(|s| s.to_string());
                return ScalarValue::List(ScalarValue::new_list_nullable(&items, inner.data_type()));
            }
        }
    }
    v
}

type R<T> = Result<T, String>;
fn e<T, E: std::fmt::Display>(r: Result<T, E>) -> R<T> {
    r.map_err(|x| x.to_string())
}

fn eval_whole(t: &Target, rows: &[Vec<Cell>]) -> R<ScalarValue> {
    let mut acc = e(t.agg.create_accumulator())?;
    e(acc.update_batch(&arrays(t, rows)))?;
    Ok(canon(t, e(acc.evaluate())?))
}

fn eval_split(t: &Target, rows: &[Vec<Cell>], ch: &[(usize, usize)]) -> R<ScalarValue> {
    let mut acc = e(t.agg.create_accumulator())?;
    for (a, b) in ch {
        e(acc.update_batch(&arrays(t, &rows[*a..*b])))?;
    }
    Ok(canon(t, e(acc.evaluate())?))
}

fn states_of(t: &Target, rows: &[Vec<Cell>], parts: &[(usize, usize)]) -> R<Vec<Vec<ScalarValue>>> {
    parts
        .iter()
        .map(|(a, b)| {
            let mut acc = e(t.agg.create_accumulator())?;
            e(acc.update_batch(&arrays(t, &rows[*a..*b])))?;
            e(acc.state())
        })
        .collect()
}

fn state_arrays(states: &[Vec<ScalarValue>], order: &[usize]) -> R<Vec<ArrayRef>> {
    let nf = states[0].len();
    (0..nf).map(|j| e(ScalarValue::iter_to_array(order.iter().map(|&p| states[p][j].clone())))).collect()
}

fn eval_merge(t: &Target, states: &[Vec<ScalarValue>], order: &[usize], one_by_one: bool) -> R<ScalarValue> {
    let mut acc = e(t.agg.create_accumulator())?;
    if one_by_one {
        for &p in order {
            e(acc.merge_batch(&state_arrays(states, &[p])?))?;
        }
    } else {
        e(acc.merge_batch(&state_arrays(states, order)?))?;
    }
    Ok(canon(t, e(acc.evaluate())?))
}

fn guard<T>(f: impl FnOnce() -> R<T>) -> R<T> {
    match hutil::catch(std::panic::AssertUnwindSafe(f)) {
        Ok(r) => r,
        Err(p) => Err(format!("panic: {p}")),
    }
}

fn show_sv(v: &ScalarValue) -> String {
    match v {
        ScalarValue::Int64(Some(x)) => x.to_string(),
        ScalarValue::UInt64(Some(x)) => x.to_string(),
        ScalarValue::Boolean(Some(b)) => (if *b { "t" } else { "f" }).into(),
        v if v.is_null() => "n".into(),
        other => format!("?{other}"),
    }
}
fn sx_cells(rows: &[Vec<Cell>]) -> String {
    format!("({})", rows.iter().map(|r| r[0].map(|x| x.to_string()).unwrap_or_else(|| "n".into())).collect::<Vec<_>>().join(" "))
}
/// model view of a cell for boolean-typed targets: cast(Int64→Boolean) is `!= 0`
fn model_rows(t: &Target, rows: &[Vec<Cell>]) -> Vec<Vec<Cell>> {
    if t.types[0] == DataType::Boolean {
        rows.iter().map(|r| vec![r[0].map(|x| (x != 0) as i64)]).collect()
    } else {
        rows.to_vec()
    }
}
/// avg is compared through its exact state (sum, count) instead of the f64 quotient
fn show_avg_state(st: &[ScalarValue]) -> String {
    match (&st[0], &st[1]) {
        (ScalarValue::UInt64(Some(0)), _) => "n".into(),
        (ScalarValue::UInt64(Some(c)), ScalarValue::Float64(Some(s))) if s.fract() == 0.0 && s.abs() < 9e15 => format!("{}/{}", *s as i64, c),
        (ScalarValue::UInt64(Some(_)), ScalarValue::Float64(None)) => "n".into(),
        other => format!("?{other:?}"),
    }
}

// ---------------------------------------------------------------------------------------- laws

fn scalar_laws(run: &mut Run, rng: &mut Rng, t: &Target, case: u64) {
    let lab = label(t);
    let n = *rng.pick(&[0usize, 1, 2, 3, 6, 12, 25]);
    let rows = gen_rows(rng, n, t.types.len(), t.small);
    let whole = guard(|| eval_whole(t, &rows));
    let Ok(whole) = whole else {
        // a function may reject data (e.g. overflow errors): count, not a law violation by itself
        run.count(&format!("err-on-whole:{}", t.name));
        return;
    };
    // ---- split
    let ch = chunks(rng, n);
    let got = guard(|| eval_split(t, &rows, &ch));
    let ok = matches!(&got, Ok(g) if close(g, &whole));
    run.oracle(ok, &format!("split {lab} case#{case}"), &format!("rows={rows:?} chunks={ch:?} whole={whole:?} split={got:?}"));
    run.count("law:split");
    // ---- merge
    let parts = chunks(rng, n);
    if let Ok(states) = guard(|| states_of(t, &rows, &parts)) {
        let mut order: Vec<usize> = (0..parts.len()).collect();
        if !t.ordered {
            for i in (1..order.len()).rev() {
                order.swap(i, rng.below(i as u64 + 1) as usize);
            }
        }
        for one_by_one in [false, true] {
            let got = guard(|| eval_merge(t, &states, &order, one_by_one));
            let ok = matches!(&got, Ok(g) if close(g, &whole));
            run.oracle(ok, &format!("merge {lab} one_by_one={one_by_one} case#{case}"), &format!("rows={rows:?} parts={parts:?} order={order:?} whole={whole:?} merged={got:?}"));
            run.count("law:merge");
        }
        if let Some(m) = t.model {
            let mr = model_rows(t, &rows);
            // split op (model folds the batches in order)
            let req = format!("({m} {})", ch.iter().map(|(a, b)| sx_cells(&mr[*a..*b])).collect::<Vec<_>>().join(" "));
            let ans = if m == "avg" {
                guard(|| {
                    let mut acc = e(t.agg.create_accumulator())?;
                    for (a, b) in &ch {
                        e(acc.update_batch(&arrays(t, &rows[*a..*b])))?;
                    }
                    Ok(show_avg_state(&e(acc.state())?))
                })
                .unwrap_or_else(|x| format!("err:{x}"))
            } else {
                got_or_err(&guard(|| eval_split(t, &rows, &ch)))
            };
            run.case("split", &req, &ans, n >= 2 && rows.iter().any(|r| r[0].is_none()));
            // merge op (model merges the partial states left to right in the given order)
            let req = format!("({m} {})", order.iter().map(|&p| sx_cells(&mr[parts[p].0..parts[p].1])).collect::<Vec<_>>().join(" "));
            let ans = if m == "avg" {
                guard(|| {
                    let mut acc = e(t.agg.create_accumulator())?;
                    e(acc.merge_batch(&state_arrays(&states, &order)?))?;
                    Ok(show_avg_state(&e(acc.state())?))
                })
                .unwrap_or_else(|x| format!("err:{x}"))
            } else {
                got_or_err(&guard(|| eval_merge(t, &states, &order, true)))
            };
            // first/last: the model merges in list order; only in-order merges are sent
            run.case("merge", &req, &ans, parts.len() >= 3);
        }
    } else {
        run.count(&format!("err-on-state:{}", t.name));
    }
}

fn got_or_err(r: &R<ScalarValue>) -> String {
    match r {
        Ok(v) => show_sv(v),
        Err(x) => format!("err:{x}"),
    }
}

fn retract_law(run: &mut Run, rng: &mut Rng, t: &Target, case: u64) {
    let lab = label(t);
    let Ok(Ok(_)) = hutil::catch(std::panic::AssertUnwindSafe(|| t.agg.create_sliding_accumulator().map(|_| ()))) else {
        return;
    };
    let nx = *rng.pick(&[0usize, 1, 2, 5]);
    let ny = *rng.pick(&[0usize, 1, 2, 5]);
    let mut rows = gen_rows(rng, nx + ny, t.types.len(), t.small);
    if rng.chance(1, 4) {
        // the window that remains holds only NULLs
        for r in rows[nx..].iter_mut() {
            r[0] = None;
        }
    }
    let (xs, ys) = rows.split_at(nx);
    let chx = chunks(rng, nx + ny);
    let chr = chunks(rng, nx);
    let got = guard(|| {
        let mut acc = e(t.agg.create_sliding_accumulator())?;
        for (a, b) in &chx {
            e(acc.update_batch(&arrays(t, &rows[*a..*b])))?;
        }
        for (a, b) in &chr {
            e(acc.retract_batch(&arrays(t, &xs[*a..*b])))?;
        }
        Ok(canon(t, e(acc.evaluate())?))
    });
    let want = guard(|| eval_whole(t, ys));
    let ok = matches!((&got, &want), (Ok(g), Ok(w)) if close(g, w));
    let rest_nonnull = ys.iter().any(|r| r.iter().all(|c| c.is_some()));
    let brief = |r: &R<ScalarValue>| match r {
        Ok(v) if v.is_null() => "NULL".to_string(),
        Ok(v) => v.to_string(),
        Err(_) => "error".into(),
    };
    run.oracle(
        ok,
        &format!("retract {lab} rest_nonnull={rest_nonnull} removed={} got={} want={} case#{case}", nx, brief(&got), brief(&want)),
        &format!("update_batch({rows:?}) then retract_batch({xs:?}) evaluates to {got:?}; recomputing over the remaining rows {ys:?} gives {want:?}"),
    );
    run.count("law:retract");
    run.count(&format!("retract-capable:{}", t.name));
    if let Some(sm) = t.model.and_then(sliding_model) {
        let mr = model_rows(t, &rows);
        let req = format!("({sm} {} {})", sx_cells(&mr[..nx]), sx_cells(&mr[nx..]));
        let ans = if sm == "avg" {
            guard(|| {
                let mut acc = e(t.agg.create_sliding_accumulator())?;
                e(acc.update_batch(&arrays(t, &rows)))?;
                e(acc.retract_batch(&arrays(t, xs)))?;
                Ok(show_avg_state(&e(acc.state())?))
            })
            .unwrap_or_else(|x| format!("err:{x}"))
        } else {
            got_or_err(&got)
        };
        run.case("retract", &req, &ans, nx > 0);
    }
}

fn groups_law(run: &mut Run, rng: &mut Rng, t: &Target, case: u64) {
    let lab = label(t);
    if !t.agg.groups_accumulator_supported() {
        return;
    }
    let n = *rng.pick(&[0usize, 1, 3, 8, 20]);
    let rows = gen_rows(rng, n, t.types.len(), t.small);
    // group ids as the engine produces them: dense, in first-appearance order of a random key, and
    // `total_num_groups` of each call = number of groups interned so far (the GroupsAccumulator contract:
    // every group below `total_num_groups` has been handed at least one row)
    let kdom = 1 + rng.below(5);
    let mut seen: Vec<u64> = vec![];
    let gidx: Vec<usize> = (0..n)
        .map(|_| {
            let k = rng.below(kdom);
            match seen.iter().position(|x| *x == k) {
                Some(p) => p,
                None => {
                    seen.push(k);
                    seen.len() - 1
                }
            }
        })
        .collect();
    let ng = seen.len();
    let total_at = |end: usize| -> usize { gidx[..end].iter().max().map(|m| m + 1).unwrap_or(0) };
    let use_filter = rng.chance(1, 2);
    let filt: Vec<Option<bool>> = (0..n).map(|_| if !use_filter { Some(true) } else if rng.chance(1, 8) { None } else { Some(rng.chance(2, 3)) }).collect();
    let ch = chunks(rng, n);
    // scalar reference: per group, rows passing the filter, in order
    let want: R<Vec<ScalarValue>> = guard(|| {
        (0..ng)
            .map(|g| {
                let sel: Vec<Vec<Cell>> = (0..n).filter(|&i| gidx[i] == g && filt[i] == Some(true)).map(|i| rows[i].clone()).collect();
                eval_whole(t, &sel)
            })
            .collect()
    });
    let Ok(want) = want else { return };
    let emit_first = if ng >= 2 && rng.chance(1, 2) { Some(1 + rng.below(ng as u64 - 1) as usize) } else { None };
    let run_groups = |via_state: u8| -> R<Vec<ScalarValue>> {
        let mut acc = e(t.agg.create_groups_accumulator())?;
        for (a, b) in &ch {
            let vals = arrays(t, &rows[*a..*b]);
            let f: Option<BooleanArray> = if use_filter { Some(filt[*a..*b].iter().cloned().collect()) } else { None };
            match via_state {
                2 => {
                    // convert_to_state on the raw rows, then merge_batch
                    let st = e(acc.convert_to_state(&vals, f.as_ref()))?;
                    e(acc.merge_batch(&st, &gidx[*a..*b], total_at(*b)))?;
                }
                _ => e(acc.update_batch(&vals, &gidx[*a..*b], f.as_ref(), total_at(*b)))?,
            }
        }
        let mut acc = if via_state == 1 {
            // ship the per-group state to a second accumulator
            let st = e(acc.state(EmitTo::All))?;
            let mut acc2 = e(t.agg.create_groups_accumulator())?;
            let idx: Vec<usize> = (0..st[0].len()).collect();
            e(acc2.merge_batch(&st, &idx, ng))?;
            acc2
        } else {
            acc
        };
        let mut out: Vec<ScalarValue> = vec![];
        let mut take = |arr: ArrayRef| -> R<()> {
            for i in 0..arr.len() {
                out.push(canon(t, e(ScalarValue::try_from_array(&arr, i))?));
            }
            Ok(())
        };
        if let Some(k) = emit_first {
            take(e(acc.evaluate(EmitTo::First(k)))?)?;
        }
        take(e(acc.evaluate(EmitTo::All))?)?;
        Ok(out)
    };
    for (via, nm) in [(0u8, "update"), (1, "state-merge"), (2, "convert_to_state")] {
        let got = guard(|| run_groups(via));
        if via == 2 {
            if let Err(m) = &got {
                if m.contains("not implemented") || m.contains("NotImplemented") || m.contains("not supported") {
                    run.count("convert_to_state:not-implemented");
                    continue;
                }
            }
        }
        // groups that never received a row may be missing at the tail only if the accumulator was never told about them;
        // total_num_groups is always passed, so all `ng` groups must be present
        let ok = match &got {
            Ok(g) => g.len() == want.len() && g.iter().zip(want.iter()).all(|(a, b)| close(a, b)),
            Err(_) => false,
        };
        let mut diag = String::new();
        if !ok {
            if let Err(m) = &got {
                if m.contains("one argument to merge_batch") {
                    diag = " diag=convert_to_state-arity-assert".into();
                }
            }
            if let (Ok(g), true) = (&got, use_filter) {
                // does the vectorised result equal the scalar result computed WITHOUT the filter?
                let nofilter: R<Vec<ScalarValue>> = guard(|| (0..ng).map(|gi| eval_whole(t, &(0..n).filter(|&i| gidx[i] == gi).map(|i| rows[i].clone()).collect::<Vec<_>>())).collect());
                if let Ok(nf) = nofilter {
                    if g.len() == nf.len() && g.iter().zip(nf.iter()).all(|(a, b)| close(a, b)) {
                        diag = " diag=filter-ignored".into();
                    }
                }
            }
        }
        run.oracle(ok, &format!("groups-{nm} {lab} emit_first={emit_first:?} filter={use_filter}{diag} case#{case}"), &format!("rows={rows:?} groups={gidx:?} filter={filt:?} chunks={ch:?} scalar={want:?} vectorised={got:?}"));
        run.count(&format!("law:groups-{nm}"));
        if via == 0 {
            if let (Some(m), Ok(g)) = (t.model, &got) {
                if m != "avg" {
                    let mr = model_rows(t, &rows);
                    let req = format!(
                        "({m} {ng} ({}))",
                        (0..n).map(|i| format!("({} {} {})", gidx[i], mr[i][0].map(|x| x.to_string()).unwrap_or_else(|| "n".into()), if filt[i] == Some(true) { "t" } else { "f" })).collect::<Vec<_>>().join(" ")
                    );
                    run.case("groups", &req, &g.iter().map(show_sv).collect::<Vec<_>>().join(","), ng >= 2 && use_filter);
                }
            }
        }
    }
}


/// Multi-step HISTORIES of a `GroupsAccumulator`: update_batch (null-free first, so the fast paths are entered;
/// later with NULLs / filters / new groups that only ever receive NULL or filtered-out rows) / merge_batch of
/// partial state / evaluate|state(`EmitTo::First(n)`, 0 < n < groups, or `All`) / more updates to surviving
/// (renumbered: id - n) and to new groups / final evaluate(All).  Oracle: every logical group is emitted exactly
/// once and what was emitted for it equals the scalar `Accumulator` over that group's filter-passing rows
/// (NULL / 0 exactly when no row passed).
enum Hist {
    Skip,
    Pass,
    Fail { sig: String, detail: String },
}

fn groups_history_law(run: &mut Run, rng: &mut Rng, t: &Target, case: u64) {
    if !t.agg.groups_accumulator_supported() {
        return;
    }
    let mk = || e(t.agg.create_groups_accumulator());
    match history_core(rng, t, &mk, true) {
        Hist::Skip => run.count("groups-history:skipped"),
        Hist::Pass => {
            run.count("law:groups-history");
            run.oracle(true, "", "");
        }
        Hist::Fail { sig, detail } => {
            run.count("law:groups-history");
            run.oracle(false, &format!("{sig} case#{case}"), &detail);
        }
    }
}

fn history_core(rng: &mut Rng, t: &Target, mk: &dyn Fn() -> R<Box<dyn GroupsAccumulator>>, allow_state: bool) -> Hist {
    let lab = label(t);
    let arity = t.types.len();
    // logical groups in creation order; `live[i]` = logical id of the accumulator's current group i
    let mut grows: Vec<Vec<Vec<Cell>>> = vec![]; // filter-passing rows per logical group, in arrival order
    let mut grows_nofilter: Vec<Vec<Vec<Cell>>> = vec![];
    let mut live: Vec<usize> = vec![];
    let mut emitted: Vec<Vec<ScalarValue>> = vec![]; // per logical group, every value emitted for it
    let mut log: Vec<String> = vec![];
    let mut any_filter = false;
    let nsteps = 3 + rng.below(6) as usize;
    let res: R<()> = guard(|| {
        let mut acc = mk()?;
        let mut emits = 0;
        let mut just_emitted = false;
        for step in 0..nsteps {
            let kind = if step == 0 { 0 } else { rng.below(10) };
            match kind {
                0..=5 => {
                    // ---- update_batch
                    // phase: the first two update batches are NULL-free and filter-free
                    let after_emit = std::mem::replace(&mut just_emitted, false);
                    let clean = !after_emit && step < 2 && rng.chance(4, 5);
                    let m = 1 + rng.below(6) as usize;
                    let mode = if clean { 0 } else if after_emit { 1 + rng.below(3) } else { rng.below(4) }; // 0 clean, 1 NULLs, 2 filter, 3 NULLs+filter
                    let use_filter = mode >= 2;
                    any_filter |= use_filter;
                    // ghost groups: new groups whose rows are all NULL (or all filtered out) — right after an emit
                    // they are the groups a stale "all groups seen" counter would wrongly cover
                    let ghosts = !clean && rng.chance(if after_emit { 2 } else { 1 }, if after_emit { 3 } else { 2 });
                    // right after an emit, hit the group that moved to index 0 with a value it has already seen
                    let revisit: Option<Vec<Cell>> = if after_emit && !live.is_empty() && rng.chance(2, 3) { grows[live[0]].first().cloned() } else { None };
                    let mut rows: Vec<Vec<Cell>> = vec![];
                    let mut gidx: Vec<usize> = vec![];
                    let mut filt: Vec<Option<bool>> = vec![];
                    let mut new_in_batch: Vec<usize> = vec![];
                    for ri in 0..m {
                        let pinned = ri == 0 && revisit.is_some();
                        let new_group = !pinned && (live.is_empty() || rng.chance(1, 3));
                        let gi = if new_group {
                            live.push(grows.len());
                            grows.push(vec![]);
                            grows_nofilter.push(vec![]);
                            emitted.push(vec![]);
                            new_in_batch.push(live.len() - 1);
                            live.len() - 1
                        } else if pinned {
                            0
                        } else {
                            rng.below(live.len() as u64) as usize
                        };
                        let is_ghost = ghosts && new_in_batch.contains(&gi);
                        let mut r: Vec<Cell> = if pinned { revisit.clone().unwrap() } else { (0..arity).map(|_| gen_cell(rng, t.small)).collect() };
                        if clean || mode == 2 {
                            for c in r.iter_mut() {
                                if c.is_none() {
                                    *c = Some(1);
                                }
                            }
                        }
                        let mut f = if use_filter { if pinned { Some(true) } else if rng.chance(1, 8) { None } else { Some(rng.chance(2, 3)) } } else { Some(true) };
                        if is_ghost {
                            if use_filter {
                                f = Some(false);
                            } else {
                                r[0] = None;
                            }
                        }
                        rows.push(r);
                        gidx.push(gi);
                        filt.push(f);
                    }
                    let vals = arrays(t, &rows);
                    let fa: Option<BooleanArray> = if use_filter { Some(filt.iter().cloned().collect()) } else { None };
                    e(acc.update_batch(&vals, &gidx, fa.as_ref(), live.len()))?;
                    for i in 0..m {
                        grows_nofilter[live[gidx[i]]].push(rows[i].clone());
                        if filt[i] == Some(true) {
                            grows[live[gidx[i]]].push(rows[i].clone());
                        }
                    }
                    log.push(format!("update(rows={rows:?} groups={gidx:?} filter={:?} total={})", if use_filter { Some(&filt) } else { None }, live.len()));
                }
                6 => {
                    // ---- merge_batch of partial state produced by a second accumulator (not for order-sensitive functions)
                    if t.ordered {
                        continue;
                    }
                    let m = 1 + rng.below(4) as usize;
                    if !allow_state {
                        continue;
                    }
                    let mut side = mk()?;
                    let mut side_groups: Vec<usize> = vec![]; // side index -> main index
                    let mut rows: Vec<Vec<Cell>> = vec![];
                    let mut sidx: Vec<usize> = vec![];
                    for _ in 0..m {
                        let new_group = live.is_empty() || rng.chance(1, 3);
                        let gi = if new_group {
                            live.push(grows.len());
                            grows.push(vec![]);
                            grows_nofilter.push(vec![]);
                            emitted.push(vec![]);
                            live.len() - 1
                        } else {
                            rng.below(live.len() as u64) as usize
                        };
                        let si = match side_groups.iter().position(|x| *x == gi) {
                            Some(p) => p,
                            None => {
                                side_groups.push(gi);
                                side_groups.len() - 1
                            }
                        };
                        let r: Vec<Cell> = (0..arity).map(|_| gen_cell(rng, t.small)).collect();
                        rows.push(r);
                        sidx.push(si);
                    }
                    e(side.update_batch(&arrays(t, &rows), &sidx, None, side_groups.len()))?;
                    let st = e(side.state(EmitTo::All))?;
                    e(acc.merge_batch(&st, &side_groups, live.len()))?;
                    // the partial state of side group j summarises its rows in order
                    for (j, gi) in side_groups.iter().enumerate() {
                        for i in 0..m {
                            if sidx[i] == j {
                                grows[live[*gi]].push(rows[i].clone());
                                grows_nofilter[live[*gi]].push(rows[i].clone());
                            }
                        }
                    }
                    log.push(format!("merge(rows={rows:?} side_groups={sidx:?} -> main {side_groups:?} total={})", live.len()));
                }
                _ => {
                    // ---- emit a prefix (or everything) and continue
                    if live.is_empty() || emits >= 3 {
                        continue;
                    }
                    emits += 1;
                    let n = if live.len() >= 2 && rng.chance(4, 5) { 1 + rng.below(live.len() as u64 - 1) as usize } else { live.len() };
                    let emit = if n == live.len() && rng.chance(1, 2) { EmitTo::All } else { EmitTo::First(n) };
                    let via_state = allow_state && !t.ordered && rng.chance(1, 3);
                    let vals: Vec<ScalarValue> = if via_state {
                        // partial state of the emitted groups, finalised by a second (final-stage) GroupsAccumulator
                        let st = e(acc.state(emit))?;
                        let k = st[0].len();
                        let mut fin = mk()?;
                        e(fin.merge_batch(&st, &(0..k).collect::<Vec<_>>(), k))?;
                        let arr = e(fin.evaluate(EmitTo::All))?;
                        (0..arr.len()).map(|r| Ok(canon(t, e(ScalarValue::try_from_array(&arr, r))?))).collect::<R<Vec<_>>>()?
                    } else {
                        let arr = e(acc.evaluate(emit))?;
                        (0..arr.len()).map(|r| Ok(canon(t, e(ScalarValue::try_from_array(&arr, r))?))).collect::<R<Vec<_>>>()?
                    };
                    if vals.len() != n {
                        return Err(format!("emit {emit:?} returned {} rows for {n} groups; history {log:?}", vals.len()));
                    }
                    for (i, v) in vals.into_iter().enumerate() {
                        emitted[live[i]].push(v);
                    }
                    live.drain(..n);
                    just_emitted = true;
                    log.push(format!("{}({emit:?})", if via_state { "state" } else { "evaluate" }));
                }
            }
        }
        // ---- final evaluate(All)
        let arr = e(acc.evaluate(EmitTo::All))?;
        if arr.len() != live.len() {
            return Err(format!("final evaluate(All) returned {} rows for {} live groups; history {log:?}", arr.len(), live.len()));
        }
        for i in 0..arr.len() {
            emitted[live[i]].push(canon(t, e(ScalarValue::try_from_array(&arr, i))?));
        }
        log.push("evaluate(All)".into());
        Ok(())
    });
    let sig_base = format!("groups-history {lab}");
    if let Err(m) = res {
        if m.contains("not implemented") || m.contains("NotImplemented") {
            return Hist::Skip;
        }
        return Hist::Fail { sig: format!("{sig_base} error"), detail: format!("{m} | history {log:?}") };
    }
    // scalar oracle per logical group
    let mut bad: Vec<String> = vec![];
    let mut all_match_nofilter = any_filter;
    for g in 0..grows.len() {
        let want = guard(|| eval_whole(t, &grows[g]));
        let Ok(want) = want else { return Hist::Skip };
        let once = emitted[g].len() == 1;
        let ok = once && close(&emitted[g][0], &want);
        if !ok {
            bad.push(format!("group {g}: emitted {:?}, scalar over its {} passing rows {:?} = {want:?}", emitted[g], grows[g].len(), grows[g]));
            if any_filter {
                let nf = guard(|| eval_whole(t, &grows_nofilter[g]));
                if !(once && matches!(&nf, Ok(v) if close(&emitted[g][0], v))) {
                    all_match_nofilter = false;
                }
            }
        }
    }
    let diag = if !bad.is_empty() && all_match_nofilter { " diag=filter-ignored" } else { "" };
    if bad.is_empty() {
        Hist::Pass
    } else {
        Hist::Fail { sig: format!("{sig_base} filter={any_filter}{diag}"), detail: format!("{} | history {log:?}", bad.join("; ")) }
    }
}

// ---------------------------------------------------------------------------------------- self-test
// Harness-local re-implementations of two vectorised accumulators, each with a switchable defect of the
// `EmitTo::First(n)` class.  Every run checks that the history law (a) accepts the faithful versions and
// (b) rejects the defective ones — i.e. that the generated histories reach those code paths.

enum Seen {
    All(usize),
    Some(Vec<bool>),
}

/// SUM(Int64) with the `NullState` fast path ("all groups seen": a counter instead of a bitmap)
struct MockSum {
    sums: Vec<i64>,
    seen: Seen,
    /// defect: `build(First(n))` does not subtract the emitted prefix from the fast-path counter
    bug: bool,
}

impl MockSum {
    fn bits(&mut self, total: usize) -> &mut Vec<bool> {
        if let Seen::All(n) = self.seen {
            let mut v = vec![true; n];
            v.resize(total.max(n), false);
            self.seen = Seen::Some(v);
        }
        match &mut self.seen {
            Seen::Some(v) => {
                if v.len() < total {
                    v.resize(total, false);
                }
                v
            }
            _ => unreachable!(),
        }
    }
    fn build(&mut self, emit: EmitTo, len: usize) -> Vec<bool> {
        match emit {
            EmitTo::All => match std::mem::replace(&mut self.seen, Seen::All(0)) {
                Seen::All(_) => vec![true; len],
                Seen::Some(v) => v,
            },
            EmitTo::First(n) => match &mut self.seen {
                Seen::All(k) => {
                    if !self.bug {
                        *k = k.saturating_sub(n);
                    }
                    vec![true; n]
                }
                Seen::Some(v) => {
                    let rest = v.split_off(n.min(v.len()));
                    std::mem::replace(v, rest)
                }
            },
        }
    }
}

impl GroupsAccumulator for MockSum {
    fn update_batch(&mut self, values: &[ArrayRef], group_indices: &[usize], opt_filter: Option<&BooleanArray>, total_num_groups: usize) -> datafusion_common::Result<()> {
        let v = values[0].as_any().downcast_ref::<Int64Array>().unwrap();
        self.sums.resize(total_num_groups, 0);
        if let (Seen::All(n), None, 0) = (&mut self.seen, opt_filter, v.null_count()) {
            for (i, g) in group_indices.iter().enumerate() {
                self.sums[*g] = self.sums[*g].wrapping_add(v.value(i));
            }
            *n = total_num_groups;
            return Ok(());
        }
        let pass: Vec<bool> = (0..v.len()).map(|i| !v.is_null(i) && opt_filter.map(|f| f.is_valid(i) && f.value(i)).unwrap_or(true)).collect();
        let vals: Vec<i64> = (0..v.len()).map(|i| if v.is_null(i) { 0 } else { v.value(i) }).collect();
        let bits = self.bits(total_num_groups);
        for (i, g) in group_indices.iter().enumerate() {
            if pass[i] {
                bits[*g] = true;
            }
        }
        for (i, g) in group_indices.iter().enumerate() {
            if pass[i] {
                self.sums[*g] = self.sums[*g].wrapping_add(vals[i]);
            }
        }
        Ok(())
    }
    fn evaluate(&mut self, emit_to: EmitTo) -> datafusion_common::Result<ArrayRef> {
        let sums = emit_to.take_needed(&mut self.sums);
        let valid = self.build(emit_to, sums.len());
        Ok(Arc::new(sums.iter().enumerate().map(|(i, s)| if valid.get(i).copied().unwrap_or(false) { Some(*s) } else { None }).collect::<Int64Array>()))
    }
    fn state(&mut self, _emit_to: EmitTo) -> datafusion_common::Result<Vec<ArrayRef>> {
        datafusion_common::not_impl_err!("mock")
    }
    fn merge_batch(&mut self, _values: &[ArrayRef], _group_indices: &[usize], _total_num_groups: usize) -> datafusion_common::Result<()> {
        datafusion_common::not_impl_err!("mock")
    }
    fn convert_to_state(&self, _values: &[ArrayRef], _opt_filter: Option<&BooleanArray>) -> datafusion_common::Result<Vec<ArrayRef>> {
        datafusion_common::not_impl_err!("mock")
    }
    fn size(&self) -> usize {
        0
    }
}

/// COUNT(DISTINCT Int64) as `PrimitiveDistinctCountGroupsAccumulator`: a set of (group, value) pairs and a count per group
struct MockDistinctCount {
    seen: std::collections::HashSet<(usize, i64)>,
    counts: Vec<i64>,
    /// defect: after `First(n)` the retain test is `group_idx > n` instead of `>= n`
    bug: bool,
}

impl GroupsAccumulator for MockDistinctCount {
    fn update_batch(&mut self, values: &[ArrayRef], group_indices: &[usize], opt_filter: Option<&BooleanArray>, total_num_groups: usize) -> datafusion_common::Result<()> {
        let v = values[0].as_any().downcast_ref::<Int64Array>().unwrap();
        self.counts.resize(total_num_groups, 0);
        for (i, g) in group_indices.iter().enumerate() {
            if v.is_null(i) || !opt_filter.map(|f| f.is_valid(i) && f.value(i)).unwrap_or(true) {
                continue;
            }
            if self.seen.insert((*g, v.value(i))) {
                self.counts[*g] += 1;
            }
        }
        Ok(())
    }
    fn evaluate(&mut self, emit_to: EmitTo) -> datafusion_common::Result<ArrayRef> {
        let counts = emit_to.take_needed(&mut self.counts);
        match emit_to {
            EmitTo::All => self.seen.clear(),
            EmitTo::First(n) => {
                let bug = self.bug;
                self.seen = self.seen.drain().filter(|(g, _)| if bug { *g > n } else { *g >= n }).map(|(g, x)| (g - n, x)).collect();
            }
        }
        Ok(Arc::new(Int64Array::from(counts)))
    }
    fn state(&mut self, _emit_to: EmitTo) -> datafusion_common::Result<Vec<ArrayRef>> {
        datafusion_common::not_impl_err!("mock")
    }
    fn merge_batch(&mut self, _values: &[ArrayRef], _group_indices: &[usize], _total_num_groups: usize) -> datafusion_common::Result<()> {
        datafusion_common::not_impl_err!("mock")
    }
    fn convert_to_state(&self, _values: &[ArrayRef], _opt_filter: Option<&BooleanArray>) -> datafusion_common::Result<Vec<ArrayRef>> {
        datafusion_common::not_impl_err!("mock")
    }
    fn size(&self) -> usize {
        0
    }
}

fn history_selftest(run: &mut Run, rng: &mut Rng, targets: &[Target]) {
    let n = run.budget(300, 2_000);
    let find = |name: &str, distinct: bool| targets.iter().find(|t| t.name == name && t.distinct == distinct && t.types == vec![DataType::Int64]);
    let mut go = |what: &str, t: &Target, mk: &dyn Fn() -> R<Box<dyn GroupsAccumulator>>, expect_fail: bool, run: &mut Run, rng: &mut Rng| {
        let (mut pass, mut fail, mut first) = (0u64, 0u64, String::new());
        for _ in 0..n {
            match history_core(rng, t, mk, false) {
                Hist::Pass => pass += 1,
                Hist::Fail { detail, .. } => {
                    fail += 1;
                    if first.is_empty() {
                        first = detail;
                    }
                }
                Hist::Skip => {}
            }
        }
        run.add(&format!("selftest:{what}:rejected"), fail);
        if expect_fail {
            run.oracle(fail >= 3, &format!("selftest history-sensitivity {what}"), &format!("only {fail} of {n} generated histories expose the seeded `{what}` defect of the harness-local accumulator"));
        } else {
            run.oracle(fail == 0, &format!("selftest history-soundness {what}"), &format!("{fail} histories reject the FAITHFUL harness-local accumulator; first: {first}"));
        }
        let _ = pass;
    };
    if let Some(t) = find("sum", false) {
        go("mock-sum-faithful", t, &|| Ok(Box::new(MockSum { sums: vec![], seen: Seen::All(0), bug: false }) as Box<dyn GroupsAccumulator>), false, run, rng);
        go("nullstate-first-n-counter-not-decremented", t, &|| Ok(Box::new(MockSum { sums: vec![], seen: Seen::All(0), bug: true }) as Box<dyn GroupsAccumulator>), true, run, rng);
    }
    if let Some(t) = find("count", true) {
        go("mock-distinct-count-faithful", t, &|| Ok(Box::new(MockDistinctCount { seen: Default::default(), counts: vec![], bug: false }) as Box<dyn GroupsAccumulator>), false, run, rng);
        go("distinct-count-first-n-retain-off-by-one", t, &|| Ok(Box::new(MockDistinctCount { seen: Default::default(), counts: vec![], bug: true }) as Box<dyn GroupsAccumulator>), true, run, rng);
    }
}

pub fn run(run: &mut Run, args: &Args) {
    hutil::quiet_panics();
    let mut rng = Rng::new(args.seed);
    let targets = build_targets(run);
    let per = run.budget(12, 300);
    for t in &targets {
        run.count(if t.model.is_some() { "targets:modelled" } else { "targets:laws-only" });
        // modelled functions get more cases
        let k = if t.model.is_some() { per * 4 } else { per };
        for c in 0..k {
            scalar_laws(run, &mut rng, t, c);
            retract_law(run, &mut rng, t, c);
            groups_law(run, &mut rng, t, c);
            for h in 0..4 {
                groups_history_law(run, &mut rng, t, 4 * c + h);
            }
        }
    }
    history_selftest(run, &mut rng, &targets);
}
