//! C30 — produced batches conform to the declared schema.
//!
//! Implementation-level oracles (no model), for every generated query of the C01 fragment and for
//! dedicated expression-heavy projections, over tables with NOT NULL and nullable columns:
//!   (N) every node of the executed physical plan: each `RecordBatch` the node emits (each partition)
//!       has the node's declared column count, column by column the declared `data_type()`, and
//!       `null_count() == 0` for fields declared non-nullable (`ExecutionPlan::schema()`);
//!   (D) `DataFrame::schema()` vs the collected batches: same column count, logically equal types
//!       (dictionary / view encodings ≅ value type), no NULL in a column declared NOT NULL.
//! Correspondence (refinement, judged by `DfModel.Drv.C30`): the real `DataFrame::schema()` — i.e.
//! `ExprSchemable::to_field` of the projection expressions and the logical-plan schema rules —
//! against the model's `schemaOf`/`typeOf`: same types, implementation NOT NULL ⇒ model NOT NULL.
use std::sync::Arc;
use std::time::Duration;

use arrow::array::{Array, RecordBatch};
use arrow::datatypes::{DataType, Field, Schema, SchemaRef};
use datafusion::datasource::MemTable;
use datafusion::physical_plan::{ExecutionPlan, collect_partitioned};
use datafusion::prelude::{SessionConfig, SessionContext};
use hutil::{Args, Rng, Run};

use crate::sqlgen::*;

fn ty_sexp(dt: &DataType) -> String {
    match dt {
        DataType::Int8 => "(int 8 s)".into(),
        DataType::Int16 => "(int 16 s)".into(),
        DataType::Int32 => "(int 32 s)".into(),
        DataType::Int64 => "(int 64 s)".into(),
        DataType::UInt8 => "(int 8 u)".into(),
        DataType::UInt16 => "(int 16 u)".into(),
        DataType::UInt32 => "(int 32 u)".into(),
        DataType::UInt64 => "(int 64 u)".into(),
        DataType::Boolean => "bool".into(),
        DataType::Utf8 | DataType::LargeUtf8 | DataType::Utf8View => "str".into(),
        DataType::Null => "null".into(),
        DataType::Dictionary(_, v) => ty_sexp(v),
        _ => "other".into(),
    }
}
fn logical(dt: &DataType) -> String {
    match dt {
        DataType::Utf8 | DataType::Utf8View | DataType::LargeUtf8 => "string".into(),
        DataType::Binary | DataType::BinaryView | DataType::LargeBinary => "binary".into(),
        DataType::Dictionary(_, v) => logical(v),
        d => format!("{d:?}"),
    }
}

/// declared nullability per table column: a column without NULLs is declared NOT NULL half the time
fn gen_nullability(rng: &mut Rng, db: &[TableDef]) -> Vec<Vec<bool>> {
    db.iter()
        .map(|t| (0..t.cols.len()).map(|c| t.rows.iter().any(|r| r[c] == Val::Null) || rng.chance(1, 2)).collect())
        .collect()
}

fn table_schema(t: &TableDef, nullable: &[bool]) -> SchemaRef {
    Arc::new(Schema::new(t.cols.iter().zip(nullable).map(|((n, ty), nl)| Field::new(n, ty.arrow(), *nl)).collect::<Vec<_>>()))
}

fn make_ctx(rng: &mut Rng, db: &[TableDef], nullability: &[Vec<bool>]) -> SessionContext {
    let tp = 1 + rng.below(4) as usize;
    let bs = *rng.pick(&[1usize, 2, 3, 8192]);
    let cfg = SessionConfig::new().with_target_partitions(tp).with_batch_size(bs);
    let ctx = SessionContext::new_with_config(cfg);
    for (t, nl) in db.iter().zip(nullability) {
        let schema = table_schema(t, nl);
        let parts: Vec<Vec<RecordBatch>> = partitions_of(rng, t)
            .into_iter()
            .map(|p| p.into_iter().map(|b| RecordBatch::try_new(schema.clone(), b.columns().to_vec()).unwrap()).collect())
            .collect();
        let mt = MemTable::try_new(schema, parts).unwrap();
        ctx.register_table(t.name.as_str(), Arc::new(mt)).unwrap();
    }
    ctx
}

fn tdb_sexp(db: &[TableDef], nullability: &[Vec<bool>]) -> String {
    format!(
        "({})",
        db.iter()
            .zip(nullability)
            .map(|(t, nl)| format!("({} ({}))", t.name, t.cols.iter().zip(nl).map(|((_, ty), n)| format!("({} {})", ty.sexp(), if *n { "t" } else { "f" })).collect::<Vec<_>>().join(" ")))
            .collect::<Vec<_>>()
            .join(" ")
    )
}

/// node `idx` (pre-order) of a plan tree
fn nth_node(plan: &Arc<dyn ExecutionPlan>, idx: &mut usize) -> Option<Arc<dyn ExecutionPlan>> {
    if *idx == 0 {
        return Some(plan.clone());
    }
    *idx -= 1;
    for c in plan.children() {
        if let Some(n) = nth_node(c, idx) {
            return Some(n);
        }
    }
    None
}
fn count_nodes(plan: &Arc<dyn ExecutionPlan>) -> usize {
    1 + plan.children().iter().map(|c| count_nodes(c)).sum::<usize>()
}

/// the property's predicate for one emitted batch against a declared schema
fn batch_conforms(b: &RecordBatch, declared: &Schema, exact_types: bool) -> Result<(), String> {
    if b.num_columns() != declared.fields().len() {
        return Err(format!("batch has {} columns, declared {}", b.num_columns(), declared.fields().len()));
    }
    for (i, f) in declared.fields().iter().enumerate() {
        let col = b.column(i);
        let same = if exact_types { col.data_type() == f.data_type() } else { logical(col.data_type()) == logical(f.data_type()) };
        if !same {
            return Err(format!("column {i} `{}`: batch type {:?}, declared {:?}", f.name(), col.data_type(), f.data_type()));
        }
        if !f.is_nullable() && col.null_count() > 0 {
            return Err(format!("column {i} `{}` is declared NOT NULL but the batch holds {} NULL(s)", f.name(), col.null_count()));
        }
        if col.len() != b.num_rows() {
            return Err(format!("column {i}: {} values for {} rows", col.len(), b.num_rows()));
        }
    }
    Ok(())
}

async fn check_query(run: &mut Run, ctx: &SessionContext, sql: &str, plan_sx: &str, tdb: &str, dbs: &str, nontrivial: bool) {
    let df = match ctx.sql(sql).await {
        Ok(df) => df,
        Err(e) => {
            run.count(&format!("plan-err:{}", err_class(&e.to_string())));
            return;
        }
    };
    // ---- correspondence: DataFrame::schema() vs the model's schemaOf
    let dfs: Schema = df.schema().as_arrow().clone();
    let impl_schema = format!("({})", dfs.fields().iter().map(|f| format!("({} {})", ty_sexp(f.data_type()), if f.is_nullable() { "t" } else { "f" })).collect::<Vec<_>>().join(" "));
    run.case("schema", &format!("({plan_sx} {tdb} {impl_schema})"), "ok", nontrivial);
    run.add("columns", dfs.fields().len() as u64);
    run.add("columns-not-null", dfs.fields().iter().filter(|f| !f.is_nullable()).count() as u64);
    // ---- (D) DataFrame::schema() vs collected batches
    let collected = tokio::time::timeout(Duration::from_secs(30), df.clone().collect()).await;
    match collected {
        Err(_) => {
            run.oracle(false, &format!("C30 engine HANG :: {sql}"), &format!("db={dbs}"));
            return;
        }
        Ok(Err(e)) => {
            run.count(&format!("exec-err:{}", err_class(&e.to_string())));
        }
        Ok(Ok(batches)) => {
            run.count("executed");
            let mut bad = None;
            for b in &batches {
                if let Err(m) = batch_conforms(b, &dfs, false) {
                    bad = Some(m);
                    break;
                }
            }
            // a bare `NULL` in a SELECT list makes a Null-typed column; the unanalysed logical plan that
            // `DataFrame::schema()` reports then disagrees with what is executed (finding H2)
            let cat = if sql.contains("NULL AS k") { "null-typed-column" } else { "typed" };
            run.oracle(bad.is_none(), &format!("C30 dataframe-schema-vs-batches {cat} :: {sql}"), &format!("{}; declared {dfs:?}; db={dbs}", bad.unwrap_or_default()));
        }
    }
    // ---- (N) every node of the physical plan, executed on a fresh plan instance
    let n_nodes = match df.clone().create_physical_plan().await {
        Ok(p) => count_nodes(&p),
        Err(_) => return,
    };
    run.add("physical-nodes", n_nodes as u64);
    for k in 0..n_nodes {
        let Ok(plan) = df.clone().create_physical_plan().await else { return };
        let mut idx = k;
        let Some(node) = nth_node(&plan, &mut idx) else { continue };
        let declared = node.schema();
        let name = node.name().to_string();
        let res = tokio::time::timeout(Duration::from_secs(30), collect_partitioned(node.clone(), ctx.task_ctx())).await;
        match res {
            Err(_) => {
                run.oracle(false, &format!("C30 node HANG {name} :: {sql}"), &format!("node #{k}; db={dbs}"));
            }
            Ok(Err(_)) => run.count("node-exec-err"),
            Ok(Ok(parts)) => {
                run.count(&format!("node:{name}"));
                let mut bad = None;
                let mut nb = 0u64;
                'outer: for p in &parts {
                    for b in p {
                        nb += 1;
                        if let Err(m) = batch_conforms(b, &declared, true) {
                            bad = Some(m);
                            break 'outer;
                        }
                    }
                }
                run.add("node-batches", nb);
                run.oracle(bad.is_none(), &format!("C30 node-batch-vs-declared-schema {name} :: {sql}"), &format!("node #{k} {name}: {}; declared {declared:?}; db={dbs}", bad.unwrap_or_default()));
            }
        }
    }
}

pub fn run(run: &mut Run, args: &Args) {
    let mut rng = Rng::new(args.seed);
    hutil::quiet_panics();
    let rt = tokio::runtime::Builder::new_current_thread().enable_all().build().unwrap();
    let n_queries = run.budget(220, 4000);
    for qi in 0..n_queries {
        let db = gen_db(&mut rng, 8);
        let nullability = gen_nullability(&mut rng, &db);
        let tdb = tdb_sexp(&db, &nullability);
        let dbs = db_sexp(&db);
        let (sql, plan, nontrivial, kind) = if qi % 3 == 2 {
            // expression-heavy projection over one table: exercises typeOf
            let t = &db[rng.below(db.len() as u64) as usize];
            let from = From::Table { name: t.name.clone(), cols: t.cols.clone(), alias: "x1".into() };
            let scope = from.scope();
            let g = ExprGen { cols: &scope, outer: &[], err_pct: 10, allow_like: true };
            let n = 2 + rng.below(4) as usize;
            let proj: Vec<(Expr, Ty)> = (0..n)
                .map(|_| {
                    let ty = g.any_ty_pub(&mut rng);
                    let d = 1 + rng.below(3) as u32;
                    (g.expr(&mut rng, ty, d), ty)
                })
                .collect();
            let q = Query::select(Select { from, where_: None, group: None, proj, distinct: false });
            (q.sql(), q.plan(), true, "projection")
        } else {
            let depth = if run.thorough() { 1 + rng.below(3) as u32 } else { 1 + rng.below(2) as u32 };
            let q = {
                let mut qg = QueryGen::new(&db, *rng.pick(&[0u64, 0, 10]));
                qg.gen_query(&mut rng, depth)
            };
            let mut cs = std::collections::BTreeSet::new();
            q.constructs(&mut cs);
            let structural = cs.iter().any(|c| c.starts_with("join-") || c.contains("subquery") || c.contains("exists") || c.starts_with("group") || c.starts_with("aggregate") || c.contains("union") || c.contains("intersect") || c.contains("except"));
            (q.sql(), q.plan(), structural, "query")
        };
        run.count(kind);
        let ctx = make_ctx(&mut rng, &db, &nullability);
        let r = hutil::catch(std::panic::AssertUnwindSafe(|| rt.block_on(check_query(run, &ctx, &sql, &plan, &tdb, &dbs, nontrivial))));
        if let Err(p) = r {
            run.oracle(false, &format!("C30 engine PANIC :: {sql}"), &format!("{p}; db={dbs}"));
        }
        if qi < 3 {
            run.note(&format!("sample SQL: {sql}"));
        }
    }
}
