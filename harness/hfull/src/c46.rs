//! C46 — benchmark result validation accepts exactly the persisted results.
//!
//! (a) hook H5 `verif::compare_results` vs the Lean model `Text.Bench.compareResults` on random
//!     small string tables (shape differences, the literal cells `NULL`, `(empty)`, ``, every
//!     `column_count` from 0 to width+1) — equality on `ok | rows | cols | cell r c`.
//! (b) the REAL `SqlBenchmark::persist` → `SqlBenchmark::verify` on generated result sets of Utf8
//!     cells (NULL, '', the text NULL, '|', quotes, CR/LF, unicode): the persisted file's text vs
//!     the model's `persist`, the table read back (same reader options as `read_query_from_file`,
//!     formatted by hook `format_record_batches`) vs the model's `expected`; oracles: verify accepts
//!     what persist wrote; after a single-cell / row-count / column-count mutation of the query
//!     result verify rejects unless the change is one of the documented NULL/empty equivalences.
//! (c) hook `process_replacements_with_env` vs the model on generated placeholder strings with an
//!     explicit map, a fake environment and defaults; oracle: map > env > default on single
//!     placeholders.
use std::collections::HashMap;
use std::sync::Arc;

use arrow::array::{ArrayRef, RecordBatch, StringArray};
use arrow::datatypes::{DataType, Field, Schema};
use datafusion::datasource::MemTable;
use datafusion::prelude::{CsvReadOptions, SessionConfig, SessionContext};
use datafusion_benchmarks::sql_benchmark::SqlBenchmark;
use datafusion_benchmarks::sql_benchmark::verif::{compare_results, format_record_batches, process_replacements_with_env};
use hutil::{Args, Rng, Run};

fn cps(s: &str) -> String {
    let v: Vec<String> = s.chars().map(|c| (c as u32).to_string()).collect();
    format!("({})", v.join(" "))
}

fn table_sexp(t: &[Vec<String>]) -> String {
    format!("({})", t.iter().map(|r| format!("({})", r.iter().map(|c| cps(c)).collect::<Vec<_>>().join(" "))).collect::<Vec<_>>().join(" "))
}

type Cell = Option<String>;

fn cell_sexp(c: &Cell) -> String {
    match c {
        None => "n".into(),
        Some(s) => cps(s),
    }
}

fn cells_sexp(t: &[Vec<Cell>]) -> String {
    format!("({})", t.iter().map(|r| format!("({})", r.iter().map(cell_sexp).collect::<Vec<_>>().join(" "))).collect::<Vec<_>>().join(" "))
}

// ------------------------------------------------------------------ (a) compare_results

fn classify_err(msg: &str) -> String {
    if msg.contains(" rows but got ") {
        "rows".into()
    } else if msg.contains(" columns but got ") {
        "cols".into()
    } else if let Some(i) = msg.find("Error in result on row ") {
        let rest = &msg[i + "Error in result on row ".len()..];
        let r: String = rest.chars().take_while(|c| c.is_ascii_digit()).collect();
        let rest = &rest[r.len()..];
        let rest = rest.strip_prefix(", column ").unwrap_or("");
        let c: String = rest.chars().take_while(|c| c.is_ascii_digit()).collect();
        format!("cell {r} {c}")
    } else {
        format!("other:{msg}")
    }
}

const CMP_CELLS: &[&str] = &["", "NULL", "(empty)", "a", "b", "null", "Null", " ", "(empty) ", "NULL ", "1", "é"];

fn gen_table(rng: &mut Rng, rows: usize, width: usize) -> Vec<Vec<String>> {
    (0..rows).map(|_| (0..width).map(|_| rng.pick(CMP_CELLS).to_string()).collect()).collect()
}

/// the documented cell equivalences, written independently of the implementation
fn cell_equiv(expected: &str, actual: &str) -> bool {
    expected == actual || (expected == "NULL" && actual.is_empty()) || (expected == "(empty)" && (actual.is_empty() || actual == "NULL"))
}

fn compare_side(run: &mut Run, rng: &mut Rng) {
    let n = run.budget(4000, 100_000);
    for i in 0..n {
        let rows = rng.below(4) as usize;
        let width = 1 + rng.below(3) as usize;
        let expected = gen_table(rng, rows, width);
        // actual: a copy with 0..2 mutations, sometimes a different shape
        let mut actual = expected.clone();
        match rng.below(10) {
            0 => {
                actual.push(vec!["a".into(); width]);
            }
            1 => {
                actual.pop();
            }
            2 => {
                if let Some(r) = actual.last_mut() {
                    r.push("x".into());
                }
            }
            3 => {
                if let Some(r) = actual.first_mut() {
                    r.pop();
                }
            }
            4 => actual = gen_table(rng, rows, width),
            _ => {}
        }
        for _ in 0..rng.below(3) {
            if !actual.is_empty() {
                let r = rng.below(actual.len() as u64) as usize;
                if !actual[r].is_empty() {
                    let c = rng.below(actual[r].len() as u64) as usize;
                    actual[r][c] = rng.pick(CMP_CELLS).to_string();
                }
            }
        }
        let cc = rng.below(width as u64 + 2) as usize;
        let res = compare_results("q", cc, &actual, &expected);
        let ans = match &res {
            Ok(()) => "ok".to_string(),
            Err(e) => classify_err(&e.to_string()),
        };
        run.count(&format!("cmp:{}", ans.split(' ').next().unwrap()));
        run.case("cmp", &format!("({cc} {} {})", table_sexp(&actual), table_sexp(&expected)), &ans, actual != expected);
        // oracle: accepted iff same shape and every compared cell equivalent
        let want = actual.len() == expected.len()
            && actual.iter().zip(&expected).all(|(a, e)| a.len() == e.len() && e.iter().zip(a).take(cc).all(|(ev, av)| cell_equiv(ev, av)));
        run.oracle(res.is_ok() == want, &format!("compare-accepts-exactly #{i} cc={cc} actual={} expected={}", table_sexp(&actual), table_sexp(&expected)), &format!("compare_results gave {ans}, the documented rule says accept={want}"));
    }
}

// ------------------------------------------------------------------ (b) persist / verify

const CELL_CHARS: &[char] = &['a', 'b', '|', ',', '"', '\n', '\r', ' ', 'é', '漢', '\t', '\'', 'N', '(', ')'];

fn gen_cell(rng: &mut Rng) -> Cell {
    match rng.below(12) {
        0 | 1 => None,
        2 | 3 => Some(String::new()),
        4 => Some("NULL".into()),
        5 => Some(rng.pick(&["(empty)", "null", "a|b", "\"", "\"\"", "x\ny", "1", "-1.5", " ", "NULL ", "é"]).to_string()),
        _ => {
            let l = 1 + rng.below(4);
            Some((0..l).map(|_| *rng.pick(CELL_CHARS)).collect())
        }
    }
}

fn batches_of(schema: &Arc<Schema>, rows: &[Vec<Cell>], rng: &mut Rng) -> Vec<RecordBatch> {
    let width = schema.fields().len();
    let mk = |slice: &[Vec<Cell>]| {
        let cols: Vec<ArrayRef> = (0..width).map(|c| Arc::new(StringArray::from(slice.iter().map(|r| r[c].clone()).collect::<Vec<_>>())) as ArrayRef).collect();
        RecordBatch::try_new(schema.clone(), cols).unwrap()
    };
    if rows.len() >= 2 && rng.chance(1, 2) {
        let k = 1 + rng.below(rows.len() as u64 - 1) as usize;
        vec![mk(&rows[..k]), mk(&rows[k..])]
    } else {
        vec![mk(rows)]
    }
}

fn ctx_with(schema: &Arc<Schema>, batches: Vec<RecordBatch>) -> SessionContext {
    let ctx = SessionContext::new_with_config(SessionConfig::new().with_target_partitions(1));
    let t = MemTable::try_new(schema.clone(), vec![batches]).unwrap();
    ctx.register_table("t", Arc::new(t)).unwrap();
    ctx
}

fn read_all(path: &std::path::Path) -> String {
    if path.is_dir() {
        let mut files: Vec<_> = std::fs::read_dir(path).unwrap().map(|e| e.unwrap().path()).collect();
        files.sort();
        files.iter().map(|f| std::fs::read_to_string(f).unwrap_or_default()).collect()
    } else {
        std::fs::read_to_string(path).unwrap_or_default()
    }
}

fn fmt_cell(c: &Cell) -> String {
    c.clone().unwrap_or_else(|| "NULL".into())
}

fn persist_side(run: &mut Run, rng: &mut Rng) {
    let rt = tokio::runtime::Builder::new_current_thread().enable_all().build().unwrap();
    let n = run.budget(120, 3000);
    for i in 0..n {
        let width = 1 + rng.below(3) as usize;
        let nrows = rng.below(5) as usize;
        let rows: Vec<Vec<Cell>> = (0..nrows).map(|_| (0..width).map(|_| gen_cell(rng)).collect()).collect();
        let names: Vec<String> = (0..width).map(|c| format!("c{c}")).collect();
        let schema = Arc::new(Schema::new(names.iter().map(|n| Field::new(n, DataType::Utf8, true)).collect::<Vec<_>>()));
        let dir = tempfile::tempdir().unwrap();
        let res_path = dir.path().join("res.csv");
        let bench_path = dir.path().join("q.benchmark");
        std::fs::write(&bench_path, format!("run\nSELECT * FROM t\n\nresult {}\n", res_path.display())).unwrap();
        let sig_rows = cells_sexp(&rows);

        let ctx = ctx_with(&schema, batches_of(&schema, &rows, rng));
        let persisted: Result<(), String> = rt.block_on(async {
            let mut bm = SqlBenchmark::new(&ctx, &bench_path, dir.path()).await.map_err(|e| e.to_string())?;
            bm.persist(&ctx).await.map_err(|e| e.to_string())?;
            // verify right away: the persisted results must be accepted
            bm.verify(&ctx).await.map_err(|e| format!("verify: {e}"))
        });
        run.count(&format!("persist:rows{nrows}"));
        run.oracle(persisted.is_ok(), &format!("accepts-persisted #{i} rows={sig_rows}"), &format!("persist then verify of {rows:?} gave {persisted:?}"));
        if let Err(e) = &persisted {
            if !e.starts_with("verify:") {
                continue;
            }
        }
        // the persisted text vs the model
        let text = read_all(&res_path);
        let hdr = format!("({})", names.iter().map(|n| cps(n)).collect::<Vec<_>>().join(" "));
        let special = rows.iter().flatten().any(|c| match c {
            None => true,
            Some(s) => s.is_empty() || s == "NULL" || s.contains('|') || s.contains('"') || s.contains('\n') || s.contains('\r'),
        });
        run.case("persist", &format!("({hdr} {sig_rows})"), &cps(&text), special);
        // the table read back with read_query_from_file's reader options, formatted by the hook
        let expected: Result<Vec<Vec<String>>, String> = rt.block_on(async {
            let df = ctx
                .read_csv(res_path.to_string_lossy().to_string(), CsvReadOptions::new().has_header(true).delimiter(b'|').null_regex(Some("NULL".to_string())).schema_infer_max_records(0))
                .await
                .map_err(|e| e.to_string())?;
            let bs = df.collect().await.map_err(|e| e.to_string())?;
            format_record_batches(&bs).map_err(|e| e.to_string())
        });
        match &expected {
            Ok(t) => run.case("expected", &format!("({hdr} {sig_rows})"), &table_sexp(t), special),
            Err(e) => run.oracle(false, &format!("read-persisted #{i} rows={sig_rows}"), e),
        }
        let Ok(expected) = expected else { continue };
        if nrows == 0 {
            continue;
        }
        // mutations of the query result: verify against the same persisted file
        for m in 0..4 {
            let mut mrows = rows.clone();
            let mut mschema = schema.clone();
            let kind;
            let want_ok;
            match if m < 2 { 0 } else { rng.below(3) } {
                0 => {
                    let r = rng.below(nrows as u64) as usize;
                    let c = rng.below(width as u64) as usize;
                    let newv = gen_cell(rng);
                    kind = format!("cell r{r} c{c} {} -> {}", cell_sexp(&mrows[r][c]), cell_sexp(&newv));
                    mrows[r][c] = newv.clone();
                    want_ok = cell_equiv(&expected[r][c], &fmt_cell(&newv));
                }
                1 => {
                    if rng.chance(1, 2) {
                        mrows.pop();
                        kind = "drop-row".to_string();
                    } else {
                        mrows.push((0..width).map(|_| Some("a".to_string())).collect());
                        kind = "add-row".to_string();
                    }
                    want_ok = false;
                }
                _ => {
                    // one more column in the query result
                    let mut fields: Vec<Field> = schema.fields().iter().map(|f| f.as_ref().clone()).collect();
                    fields.push(Field::new("extra", DataType::Utf8, true));
                    mschema = Arc::new(Schema::new(fields));
                    for r in mrows.iter_mut() {
                        r.push(Some("x".into()));
                    }
                    kind = "add-column".to_string();
                    want_ok = false;
                }
            }
            if mrows.is_empty() {
                // zero rows vs persisted rows: row-count mismatch
            }
            let ctx2 = ctx_with(&mschema, if mrows.is_empty() { vec![RecordBatch::new_empty(mschema.clone())] } else { batches_of(&mschema, &mrows, rng) });
            let got: Result<(), String> = rt.block_on(async {
                let mut bm = SqlBenchmark::new(&ctx2, &bench_path, dir.path()).await.map_err(|e| format!("setup: {e}"))?;
                bm.run(&ctx2, true).await.map_err(|e| format!("setup: {e}"))?;
                bm.verify(&ctx2).await.map_err(|e| e.to_string())
            });
            if let Err(e) = &got {
                if e.starts_with("setup:") {
                    run.oracle(false, &format!("mutation-setup #{i}"), e);
                    continue;
                }
            }
            run.count(&format!("mutation:{}:{}", kind.split(' ').next().unwrap(), if got.is_ok() { "accepted" } else { "rejected" }));
            run.oracle(
                got.is_ok() == want_ok,
                &format!("verify-after-mutation #{i} rows={sig_rows} mutation={kind}"),
                &format!("persisted {rows:?}; query result changed by {kind}; verify gave {got:?}, documented rule says accept={want_ok}"),
            );
        }
    }
}

// ------------------------------------------------------------------ (c) placeholders

fn pairs_sexp(m: &[(String, String)]) -> String {
    format!("({})", m.iter().map(|(k, v)| format!("({} {})", cps(k), cps(v))).collect::<Vec<_>>().join(" "))
}

fn repl_side(run: &mut Run, rng: &mut Rng) {
    let frags = [
        "${A}", "${a}", "${A:-d}", "${b:-dflt}", "${B}", "${C:-x y}", "${A|yes|no}", "${B:-true|T|F}", "${C:-false|T|F}", "${C|T|F}", "${D:-TRUE|on|off}", "${A:-${B}}", "${A|${B}|${C:-z}}", "${", "}", "$", "|",
        ":-", "{", "x", " ", "${_k1}", "${A:-}", "${A||}", "${A|t|}", "${ A}", "${A:-a|b}", "${A:-a}|b}", "\n", "${B|t|f|g}", "$${A}", "${A}}",
    ];
    let vals = ["v", "true", "TRUE", "false", "", "a}b", "${B}", "x|y", "1"];
    let n = run.budget(4000, 100_000);
    for i in 0..n {
        let mut map: Vec<(String, String)> = vec![];
        let mut env: Vec<(String, String)> = vec![];
        for k in ["a", "b", "c", "d", "_k1"] {
            if rng.chance(1, 3) {
                map.push((k.to_string(), rng.pick(&vals).to_string()));
            }
            if rng.chance(1, 3) {
                env.push((k.to_uppercase(), rng.pick(&vals).to_string()));
            }
        }
        // a key that is not lower case in the map is never found (insert_replacement lower-cases)
        if rng.chance(1, 10) {
            map.push(("A".to_string(), "UPPER".to_string()));
        }
        let k = 1 + rng.below(5);
        let mut input = String::new();
        for _ in 0..k {
            input.push_str(*rng.pick(&frags[..]));
        }
        let hm: HashMap<String, String> = map.iter().rev().cloned().collect(); // first entry wins, as in the model's assoc list
        let envc = env.clone();
        let res = process_replacements_with_env(&input, &hm, |key| envc.iter().find(|(k, _)| k == key).map(|(_, v)| v.clone()));
        let ans = match &res {
            Ok(s) => format!("ok {}", cps(s)),
            Err(_) => "err".into(),
        };
        run.count(if res.is_ok() { "repl:ok" } else { "repl:err" });
        run.case("repl", &format!("({} {} {})", pairs_sexp(&map), pairs_sexp(&env), cps(&input)), &ans, input.contains("${"));
        let _ = i;
    }
    // oracle: precedence on single placeholders
    for key in ["a", "B", "_k1"] {
        for in_map in [false, true] {
            for in_env in [false, true] {
                for has_default in [false, true] {
                    let mut hm = HashMap::new();
                    if in_map {
                        hm.insert(key.to_lowercase(), "MAP".to_string());
                    }
                    let up = key.to_uppercase();
                    let input = if has_default { format!("<${{{key}:-DEF}}>") } else { format!("<${{{key}}}>") };
                    let res = process_replacements_with_env(&input, &hm, |k| if in_env && k == up { Some("ENV".to_string()) } else { None });
                    let want = if in_map {
                        Some("<MAP>")
                    } else if in_env {
                        Some("<ENV>")
                    } else if has_default {
                        Some("<DEF>")
                    } else {
                        None
                    };
                    run.oracle(res.as_ref().ok().map(|s| s.as_str()) == want, &format!("replacement-precedence key={key} map={in_map} env={in_env} default={has_default}"), &format!("{input:?} gave {res:?}, expected {want:?}"));
                    // boolean branch
                    let input = if has_default { format!("${{{key}:-true|T|F}}") } else { format!("${{{key}|T|F}}") };
                    let mut hm2 = HashMap::new();
                    if in_map {
                        hm2.insert(key.to_lowercase(), "false".to_string());
                    }
                    let res = process_replacements_with_env(&input, &hm2, |k| if in_env && k == up { Some("TRUE".to_string()) } else { None });
                    let want = if in_map {
                        Some("F")
                    } else if in_env {
                        Some("T")
                    } else if has_default {
                        Some("T")
                    } else {
                        None
                    };
                    run.oracle(res.as_ref().ok().map(|s| s.as_str()) == want, &format!("branch-precedence key={key} map={in_map} env={in_env} default={has_default}"), &format!("{input:?} gave {res:?}, expected {want:?}"));
                }
            }
        }
    }
}

pub fn run(run: &mut Run, args: &Args) {
    let mut rng = Rng::new(args.seed);
    compare_side(run, &mut rng);
    persist_side(run, &mut rng);
    repl_side(run, &mut rng);
}
