//! C47 — mixed-type comparisons are order-independent and exact for integers / decimals.
//!
//! * `tbl`    : T2's generated tables (`numerical_coercion` on every numeric pair through the public
//!              `binary_numeric_coercion`; `coerce_numeric_type_to_decimal128` through the public
//!              `decimal_coercion(Decimal128(1,0), t)`; `Operator::swap`, `Operator::negate` on all
//!              variants) vs the compiled functions;
//! * `coerce` : real `comparison_coercion(l, r)` on all ordered pairs of integer / Decimal128 types;
//! * `cmp`    : `x op y` evaluated by the real engine through SQL over typed MemTables (analyzer
//!              TypeCoercion → optimizer incl. unwrap_cast → physical BinaryExpr / CastExpr), in a
//!              projection, a filter, an IN list and an equi-join; with column operands and with a
//!              literal right operand.
//! Oracles on the implementation alone: the exact mathematical answer (i256 arithmetic) whenever the
//! engine answers; `x op y` = `y swap(op) x` (answer or error class) for every pair.
use std::sync::Arc;

use arrow::array::{
    Array, ArrayRef, BooleanArray, Date32Array, Decimal128Array, Float32Array, Float64Array, Int16Array, Int32Array, Int64Array,
    Int8Array, RecordBatch, StringArray, UInt16Array, UInt32Array, UInt64Array, UInt8Array,
};
use arrow::datatypes::{i256, DataType, Field, Schema};
use datafusion::prelude::*;
use datafusion_expr::Operator;
use datafusion_expr_common::type_coercion::binary::{binary_numeric_coercion, comparison_coercion, decimal_coercion};
use hutil::{Args, Rng, Run};

const LOSSY: &str = "decimal-truncated-to-integer-by-coercion ";
const OPS: [(Operator, &str, &str); 6] = [
    (Operator::Eq, "Eq", "="),
    (Operator::NotEq, "NotEq", "<>"),
    (Operator::Lt, "Lt", "<"),
    (Operator::LtEq, "LtEq", "<="),
    (Operator::Gt, "Gt", ">"),
    (Operator::GtEq, "GtEq", ">="),
];

/// exact value: unscaled / 10^scale   (scale may be negative)
#[derive(Clone, Copy, Debug, PartialEq)]
struct V {
    u: i256,
    s: i32,
}

fn type_sexp(t: &DataType) -> String {
    match t {
        DataType::Decimal32(p, s) => format!("(Decimal32 {p} {s})"),
        DataType::Decimal64(p, s) => format!("(Decimal64 {p} {s})"),
        DataType::Decimal128(p, s) => format!("(Decimal128 {p} {s})"),
        DataType::Decimal256(p, s) => format!("(Decimal256 {p} {s})"),
        t => format!("{t:?}"),
    }
}

fn int_types() -> Vec<DataType> {
    vec![
        DataType::Int8,
        DataType::Int16,
        DataType::Int32,
        DataType::Int64,
        DataType::UInt8,
        DataType::UInt16,
        DataType::UInt32,
        DataType::UInt64,
    ]
}
/// decimal column types driven through SQL: all four widths, max precision, scale 0, scale = precision,
/// a negative scale, mid values
fn dec_types(thorough: bool) -> Vec<DataType> {
    use DataType::*;
    let mut v = vec![
        Decimal32(5, 2), Decimal32(9, 0), Decimal32(9, 9),
        Decimal64(18, 0), Decimal64(10, 4), Decimal64(18, 18),
        Decimal128(5, 0), Decimal128(10, 2), Decimal128(20, 0), Decimal128(38, 0), Decimal128(38, 37), Decimal128(18, 6), Decimal128(5, -2),
        Decimal256(76, 0), Decimal256(40, 10), Decimal256(76, 76), Decimal256(50, 25),
    ];
    if thorough {
        v.extend([
            Decimal32(1, 0), Decimal32(7, -2), Decimal64(3, 3), Decimal64(12, -3),
            Decimal128(38, 10), Decimal128(3, 3), Decimal128(1, 0), Decimal128(9, 9), Decimal128(19, 1), Decimal128(38, 38), Decimal128(30, 15), Decimal128(21, 20),
            Decimal256(39, 0), Decimal256(76, 38), Decimal256(20, -5), Decimal256(10, 2),
        ]);
    }
    v
}
/// every numeric type for the pure table oracle (coercion symmetry)
fn all_numeric_types() -> Vec<DataType> {
    use DataType::*;
    let mut v = int_types();
    v.extend([Float16, Float32, Float64]);
    for (w, maxp) in [(32u16, 9u8), (64, 18), (128, 38), (256, 76)] {
        let mk = |p: u8, s: i8| match w {
            32 => Decimal32(p, s),
            64 => Decimal64(p, s),
            128 => Decimal128(p, s),
            _ => Decimal256(p, s),
        };
        let half = maxp / 2;
        for (p, s) in [
            (maxp, 0i8), (maxp, maxp as i8), (maxp, -(maxp as i8)), (maxp, half as i8), (maxp, -3), (1, 0), (1, 1), (1, -1), (half, 2), (half, half as i8), (3, -2), (5, 2), (maxp - 1, 1),
        ] {
            v.push(mk(p, s));
        }
    }
    v
}

fn dec_ps(t: &DataType) -> Option<(u8, i8)> {
    match t {
        DataType::Decimal32(p, s) | DataType::Decimal64(p, s) | DataType::Decimal128(p, s) | DataType::Decimal256(p, s) => Some((*p, *s)),
        _ => None,
    }
}
fn int_bounds(t: &DataType) -> (i128, i128) {
    match t {
        DataType::Int8 => (i8::MIN as i128, i8::MAX as i128),
        DataType::Int16 => (i16::MIN as i128, i16::MAX as i128),
        DataType::Int32 => (i32::MIN as i128, i32::MAX as i128),
        DataType::Int64 => (i64::MIN as i128, i64::MAX as i128),
        DataType::UInt8 => (0, u8::MAX as i128),
        DataType::UInt16 => (0, u16::MAX as i128),
        DataType::UInt32 => (0, u32::MAX as i128),
        DataType::UInt64 => (0, u64::MAX as i128),
        _ => unreachable!(),
    }
}
fn p10(n: u32) -> i256 {
    i256::from_string(&format!("1{}", "0".repeat(n as usize))).unwrap()
}
fn big(v: i128) -> i256 {
    i256::from_i128(v)
}

/// boundary values of a type (exact)
fn values(t: &DataType, rng: &mut Rng, extra: usize) -> Vec<V> {
    let mut out: Vec<V> = vec![];
    if let Some((p, s)) = dec_ps(t) {
        let max = p10(p as u32) - big(1);
        let mut us = vec![-max, big(-1), big(0), big(1), max, max - big(1)];
        if s >= 0 && (s as u8) < p {
            let one = p10(s as u32);
            us.extend([one, -one]);
            if one + big(1) <= max {
                us.push(one + big(1)); // 1.00…01
            }
            if s >= 1 {
                // values with a fractional part: 1.5, 0.5, -2.25 where representable
                let half = p10(s as u32 - 1) * big(5);
                for u in [one + half, half, -(one + one + half / big(2))] {
                    if u <= max && u >= -max {
                        us.push(u);
                    }
                }
            }
            for k in [127i128, 128, 255, 256, 32767, 65536, 1 << 31, (1 << 32) - 1, 1 << 53, (1 << 53) + 1, i64::MAX as i128, u64::MAX as i128] {
                if let Some(u) = big(k).checked_mul(one) {
                    if u <= max && rng.chance(1, 3) {
                        us.push(u);
                    }
                }
            }
        }
        for _ in 0..extra {
            let len = 1 + rng.below(p as u64) as usize;
            let digits: String = (0..len).map(|_| char::from(b'0' + rng.below(10) as u8)).collect();
            let r = i256::from_string(&digits).unwrap();
            us.push(if rng.chance(1, 2) { r } else { -r });
        }
        us.sort();
        us.dedup();
        out.extend(us.into_iter().map(|u| V { u, s: s as i32 }));
    } else {
        let (lo, hi) = int_bounds(t);
        let mut us = vec![lo, lo + 1, hi - 1, hi, 0, 1];
        if lo < 0 {
            us.push(-1);
        }
        for k in [127i128, 128, 255, 256, 32767, 32768, 65535, 65536, (1 << 31) - 1, 1 << 31, (1 << 32) - 1, 1 << 32, (1 << 53) - 1, 1 << 53, (1 << 53) + 1, i64::MAX as i128, 1 << 63] {
            for v in [k, -k, -k - 1] {
                if v >= lo && v <= hi && rng.chance(1, 4) {
                    us.push(v);
                }
            }
        }
        for _ in 0..extra {
            let span = (hi - lo + 1) as u128;
            let r = (((rng.next() as u128) << 64 | rng.next() as u128) % span) as i128 + lo;
            us.push(r);
        }
        us.sort();
        us.dedup();
        out.extend(us.into_iter().map(|u| V { u: big(u), s: 0 }));
    }
    out
}

fn array_of(t: &DataType, vs: &[V]) -> ArrayRef {
    use arrow::array::{Decimal256Array, Decimal32Array, Decimal64Array};
    macro_rules! ints {
        ($arr:ident, $ty:ty) => {
            Arc::new($arr::from(vs.iter().map(|v| v.u.to_i128().unwrap() as $ty).collect::<Vec<$ty>>())) as ArrayRef
        };
    }
    match t {
        DataType::Int8 => ints!(Int8Array, i8),
        DataType::Int16 => ints!(Int16Array, i16),
        DataType::Int32 => ints!(Int32Array, i32),
        DataType::Int64 => ints!(Int64Array, i64),
        DataType::UInt8 => ints!(UInt8Array, u8),
        DataType::UInt16 => ints!(UInt16Array, u16),
        DataType::UInt32 => ints!(UInt32Array, u32),
        DataType::UInt64 => ints!(UInt64Array, u64),
        DataType::Decimal32(p, s) => Arc::new(Decimal32Array::from(vs.iter().map(|v| v.u.to_i128().unwrap() as i32).collect::<Vec<i32>>()).with_precision_and_scale(*p, *s).unwrap()),
        DataType::Decimal64(p, s) => Arc::new(Decimal64Array::from(vs.iter().map(|v| v.u.to_i128().unwrap() as i64).collect::<Vec<i64>>()).with_precision_and_scale(*p, *s).unwrap()),
        DataType::Decimal128(p, s) => Arc::new(Decimal128Array::from(vs.iter().map(|v| v.u.to_i128().unwrap()).collect::<Vec<i128>>()).with_precision_and_scale(*p, *s).unwrap()),
        DataType::Decimal256(p, s) => Arc::new(Decimal256Array::from(vs.iter().map(|v| v.u).collect::<Vec<i256>>()).with_precision_and_scale(*p, *s).unwrap()),
        _ => unreachable!(),
    }
}

/// Pairs for which the UNCHANGED coercion compares in the integer type, truncating the decimal (finding, see
/// notes/C47.md): the decimal variant is too narrow to hold the integer type (`coerce_numeric_type_to_decimal32/64`
/// answers None), `decimal_coercion` gives up and `numerical_coercion`'s `(Int32, _)`-style wildcard arms pick the
/// integer type.  Exactly these pairs, by type rule — any other lossy pair keeps the generic signature.
fn narrow_pair(a: &DataType, b: &DataType) -> bool {
    use DataType::*;
    let one = |d: &DataType, i: &DataType| match d {
        Decimal32(..) => matches!(i, Int32 | UInt32 | Int64 | UInt64),
        Decimal64(..) => matches!(i, Int64 | UInt64),
        _ => false,
    };
    one(a, b) || one(b, a)
}
/// the value truncated toward zero to an integer (what CAST(decimal AS integer) yields)
fn trunc(v: V) -> V {
    if v.s <= 0 {
        return v;
    }
    V { u: v.u / p10(v.s as u32), s: 0 }
}

/// exact decimal text pieces of |value|: (integer digits without leading zeros, fraction digits without trailing zeros)
fn digits_of(v: V) -> (bool, String, String) {
    let neg = v.u < big(0);
    let mag = if neg { v.u.wrapping_neg() } else { v.u };
    let mut d = mag.to_string();
    let (mut ip, mut fp) = if v.s <= 0 {
        d.push_str(&"0".repeat((-v.s) as usize));
        (d, String::new())
    } else {
        let s = v.s as usize;
        let padded = format!("{:0>width$}", d, width = s + 1);
        (padded[..padded.len() - s].to_string(), padded[padded.len() - s..].to_string())
    };
    ip = ip.trim_start_matches('0').to_string();
    fp = fp.trim_end_matches('0').to_string();
    let zero = ip.is_empty() && fp.is_empty();
    (neg && !zero, ip, fp)
}
/// exact comparison of two decimal values (no arithmetic that could overflow)
fn cmp_exact(x: V, y: V) -> std::cmp::Ordering {
    use std::cmp::Ordering::*;
    let (nx, ix, fx) = digits_of(x);
    let (ny, iy, fy) = digits_of(y);
    let mag = |ia: &str, fa: &str, ib: &str, fb: &str| ia.len().cmp(&ib.len()).then_with(|| ia.cmp(ib)).then_with(|| {
        let w = fa.len().max(fb.len());
        format!("{:0<w$}", fa, w = w).cmp(&format!("{:0<w$}", fb, w = w))
    });
    match (nx, ny) {
        (false, true) => Greater,
        (true, false) => Less,
        (false, false) => mag(&ix, &fx, &iy, &fy),
        (true, true) => mag(&iy, &fy, &ix, &fx),
    }
}
/// the exact mathematical answer
fn math(op: Operator, x: V, y: V) -> bool {
    use std::cmp::Ordering::*;
    let c = cmp_exact(x, y);
    match op {
        Operator::Eq => c == Equal,
        Operator::NotEq => c != Equal,
        Operator::Lt => c == Less,
        Operator::LtEq => c != Greater,
        Operator::Gt => c == Greater,
        Operator::GtEq => c != Less,
        _ => unreachable!(),
    }
}

fn literal_sql(t: &DataType, v: V) -> String {
    // an exact literal of type t: decimal text cast to the type
    let (neg, ip, fp) = digits_of(v);
    let ip = if ip.is_empty() { "0".to_string() } else { ip };
    let text = if fp.is_empty() { ip } else { format!("{ip}.{fp}") };
    format!("arrow_cast('{}{}', '{}')", if neg { "-" } else { "" }, text, t)
}

struct Ctx {
    rt: tokio::runtime::Runtime,
}
impl Ctx {
    /// run a query returning one boolean column; None = any error
    fn bools(&self, ctx: &SessionContext, sql: &str) -> Option<Vec<Option<bool>>> {
        // a panic inside the engine (e.g. the i8 overflow of decimal coercion, see notes) counts as "no answer"
        std::panic::catch_unwind(std::panic::AssertUnwindSafe(|| self.bools_inner(ctx, sql))).unwrap_or(None)
    }
    fn bools_inner(&self, ctx: &SessionContext, sql: &str) -> Option<Vec<Option<bool>>> {
        self.rt.block_on(async {
            let df = ctx.sql(sql).await.ok()?;
            let batches = df.collect().await.ok()?;
            let mut out = vec![];
            for b in batches {
                let col = b.column(0).as_any().downcast_ref::<BooleanArray>()?.clone();
                for i in 0..col.len() {
                    out.push(if col.is_null(i) { None } else { Some(col.value(i)) });
                }
            }
            Some(out)
        })
    }
    fn ids(&self, ctx: &SessionContext, sql: &str) -> Option<Vec<i64>> {
        std::panic::catch_unwind(std::panic::AssertUnwindSafe(|| self.ids_inner(ctx, sql))).unwrap_or(None)
    }
    fn ids_inner(&self, ctx: &SessionContext, sql: &str) -> Option<Vec<i64>> {
        self.rt.block_on(async {
            let df = ctx.sql(sql).await.ok()?;
            let batches = df.collect().await.ok()?;
            let mut out = vec![];
            for b in batches {
                let col = b.column(0).as_any().downcast_ref::<Int64Array>()?.clone();
                for i in 0..col.len() {
                    out.push(col.value(i));
                }
            }
            out.sort();
            Some(out)
        })
    }
}

fn ans(b: Option<Option<bool>>) -> String {
    match b {
        None => "err".into(),
        Some(None) => "null".into(),
        Some(Some(true)) => "t".into(),
        Some(Some(false)) => "f".into(),
    }
}

fn tables(run: &mut Run) {
    use DataType::*;
    let numeric = [Int8, Int16, Int32, Int64, UInt8, UInt16, UInt32, UInt64, Float16, Float32, Float64];
    let show = |t: Option<DataType>| match t {
        None => "none".to_string(),
        Some(t) => format!("(some {})", type_sexp(&t)),
    };
    for a in &numeric {
        for b in &numeric {
            run.case("tbl", &format!("(numerical_coercion {a:?} {b:?})"), &show(binary_numeric_coercion(a, b)), a != b);
        }
    }
    for t in numeric.iter().chain([Null, Boolean, Utf8, Date32].iter()) {
        run.case(
            "tbl",
            &format!("(coerce_numeric_type_to_decimal128 {t:?})"),
            &show(decimal_coercion(&Decimal128(1, 0), t)),
            true,
        );
    }
    let all_ops = [
        Operator::Eq, Operator::NotEq, Operator::Lt, Operator::LtEq, Operator::Gt, Operator::GtEq, Operator::Plus, Operator::Minus,
        Operator::Multiply, Operator::Divide, Operator::Modulo, Operator::And, Operator::Or, Operator::IsDistinctFrom,
        Operator::IsNotDistinctFrom, Operator::RegexMatch, Operator::RegexIMatch, Operator::RegexNotMatch, Operator::RegexNotIMatch,
        Operator::LikeMatch, Operator::ILikeMatch, Operator::NotLikeMatch, Operator::NotILikeMatch, Operator::BitwiseAnd,
        Operator::BitwiseOr, Operator::BitwiseXor, Operator::BitwiseShiftRight, Operator::BitwiseShiftLeft, Operator::StringConcat,
        Operator::AtArrow, Operator::ArrowAt, Operator::Arrow, Operator::LongArrow, Operator::HashArrow, Operator::HashLongArrow,
        Operator::AtAt, Operator::IntegerDivide, Operator::HashMinus, Operator::AtQuestion, Operator::Question, Operator::QuestionAnd,
        Operator::QuestionPipe, Operator::Colon,
    ];
    let showo = |o: Option<Operator>| match o {
        None => "none".to_string(),
        Some(o) => format!("(some {o:?})"),
    };
    for o in all_ops {
        run.case("tbl", &format!("(Operator::swap {o:?})"), &showo(o.swap()), true);
        run.case("tbl", &format!("(Operator::negate {o:?})"), &showo(o.negate()), true);
    }
    run.add("operator variants enumerated", all_ops.len() as u64);
}

pub fn run(run: &mut Run, args: &Args) {
    let mut rng = Rng::new(args.seed);
    hutil::quiet_panics();
    tables(run);
    let c = Ctx { rt: tokio::runtime::Builder::new_current_thread().enable_all().build().unwrap() };
    let thorough = run.thorough();
    let mut types = int_types();
    types.extend(dec_types(thorough));
    let extra = run.budget(1, 6) as usize;

    // ---- pure table oracle: coercion is symmetric on ALL ordered pairs of numeric types (8 integers, 3 floats,
    //      Decimal32/64/128/256 at max precision, scale 0, scale = precision, negative scales, …); no model
    {
        let all = all_numeric_types();
        run.add("numeric types in the symmetry table oracle", all.len() as u64);
        for a in &all {
            for b in &all {
                let (a2, b2) = (a.clone(), b.clone());
                let r = hutil::catch(move || (comparison_coercion(&a2, &b2), comparison_coercion(&b2, &a2), binary_numeric_coercion(&a2, &b2), binary_numeric_coercion(&b2, &a2)));
                match r {
                    Ok((ab, ba, nab, nba)) => {
                        run.oracle(ab == ba, &format!("coercion-asymmetric comparison_coercion {} {}", type_sexp(a), type_sexp(b)), &format!("{ab:?} vs {ba:?}"));
                        run.oracle(nab == nba, &format!("coercion-asymmetric binary_numeric_coercion {} {}", type_sexp(a), type_sexp(b)), &format!("{nab:?} vs {nba:?}"));
                        run.count(if ab.is_some() { "symmetry table: comparable pair" } else { "symmetry table: not comparable" });
                    }
                    Err(p) => run.oracle(false, &format!("coercion-panic {} {}", type_sexp(a), type_sexp(b)), &p),
                }
            }
        }
    }

    // ---- coercion of every ordered pair
    for a in &types {
        for b in &types {
            let (a2, b2) = (a.clone(), b.clone());
            let Ok((got, back)) = hutil::catch(move || (comparison_coercion(&a2, &b2), comparison_coercion(&b2, &a2))) else {
                // reported by the table oracle above (coercion-panic …)
                run.count("coerce: comparison_coercion panics for this pair");
                continue;
            };
            let s = match &got {
                None => "none".to_string(),
                Some(t) => type_sexp(t),
            };
            run.case("coerce", &format!("({} {})", type_sexp(a), type_sexp(b)), &s, a != b);
            run.oracle(got == back, &format!("coercion-asymmetric comparison_coercion {} {}", type_sexp(a), type_sexp(b)), &format!("{got:?} vs {back:?}"));
        }
    }

    // ---- comparisons through SQL
    let cfg = SessionConfig::new().with_target_partitions(1);
    for (ia, a) in types.iter().enumerate() {
        for (ib, b) in types.iter().enumerate() {
            let xs = values(a, &mut rng, extra);
            let ys = values(b, &mut rng, extra);
            // cross product table
            let mut xcol = vec![];
            let mut ycol = vec![];
            for x in &xs {
                for y in &ys {
                    xcol.push(*x);
                    ycol.push(*y);
                }
            }
            let n = xcol.len();
            let schema = Arc::new(Schema::new(vec![
                Field::new("id", DataType::Int64, false),
                Field::new("a", a.clone(), false),
                Field::new("b", b.clone(), false),
            ]));
            let ids: ArrayRef = Arc::new(Int64Array::from((0..n as i64).collect::<Vec<_>>()));
            let batch = RecordBatch::try_new(schema, vec![ids, array_of(a, &xcol), array_of(b, &ycol)]).unwrap();
            let ctx = SessionContext::new_with_config(cfg.clone());
            ctx.register_batch("t", batch).unwrap();
            let pair = format!("{} {}", type_sexp(a), type_sexp(b));
            let lossy = narrow_pair(a, b);
            for (op, opname, opsql) in OPS {
                let swapped = op.swap().unwrap();
                let swsql = OPS.iter().find(|o| o.0 == swapped).unwrap().2;
                // projection, column operands
                let whole = c.bools(&ctx, &format!("SELECT a {opsql} b FROM t ORDER BY id"));
                let mirror = c.bools(&ctx, &format!("SELECT b {swsql} a FROM t ORDER BY id"));
                // when the whole-table query errors (a cast overflows on SOME row) fall back to single rows
                // (`WHERE id = i` is evaluated before the projection), on a sample of the rows
                let rows: Vec<usize> = if whole.as_ref().map_or(false, |v| v.len() == n) && mirror.as_ref().map_or(false, |v| v.len() == n) {
                    (0..n).collect()
                } else {
                    let k = if thorough { 40 } else { 8 };
                    let mut r: Vec<usize> = (0..k).map(|_| rng.below(n as u64) as usize).collect();
                    r.sort();
                    r.dedup();
                    r
                };
                let single = |q: String| c.bools(&ctx, &q).and_then(|v| v.first().copied());
                let per_row: Vec<Option<Option<bool>>> = match &whole {
                    Some(v) if rows.len() == n => v.iter().map(|b| Some(*b)).collect(),
                    _ => rows.iter().map(|i| single(format!("SELECT a {opsql} b FROM t WHERE id = {i}"))).collect(),
                };
                let per_row_m: Vec<Option<Option<bool>>> = match &mirror {
                    Some(v) if rows.len() == n => v.iter().map(|b| Some(*b)).collect(),
                    _ => rows.iter().map(|i| single(format!("SELECT b {swsql} a FROM t WHERE id = {i}"))).collect(),
                };
                if rows.len() != n {
                    run.count("whole-table query failed (cast overflow on some row / rejected); sampled single-row fallback");
                }
                for (ri, &i) in rows.iter().enumerate() {
                    let (x, y) = (xcol[i], ycol[i]);
                    let got = per_row[ri];
                    run.case("cmp", &format!("({opname} {pair} {} {} {} {})", x.u, x.s, y.u, y.s), &ans(got), a != b);
                    let input = format!("op={opname} types=({pair}) x={}e-{} y={}e-{}", x.u, x.s, y.u, y.s);
                    if let Some(g) = got {
                        // known class only when the answer is exactly "compared after truncating the decimal side"
                        let pre = if lossy && g == Some(math(op, trunc(x), trunc(y))) { LOSSY } else { "" };
                        run.oracle(g == Some(math(op, x, y)), &format!("{pre}inexact-comparison projection {input}"), &format!("engine {}, exact {}", ans(got), math(op, x, y)));
                        run.count("engine answered");
                    } else {
                        run.count("engine error (cast overflow / not comparable)");
                    }
                    run.oracle(got == per_row_m[ri], &format!("mirror-mismatch projection {input}"), &format!("a {opsql} b = {}, b {swsql} a = {}", ans(got), ans(per_row_m[ri])));
                }
                // filter context: ids selected must be exactly the rows whose exact answer is true
                let sample_ctx = thorough || (ia + ib + op as usize) % 3 == 0;
                if sample_ctx && whole.is_some() {
                    let want: Vec<i64> = (0..n).filter(|i| math(op, xcol[*i], ycol[*i])).map(|i| i as i64).collect();
                    let got = c.ids(&ctx, &format!("SELECT id FROM t WHERE a {opsql} b"));
                    run.oracle(got.as_ref() == Some(&want), &format!("{}inexact-comparison filter op={opname} types=({pair})", if lossy { LOSSY } else { "" }), &format!("got {got:?} want {want:?}"));
                    let gotm = c.ids(&ctx, &format!("SELECT id FROM t WHERE b {swsql} a"));
                    run.oracle(gotm == got, &format!("mirror-mismatch filter op={opname} types=({pair})"), &format!("{got:?} vs {gotm:?}"));
                    run.count("filter context queries");
                }
            }
            // literal right operand (exercises unwrap_cast): a op CAST('y' AS B), both orders
            if thorough || (ia * 7 + ib) % 4 == 0 {
                for y in ys.iter().take(if thorough { ys.len() } else { 4 }) {
                    let (op, opname, opsql) = *rng.pick(&OPS);
                    let swapped = op.swap().unwrap();
                    let swsql = OPS.iter().find(|o| o.0 == swapped).unwrap().2;
                    let lit = literal_sql(b, *y);
                    // distinct a values only
                    let q = format!("SELECT a {opsql} {lit} FROM (SELECT DISTINCT a FROM t) ORDER BY a");
                    let qm = format!("SELECT {lit} {swsql} a FROM (SELECT DISTINCT a FROM t) ORDER BY a");
                    let got = c.bools(&ctx, &q);
                    let gotm = c.bools(&ctx, &qm);
                    let input = format!("op={opname} types=({pair}) literal y={}e-{}", y.u, y.s);
                    if let Some(g) = &got {
                        let mut sorted = xs.clone();
                        sorted.sort_by(|p, q| cmp_exact(*p, *q).then(p.u.cmp(&q.u)));
                        let want: Vec<Option<bool>> = sorted.iter().map(|x| Some(math(op, *x, *y))).collect();
                        run.oracle(*g == want, &format!("{}inexact-comparison literal {input}", if lossy { LOSSY } else { "" }), &format!("got {g:?} want {want:?} sql {q}"));
                        run.count("literal context: engine answered");
                    } else {
                        run.count("literal context: engine error");
                    }
                    run.oracle(got == gotm, &format!("mirror-mismatch literal {input}"), &format!("{got:?} vs {gotm:?}"));
                }
            }
            // IN list and equi-join agree with pairwise equality (whenever `=` is answerable)
            if thorough || (ia * 5 + ib) % 3 == 0 {
                let eq = c.bools(&ctx, "SELECT a = b FROM t ORDER BY id");
                let inl = c.bools(&ctx, "SELECT a IN (b) FROM t ORDER BY id");
                run.oracle(eq.is_none() || inl.is_none() || eq == inl, &format!("inlist-vs-eq types=({pair})"), &format!("= gives {eq:?}, IN gives {inl:?}"));
                let want: Option<Vec<i64>> = eq.as_ref().map(|_| (0..n).filter(|i| math(Operator::Eq, xcol[*i], ycol[*i])).map(|i| i as i64).collect());
                let join = c.ids(&ctx, "SELECT l.id FROM t l JOIN t r ON l.a = r.b AND l.id = r.id");
                run.oracle(want.is_none() || join.is_none() || join == want, &format!("{}equijoin-vs-eq types=({pair})", if lossy { LOSSY } else { "" }), &format!("join ids {join:?}, exact {want:?}"));
                // a real hash join on the mixed-type key: distinct x values against distinct y values
                let jcount = c.ids(&ctx, "SELECT count(*) FROM (SELECT DISTINCT a FROM t) l JOIN (SELECT DISTINCT b FROM t) r ON l.a = r.b");
                if eq.is_some() {
                    let mut dx = xs.clone();
                    dx.dedup();
                    let want_n = dx.iter().map(|x| ys.iter().filter(|y| math(Operator::Eq, *x, **y)).count()).sum::<usize>() as i64;
                    run.oracle(jcount.is_none() || jcount == Some(vec![want_n]), &format!("{}equijoin-count types=({pair})", if lossy { LOSSY } else { "" }), &format!("join count {jcount:?}, exact {want_n}"));
                }
                run.count("IN-list / equi-join contexts");
            }
        }
    }

    // ---- order-independence for the other comparable families (no exact model): floats, strings, dates
    other_families(run, &c, &cfg);
}

fn other_families(run: &mut Run, c: &Ctx, cfg: &SessionConfig) {
    let cols: Vec<(&str, ArrayRef)> = vec![
        ("i64", Arc::new(Int64Array::from(vec![0, 1, -1, (1 << 53) + 1, i64::MAX, i64::MIN, 16777217])) as ArrayRef),
        ("u64", Arc::new(UInt64Array::from(vec![0, 1, 2, (1 << 53) + 1, u64::MAX, 1 << 63, 16777217]))),
        ("f32", Arc::new(Float32Array::from(vec![0.0, -0.0, 1.0, 16777216.0, f32::MAX, f32::NAN, -1.5]))),
        ("f64", Arc::new(Float64Array::from(vec![0.0, -0.0, 1.0, 9007199254740992.0, f64::MAX, f64::NAN, -1.5]))),
        ("s", Arc::new(StringArray::from(vec!["0", "1", "-1", "10", "9", "1.5", "2020-01-01"]))),
        ("d32", Arc::new(Date32Array::from(vec![0, 1, -1, 18262, 19000, 20000, 1]))),
        ("dec", Arc::new(Decimal128Array::from(vec![0i128, 100, -100, 150, 999999, -150, 1]).with_precision_and_scale(10, 2).unwrap())),
    ];
    let n = 7usize;
    for (na, ca) in &cols {
        for (nb, cb) in &cols {
            // cross product
            let mut ai = vec![];
            let mut bi = vec![];
            for i in 0..n {
                for j in 0..n {
                    ai.push(i as u32);
                    bi.push(j as u32);
                }
            }
            let ta = arrow::compute::take(ca, &UInt32Array::from(ai), None).unwrap();
            let tb = arrow::compute::take(cb, &UInt32Array::from(bi), None).unwrap();
            let schema = Arc::new(Schema::new(vec![
                Field::new("id", DataType::Int64, false),
                Field::new("a", ta.data_type().clone(), true),
                Field::new("b", tb.data_type().clone(), true),
            ]));
            let ids: ArrayRef = Arc::new(Int64Array::from((0..(n * n) as i64).collect::<Vec<_>>()));
            let batch = RecordBatch::try_new(schema, vec![ids, ta, tb]).unwrap();
            let ctx = SessionContext::new_with_config(cfg.clone());
            ctx.register_batch("t", batch).unwrap();
            for (op, opname, opsql) in OPS {
                let swapped = op.swap().unwrap();
                let swsql = OPS.iter().find(|o| o.0 == swapped).unwrap().2;
                let l = c.bools(&ctx, &format!("SELECT a {opsql} b FROM t ORDER BY id"));
                let r = c.bools(&ctx, &format!("SELECT b {swsql} a FROM t ORDER BY id"));
                run.oracle(l == r, &format!("mirror-mismatch family op={opname} types=({na} {nb})"), &format!("a {opsql} b: {l:?}  b {swsql} a: {r:?}"));
                run.count(if l.is_some() { "other families: comparable" } else { "other families: rejected/error" });
            }
        }
    }
}
