//! C52 — qualified names round-trip through their quoted text form.
//!
//! Runs the real `quote_identifier`, `TableReference::{to_quoted_string, Display, parse_str,
//! parse_str_normalized}`, `Column::{quoted_flat_name, flat_name, from_qualified_name,
//! from_qualified_name_ignore_case}` (datafusion-common built WITH feature "sql", i.e. the
//! sqlparser-backed `parse_identifiers`) and compares with the Lean model `Text.Ident` (equality).
//! Implementation-level oracles: parse(render(x)) == x for references and columns; quoting is
//! injective over everything generated in the run.
use std::collections::HashMap;

use datafusion_common::utils::quote_identifier;
use datafusion_common::{Column, TableReference};
use hutil::{Args, Rng, Run};

fn cps(s: &str) -> String {
    let v: Vec<String> = s.chars().map(|c| (c as u32).to_string()).collect();
    format!("({})", v.join(" "))
}

fn show_ref(r: &TableReference) -> String {
    match r {
        TableReference::Bare { table } => format!("bare {}", cps(table)),
        TableReference::Partial { schema, table } => format!("part {} {}", cps(schema), cps(table)),
        TableReference::Full { catalog, schema, table } => format!("full {} {} {}", cps(catalog), cps(schema), cps(table)),
    }
}

fn show_col(c: &Column) -> String {
    match &c.relation {
        None => format!("col {}", cps(&c.name)),
        Some(r) => format!("col {} of {}", cps(&c.name), show_ref(r)),
    }
}

fn mk_ref(parts: &[String]) -> TableReference {
    match parts.len() {
        1 => TableReference::bare(parts[0].as_str()),
        2 => TableReference::partial(parts[0].as_str(), parts[1].as_str()),
        _ => TableReference::full(parts[0].as_str(), parts[1].as_str(), parts[2].as_str()),
    }
}

fn parts_sexp(parts: &[String]) -> String {
    let v: Vec<String> = parts.iter().map(|p| cps(p)).collect();
    format!("({})", v.join(" "))
}

/// characters that steer `needs_quotes`, the escaping and the tokenizer
const SPECIAL: &[char] = &[
    'a', 'b', 'r', 'n', 'x', 'u', 'e', 'q', 'z', '_', '0', '9', 'A', 'B', 'R', 'Z', '.', '"', '\'', ' ', '\t', '\n', '\r', 'é', 'É', '漢', '😀', '$', '#', '@', '-', ';', '`', '\\', '(',
    '\u{a0}', 'ß', 'İ',
];
const WORDS: &[&str] = &["select", "table", "from", "SELECT", "t1", "_x", "b", "r", "a.b", "a\"b", "\"", "\"\"", ".", "..", " ", "x y", "Ab", "1a", "a1", "é", "naïve"];

fn gen_ident(rng: &mut Rng, allow_empty: bool) -> String {
    let k = rng.below(100);
    if k < 6 && allow_empty {
        return String::new();
    }
    if k < 30 {
        return rng.pick(WORDS).to_string();
    }
    if k < 55 {
        // a bare-safe identifier
        let l = 1 + rng.below(5) as usize;
        let mut s = String::new();
        s.push(*rng.pick(&['a', 'b', 'r', 'n', 'x', 'u', 'e', 'q', '_', 'z']));
        for _ in 1..l {
            s.push(*rng.pick(&['a', 'b', '_', '0', '9', 'z', 'r']));
        }
        return s;
    }
    let l = 1 + rng.below(6) as usize;
    (0..l).map(|_| *rng.pick(SPECIAL)).collect()
}

fn class_of(id: &str) -> &'static str {
    if id.is_empty() {
        "ident:empty"
    } else if id.contains('"') {
        "ident:has-dquote"
    } else if id.contains('.') {
        "ident:has-dot"
    } else if !id.is_ascii() {
        "ident:non-ascii"
    } else if id.chars().any(|c| c.is_ascii_uppercase()) {
        "ident:upper"
    } else if id.chars().any(|c| c.is_whitespace()) {
        "ident:blank"
    } else if quote_identifier(id) == id {
        "ident:bare"
    } else {
        "ident:other-quoted"
    }
}

struct Inj {
    seen: HashMap<String, String>,
}

fn check_ref(run: &mut Run, inj: &mut Inj, parts: &[String]) {
    let r = mk_ref(parts);
    let ps = parts_sexp(parts);
    for p in parts {
        run.count(class_of(p));
    }
    run.count(&format!("ref:parts{}", parts.len()));
    let q = r.to_quoted_string();
    let nontrivial = parts.iter().any(|p| quote_identifier(p) != p.as_str()) || parts.len() > 1;
    run.case("tq", &ps, &cps(&q), nontrivial);
    run.case("disp", &ps, &cps(&r.to_string()), false);
    let back = TableReference::parse_str(&q);
    run.case("rt", &ps, &show_ref(&back), nontrivial);
    let back_ic = TableReference::parse_str_normalized(&q, true);
    let has_empty = parts.len() > 1 && parts.iter().any(|p| p.is_empty());
    let kind = if has_empty { "empty-identifier" } else { "nonempty" };
    run.oracle(
        back == r,
        &format!("roundtrip-tableref {kind} parts={ps}"),
        &format!("TableReference {r:?}.to_quoted_string() = {q:?}; parse_str of that = {back:?}"),
    );
    run.oracle(
        back_ic == r,
        &format!("roundtrip-tableref-ignorecase {kind} parts={ps}"),
        &format!("TableReference {r:?}.to_quoted_string() = {q:?}; parse_str_normalized(.., true) = {back_ic:?}"),
    );
    // `From<&str>` / `From<String>` are parse_str
    let via_from: TableReference = q.as_str().into();
    run.oracle(via_from == back, &format!("from-str-eq-parse-str parts={ps}"), &format!("{via_from:?} vs {back:?}"));
    // injectivity of quoting over everything seen in this run
    let key = format!("{r:?}");
    match inj.seen.get(&q) {
        Some(prev) if *prev != key => {
            run.oracle(false, &format!("quote-injective text={}", cps(&q)), &format!("{prev} and {key} both render as {q:?}"));
        }
        Some(_) => run.oracle(true, "", ""),
        None => {
            inj.seen.insert(q.clone(), key);
            run.oracle(true, "", "");
        }
    }
}

fn check_col(run: &mut Run, rel: Option<&[String]>, name: &str) {
    let mut c = Column::new_unqualified(name);
    c.relation = rel.map(mk_ref);
    let arg = match rel {
        None => format!("(none {})", cps(name)),
        Some(p) => format!("({} {})", parts_sexp(p), cps(name)),
    };
    run.count(&format!("col:qualifier{}", rel.map(|p| p.len()).unwrap_or(0)));
    run.count(class_of(name));
    let q = c.quoted_flat_name();
    run.case("cq", &arg, &cps(&q), true);
    run.case("cf", &arg, &cps(&c.flat_name()), false);
    let back = Column::from_qualified_name(q.as_str());
    run.case("crt", &arg, &show_col(&back), true);
    let back_ic = Column::from_qualified_name_ignore_case(q.as_str());
    let n_parts = 1 + rel.map(|p| p.len()).unwrap_or(0);
    let has_empty = n_parts > 1 && (name.is_empty() || rel.map(|p| p.iter().any(|x| x.is_empty())).unwrap_or(false));
    let kind = if has_empty { "empty-identifier" } else { "nonempty" };
    run.oracle(
        back == c,
        &format!("roundtrip-column {kind} col={arg}"),
        &format!("Column {c:?}.quoted_flat_name() = {q:?}; from_qualified_name of that = {back:?}"),
    );
    run.oracle(
        back_ic == c,
        &format!("roundtrip-column-ignorecase {kind} col={arg}"),
        &format!("Column {c:?}.quoted_flat_name() = {q:?}; from_qualified_name_ignore_case = {back_ic:?}"),
    );
    // flat_name round-trips when nothing needs quoting
    let all_bare = !has_empty && quote_identifier(name) == name && rel.map(|p| p.iter().all(|x| quote_identifier(x) == x.as_str())).unwrap_or(true) && !name.is_empty();
    if all_bare {
        let f = c.flat_name();
        let b = Column::from_qualified_name(f.as_str());
        run.oracle(b == c, &format!("roundtrip-column-flatname-bare col={arg}"), &format!("flat_name {f:?} parsed to {b:?}"));
    }
}

fn parse_case(run: &mut Run, s: &str, nontrivial: bool) {
    let a = cps(s);
    run.case("parse", &a, &show_ref(&TableReference::parse_str(s)), nontrivial);
    run.case("parseic", &a, &show_ref(&TableReference::parse_str_normalized(s, true)), nontrivial);
    run.case("cparse", &a, &show_col(&Column::from_qualified_name(s)), nontrivial);
    run.case("cparseic", &a, &show_col(&Column::from_qualified_name_ignore_case(s)), nontrivial);
}

/// every string over `alpha` of length 0..=max_len
fn all_strings(alpha: &[char], max_len: usize) -> Vec<String> {
    let mut out = vec![String::new()];
    let mut layer = vec![String::new()];
    for _ in 0..max_len {
        let mut next = vec![];
        for s in &layer {
            for c in alpha {
                let mut t = s.clone();
                t.push(*c);
                next.push(t);
            }
        }
        out.extend(next.iter().cloned());
        layer = next;
    }
    out
}

pub fn run(run: &mut Run, args: &Args) {
    let mut rng = Rng::new(args.seed);
    let mut inj = Inj { seen: HashMap::new() };

    // ---- 1. single identifiers: quote_identifier
    let mut idents: Vec<String> = WORDS.iter().map(|s| s.to_string()).collect();
    idents.push(String::new());
    for c in SPECIAL {
        idents.push(c.to_string());
        idents.push(format!("a{c}"));
        idents.push(format!("{c}a"));
    }
    let n = run.budget(1500, 30_000);
    for _ in 0..n {
        idents.push(gen_ident(&mut rng, true));
    }
    for id in &idents {
        let q = quote_identifier(id);
        run.case("quote", &cps(id), &cps(&q), q != id.as_str());
    }

    // ---- 2. exhaustive small references: 6-letter alphabet, identifiers up to length L, 1..3 parts
    let alpha = ['a', 'B', '.', '"', ' ', '_'];
    let small = all_strings(&alpha, if run.thorough() { 3 } else { 2 });
    for a in &small {
        check_ref(run, &mut inj, &[a.clone()]);
    }
    let small2 = all_strings(&alpha, if run.thorough() { 2 } else { 1 });
    for a in &small2 {
        for b in &small2 {
            check_ref(run, &mut inj, &[a.clone(), b.clone()]);
            check_col(run, Some(&[a.clone()]), b);
        }
    }
    let small3 = all_strings(&alpha, 1);
    for a in &small3 {
        for b in &small3 {
            for c in &small3 {
                check_ref(run, &mut inj, &[a.clone(), b.clone(), c.clone()]);
                check_col(run, Some(&[a.clone(), b.clone()]), c);
            }
        }
    }

    // ---- 3. random references and columns over the wide alphabet
    let n = run.budget(2500, 60_000);
    for _ in 0..n {
        let k = 1 + rng.below(3) as usize;
        let parts: Vec<String> = (0..k).map(|_| gen_ident(&mut rng, true)).collect();
        check_ref(run, &mut inj, &parts);
    }
    let n = run.budget(1500, 40_000);
    for _ in 0..n {
        let k = rng.below(4) as usize;
        let name = gen_ident(&mut rng, true);
        if k == 0 {
            check_col(run, None, &name);
        } else {
            let parts: Vec<String> = (0..k).map(|_| gen_ident(&mut rng, true)).collect();
            check_col(run, Some(&parts), &name);
        }
    }

    // ---- 4. the parser on arbitrary text (not only rendered text): tokenizer model vs sqlparser
    let talpha = ['a', 'B', 'b', 'r', '_', '1', '.', '"', ' '];
    let tl = if run.thorough() { 5 } else { 4 };
    for s in all_strings(&talpha, tl) {
        let nt = s.contains('.') || s.contains('"');
        parse_case(run, &s, nt);
    }
    let walpha = ['a', 'b', 'R', 'x', 'Z', '_', '0', '7', '.', '.', '"', '"', ' ', '\t', '\n', '\r', 'é', '$', '#', '@', '\'', '-', 'e', 'n', 'u'];
    let n = run.budget(3000, 80_000);
    for _ in 0..n {
        let l = rng.below(12) as usize;
        let s: String = (0..l).map(|_| *rng.pick(&walpha)).collect();
        parse_case(run, &s, true);
    }
    // mutated renderings: drop / duplicate / insert one character
    let n = run.budget(1500, 40_000);
    for _ in 0..n {
        let k = 1 + rng.below(3) as usize;
        let parts: Vec<String> = (0..k).map(|_| gen_ident(&mut rng, true)).collect();
        let q: Vec<char> = mk_ref(&parts).to_quoted_string().chars().collect();
        let mut m = q.clone();
        if !m.is_empty() {
            let i = rng.below(m.len() as u64) as usize;
            match rng.below(3) {
                0 => {
                    m.remove(i);
                }
                1 => {
                    let c = m[i];
                    m.insert(i, c);
                }
                _ => m.insert(i, *rng.pick(&['"', '.', ' ', 'a', '_', '1'])),
            }
        }
        let s: String = m.into_iter().collect();
        parse_case(run, &s, true);
    }
    run.note("datafusion-common is built with feature `sql` here (sqlparser-backed parse_identifiers); the non-sql fallback parser is not exercised");
}
