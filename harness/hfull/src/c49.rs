//! C49 — catalog changes are applied exactly and reflected in information_schema.
//!
//! Random DDL histories (≤ 10 statements over a few names: quoted / unquoted, upper / lower case,
//! bare / schema-qualified / fully qualified / 4-part) are run through `SessionContext::sql` on a
//! fresh context with information_schema enabled.  After EVERY statement the harness records
//!   * the outcome class (`ok`, `ok:<columns>` for SELECT, `err:<kind>`),
//!   * the sorted contents of information_schema.tables / columns / views / schemata,
//! and the whole history is compared with the Lean state machine `Sm.Catalog` (equality).
//!
//! Implementation-level oracles (no model involved):
//!   O1 a statement that returned Err left all four listings unchanged;
//!   O2 information_schema.tables lists exactly the names `SessionContext::table_exist` finds
//!      (over the whole universe of names the generator can produce);
//!   O3 a view whose source table was not touched since the view was created returns exactly
//!      the rows of its defining query.
use std::collections::{BTreeMap, BTreeSet, VecDeque};
use std::sync::Arc;

use arrow::array::{Array, AsArray, RecordBatch};
use arrow::util::display::{ArrayFormatter, FormatOptions};
use datafusion::prelude::{SessionConfig, SessionContext};
use datafusion_common::TableReference;
use hutil::{Args, Rng, Run, hex};

#[derive(Clone, Debug)]
struct Ident {
    text: String,
    quoted: bool,
}
impl Ident {
    fn sql(&self) -> String {
        if self.quoted { format!("\"{}\"", self.text) } else { self.text.clone() }
    }
    fn sexp(&self) -> String {
        format!("({} {})", if self.quoted { "q" } else { "u" }, hex(self.text.as_bytes()))
    }
    fn norm(&self) -> String {
        if self.quoted { self.text.clone() } else { self.text.to_ascii_lowercase() }
    }
}
type Ref = Vec<Ident>;
fn ref_sql(r: &Ref) -> String {
    r.iter().map(|i| i.sql()).collect::<Vec<_>>().join(".")
}
fn ref_sexp(r: &Ref) -> String {
    format!("({})", r.iter().map(|i| i.sexp()).collect::<Vec<_>>().join(" "))
}
/// harness-side copy of the resolution rule — used ONLY for oracle bookkeeping (O3)
fn ref_key(r: &Ref) -> Option<(String, String, String)> {
    let n: Vec<String> = r.iter().map(|i| i.norm()).collect();
    match n.len() {
        1 => Some(("datafusion".into(), "public".into(), n[0].clone())),
        2 => Some(("datafusion".into(), n[0].clone(), n[1].clone())),
        3 => Some((n[0].clone(), n[1].clone(), n[2].clone())),
        _ => None,
    }
}

/// (column name, SQL type, Arrow type as printed by information_schema, nullable)
#[derive(Clone, Debug)]
struct Col {
    name: &'static str,
    sql_ty: &'static str,
    arrow: &'static str,
    nullable: bool,
}
const DECL_COLS: [Col; 5] = [
    Col { name: "a", sql_ty: "INT", arrow: "Int32", nullable: true },
    Col { name: "b", sql_ty: "VARCHAR", arrow: "Utf8View", nullable: true },
    Col { name: "c", sql_ty: "BIGINT NOT NULL", arrow: "Int64", nullable: false },
    Col { name: "d", sql_ty: "DOUBLE", arrow: "Float64", nullable: true },
    Col { name: "e", sql_ty: "BOOLEAN", arrow: "Boolean", nullable: true },
];
fn col_sexp(c: &Col) -> String {
    format!("({} {} {})", hex(c.name.as_bytes()), c.arrow, if c.nullable { "t" } else { "f" })
}

#[derive(Clone, Debug)]
enum Query {
    /// `SELECT <n> AS k, 'x' AS s` (or only k)
    Const { n: u64, with_s: bool },
    From(Ref),
    /// plans, fails with a division by zero when run
    Failing,
}
const FAILING_SQL: &str = "SELECT 1 / column1 AS z FROM (VALUES (0))";
impl Query {
    fn sql(&self) -> String {
        match self {
            Query::Const { n, with_s: true } => format!("SELECT {n} AS k, 'x' AS s"),
            Query::Const { n, with_s: false } => format!("SELECT {n} AS k"),
            Query::From(r) => format!("SELECT * FROM {}", ref_sql(r)),
            Query::Failing => FAILING_SQL.to_string(),
        }
    }
    fn sexp(&self) -> String {
        let k = Col { name: "k", sql_ty: "", arrow: "Int64", nullable: false };
        let s = Col { name: "s", sql_ty: "", arrow: "Utf8", nullable: false };
        let z = Col { name: "z", sql_ty: "", arrow: "Int64", nullable: false };
        match self {
            Query::Const { with_s: true, .. } => format!("(const {} {})", col_sexp(&k), col_sexp(&s)),
            Query::Const { with_s: false, .. } => format!("(const {})", col_sexp(&k)),
            Query::From(r) => format!("(from {})", ref_sexp(r)),
            Query::Failing => format!("(failing {})", col_sexp(&z)),
        }
    }
}

#[derive(Clone, Debug)]
enum Body {
    Cols(Vec<Col>),
    As(Query),
}

#[derive(Clone, Debug)]
enum Stmt {
    CreateCatalog { n: Ident, ine: bool },
    CreateSchema { r: Ref, ine: bool },
    DropSchema { r: Ref, ifx: bool, cascade: bool },
    CreateTable { r: Ref, ine: bool, orr: bool, body: Body },
    CreateView { r: Ref, orr: bool, q: Query },
    DropTable { r: Ref, ifx: bool },
    DropView { r: Ref, ifx: bool },
    Select { r: Ref },
}
fn b(x: bool) -> &'static str {
    if x { "t" } else { "f" }
}
impl Stmt {
    fn sql(&self) -> String {
        match self {
            Stmt::CreateCatalog { n, ine } => format!("CREATE DATABASE {}{}", if *ine { "IF NOT EXISTS " } else { "" }, n.sql()),
            Stmt::CreateSchema { r, ine } => format!("CREATE SCHEMA {}{}", if *ine { "IF NOT EXISTS " } else { "" }, ref_sql(r)),
            Stmt::DropSchema { r, ifx, cascade } => {
                format!("DROP SCHEMA {}{}{}", if *ifx { "IF EXISTS " } else { "" }, ref_sql(r), if *cascade { " CASCADE" } else { "" })
            }
            Stmt::CreateTable { r, ine, orr, body } => {
                let head = format!(
                    "CREATE {}TABLE {}{}",
                    if *orr { "OR REPLACE " } else { "" },
                    if *ine { "IF NOT EXISTS " } else { "" },
                    ref_sql(r)
                );
                match body {
                    Body::Cols(cs) => {
                        format!("{head} ({})", cs.iter().map(|c| format!("{} {}", c.name, c.sql_ty)).collect::<Vec<_>>().join(", "))
                    }
                    Body::As(q) => format!("{head} AS {}", q.sql()),
                }
            }
            Stmt::CreateView { r, orr, q } => {
                format!("CREATE {}VIEW {} AS {}", if *orr { "OR REPLACE " } else { "" }, ref_sql(r), q.sql())
            }
            Stmt::DropTable { r, ifx } => format!("DROP TABLE {}{}", if *ifx { "IF EXISTS " } else { "" }, ref_sql(r)),
            Stmt::DropView { r, ifx } => format!("DROP VIEW {}{}", if *ifx { "IF EXISTS " } else { "" }, ref_sql(r)),
            Stmt::Select { r } => format!("SELECT * FROM {}", ref_sql(r)),
        }
    }
    fn sexp(&self) -> String {
        match self {
            Stmt::CreateCatalog { n, ine } => format!("(ccat {} {})", n.sexp(), b(*ine)),
            Stmt::CreateSchema { r, ine } => format!("(cschema {} {})", ref_sexp(r), b(*ine)),
            Stmt::DropSchema { r, ifx, cascade } => format!("(dschema {} {} {})", ref_sexp(r), b(*ifx), b(*cascade)),
            Stmt::CreateTable { r, ine, orr, body } => {
                let bd = match body {
                    Body::Cols(cs) => format!("(cols {})", cs.iter().map(col_sexp).collect::<Vec<_>>().join(" ")),
                    Body::As(q) => format!("(as {})", q.sexp()),
                };
                format!("(ctable {} {} {} {})", ref_sexp(r), b(*ine), b(*orr), bd)
            }
            // the definition kept by the view is the text of the CREATE VIEW statement
            Stmt::CreateView { r, orr, q } => format!("(cview {} {} {} {})", ref_sexp(r), b(*orr), q.sexp(), hex(self.sql().as_bytes())),
            Stmt::DropTable { r, ifx } => format!("(dtable {} {})", ref_sexp(r), b(*ifx)),
            Stmt::DropView { r, ifx } => format!("(dview {} {})", ref_sexp(r), b(*ifx)),
            Stmt::Select { r } => format!("(select {})", ref_sexp(r)),
        }
    }
    /// tag used in counters and oracle signatures
    fn tag(&self) -> String {
        match self {
            Stmt::CreateCatalog { ine, .. } => format!("ccat{}", if *ine { "+ine" } else { "" }),
            Stmt::CreateSchema { ine, .. } => format!("cschema{}", if *ine { "+ine" } else { "" }),
            Stmt::DropSchema { ifx, cascade, .. } => format!("dschema{}{}", if *ifx { "+ifx" } else { "" }, if *cascade { "+cascade" } else { "" }),
            Stmt::CreateTable { ine, orr, body, .. } => format!(
                "ctable{}{}{}",
                if *orr { "+or_replace" } else { "" },
                if *ine { "+ine" } else { "" },
                match body {
                    Body::Cols(_) => "+cols",
                    Body::As(Query::Const { .. }) => "+as_const",
                    Body::As(Query::From(_)) => "+as_from",
                    Body::As(Query::Failing) => "+as_failing",
                }
            ),
            Stmt::CreateView { orr, q, .. } => format!(
                "cview{}{}",
                if *orr { "+or_replace" } else { "" },
                match q {
                    Query::Const { .. } => "+const",
                    Query::From(_) => "+from",
                    Query::Failing => "+failing",
                }
            ),
            Stmt::DropTable { ifx, .. } => format!("dtable{}", if *ifx { "+ifx" } else { "" }),
            Stmt::DropView { ifx, .. } => format!("dview{}", if *ifx { "+ifx" } else { "" }),
            Stmt::Select { .. } => "select".into(),
        }
    }
    fn kind(&self) -> &'static str {
        match self {
            Stmt::CreateCatalog { .. } => "ccat",
            Stmt::CreateSchema { .. } => "cschema",
            Stmt::DropSchema { .. } => "dschema",
            Stmt::CreateTable { .. } => "ctable",
            Stmt::CreateView { .. } => "cview",
            Stmt::DropTable { .. } => "dtable",
            Stmt::DropView { .. } => "dview",
            Stmt::Select { .. } => "select",
        }
    }
}

// ---------------------------------------------------------------- generator

const TABLE_BASES: [&str; 4] = ["t", "u", "v", "w"];
const SCHEMAS: [&str; 3] = ["public", "s1", "s2"];
const CATALOGS: [&str; 3] = ["datafusion", "c1", "zz"]; // zz is never created

fn variant(rng: &mut Rng, base: &str) -> Ident {
    match rng.below(6) {
        0 | 1 | 2 => Ident { text: base.to_string(), quoted: false },
        3 => Ident { text: base.to_ascii_uppercase(), quoted: false }, // same object
        4 => Ident { text: base.to_string(), quoted: true },           // same object
        _ => Ident { text: base.to_ascii_uppercase(), quoted: true },  // a DIFFERENT object
    }
}
/// quoted names that collide case-insensitively with reserved / virtual / default names:
/// they are ORDINARY user objects (resolution and the information_schema filter are case-sensitive)
const SPECIAL_SCHEMAS: [&str; 4] = ["Information_Schema", "INFORMATION_SCHEMA", "Public", "Datafusion"];
const SPECIAL_TABLES: [&str; 6] = ["Information_Schema", "INFORMATION_SCHEMA", "Public", "Datafusion", "Tables", "SCHEMATA"];
thread_local! {
    /// per-history "focus" schema: histories that build objects inside one of the special schemas
    static FOCUS: std::cell::RefCell<Option<Ident>> = const { std::cell::RefCell::new(None) };
}
fn quoted(s: &str) -> Ident {
    Ident { text: s.to_string(), quoted: true }
}
fn table_ident(rng: &mut Rng) -> Ident {
    if rng.chance(1, 8) {
        quoted(SPECIAL_TABLES[rng.below(SPECIAL_TABLES.len() as u64) as usize])
    } else {
        let base = TABLE_BASES[rng.below(TABLE_BASES.len() as u64) as usize];
        variant(rng, base)
    }
}
fn schema_ident(rng: &mut Rng) -> Ident {
    let focus = FOCUS.with(|f| f.borrow().clone());
    if let Some(f) = focus {
        if rng.chance(1, 2) {
            return f;
        }
    }
    if rng.chance(1, 8) {
        quoted(SPECIAL_SCHEMAS[rng.below(SPECIAL_SCHEMAS.len() as u64) as usize])
    } else {
        let sc = pick_schema(rng);
        variant(rng, sc)
    }
}
fn catalog_ident(rng: &mut Rng, zz_den: u64) -> Ident {
    if rng.chance(1, 12) {
        return quoted("Datafusion");
    }
    let c = if rng.chance(1, zz_den) { "zz" } else if rng.chance(1, 3) { "c1" } else { "datafusion" };
    variant(rng, c)
}
fn gen_table_ref(rng: &mut Rng) -> Ref {
    let t = table_ident(rng);
    let focused = FOCUS.with(|f| f.borrow().is_some());
    match rng.below(40) {
        0..=21 if !focused => vec![t],
        0..=9 => vec![t],
        10..=31 => vec![schema_ident(rng), t],
        32..=37 => vec![catalog_ident(rng, 10), schema_ident(rng), t],
        _ => vec![variant(rng, "x"), variant(rng, "datafusion"), variant(rng, "public"), t],
    }
}
fn pick_schema(rng: &mut Rng) -> &'static str {
    match rng.below(10) {
        0..=5 => "public",
        6..=8 => "s1",
        _ => "s2",
    }
}
fn gen_schema_ref(rng: &mut Rng) -> Ref {
    let s = schema_ident(rng);
    match rng.below(12) {
        0..=6 => vec![s],
        7..=10 => vec![catalog_ident(rng, 6), s],
        _ => vec![variant(rng, "datafusion"), variant(rng, "public"), s],
    }
}
fn gen_query(rng: &mut Rng, counter: &mut u64) -> Query {
    *counter += 1;
    match rng.below(10) {
        0..=3 => Query::Const { n: *counter, with_s: rng.chance(1, 2) },
        4..=7 => Query::From(gen_table_ref(rng)),
        _ => Query::Failing,
    }
}
fn gen_stmt(rng: &mut Rng, counter: &mut u64) -> Stmt {
    match rng.below(100) {
        0..=4 => Stmt::CreateCatalog { n: if rng.chance(1, 4) { quoted("Datafusion") } else { variant(rng, "c1") }, ine: rng.chance(1, 2) },
        5..=14 => Stmt::CreateSchema { r: gen_schema_ref(rng), ine: rng.chance(1, 2) },
        15..=22 => Stmt::DropSchema { r: gen_schema_ref(rng), ifx: rng.chance(1, 2), cascade: rng.chance(1, 2) },
        23..=52 => {
            let body = if rng.chance(2, 5) {
                let n = 1 + rng.below(3) as usize;
                let start = rng.below(5) as usize;
                Body::Cols((0..n).map(|i| DECL_COLS[(start + i) % 5].clone()).collect())
            } else {
                Body::As(gen_query(rng, counter))
            };
            let (ine, orr) = match rng.below(10) {
                0..=3 => (false, false),
                4..=6 => (false, true),
                7..=8 => (true, false),
                _ => (true, true),
            };
            Stmt::CreateTable { r: gen_table_ref(rng), ine, orr, body }
        }
        53..=66 => Stmt::CreateView { r: gen_table_ref(rng), orr: rng.chance(2, 5), q: gen_query(rng, counter) },
        67..=76 => Stmt::DropTable { r: gen_table_ref(rng), ifx: rng.chance(1, 2) },
        77..=84 => Stmt::DropView { r: gen_table_ref(rng), ifx: rng.chance(1, 2) },
        _ => Stmt::Select { r: gen_table_ref(rng) },
    }
}

// ---------------------------------------------------------------- running the real code

fn classify(msg: &str) -> String {
    let m = msg;
    let kind = if m.contains("Unsupported compound identifier") || m.contains("Invalid schema specifier") || m.contains("Unable to parse catalog") {
        "badname"
    } else if m.contains("cannot coexist") {
        "conflict"
    } else if m.contains("Cannot drop schema") {
        "nonempty"
    } else if m.contains("Missing catalog") || m.contains("Missing default catalog") {
        "nocatalog"
    } else if m.contains("already exists") {
        "exists"
    } else if m.contains("doesn't exist") {
        "missing"
    } else if m.contains("ivide by zero") {
        "runtime"
    } else if m.contains("not found") || m.contains("failed to resolve schema") || m.contains("failed to resolve catalog") || m.contains("No table named") {
        "unresolved"
    } else {
        return format!("err:other:{}", m.chars().filter(|c| c.is_ascii_alphanumeric()).take(60).collect::<String>());
    };
    format!("err:{kind}")
}

fn cell(batch: &RecordBatch, col: usize, row: usize) -> Option<String> {
    let a = batch.column(col);
    if a.is_null(row) {
        return None;
    }
    let opt = FormatOptions::default();
    let f = ArrayFormatter::try_new(a.as_ref(), &opt).ok()?;
    Some(f.value(row).to_string())
}

struct Listings {
    text: String,
    user_tables: BTreeSet<(String, String, String)>,
}

async fn listings(ctx: &SessionContext) -> Result<Listings, String> {
    let q = |sql: &'static str| async move {
        let df = ctx.sql(sql).await.map_err(|e| format!("{sql}: {e}"))?;
        df.collect().await.map_err(|e| format!("{sql}: {e}"))
    };
    let mut t = vec![];
    let mut info = 0usize;
    let mut user_tables = BTreeSet::new();
    for bt in q("SELECT table_catalog, table_schema, table_name, table_type FROM information_schema.tables").await? {
        for r in 0..bt.num_rows() {
            let (c, s, n, ty) = (cell(&bt, 0, r).unwrap(), cell(&bt, 1, r).unwrap(), cell(&bt, 2, r).unwrap(), cell(&bt, 3, r).unwrap());
            if s == "information_schema" {
                info += 1;
                continue;
            }
            let k = match ty.as_str() {
                "BASE TABLE" => "B",
                "VIEW" => "V",
                other => other,
            };
            t.push(format!("{c}.{s}.{n}:{k}"));
            user_tables.insert((c, s, n));
        }
    }
    let mut cvec = vec![];
    for bt in q("SELECT table_catalog, table_schema, table_name, ordinal_position, column_name, data_type, is_nullable FROM information_schema.columns").await? {
        for r in 0..bt.num_rows() {
            let v: Vec<String> = (0..7).map(|i| cell(&bt, i, r).unwrap_or_else(|| "NULL".into())).collect();
            let nl = match v[6].as_str() {
                "YES" => "Y",
                "NO" => "N",
                o => o,
            };
            cvec.push(format!("{}.{}.{}.{}:{}:{}:{}", v[0], v[1], v[2], v[3], v[4], v[5], nl));
        }
    }
    let mut v = vec![];
    for bt in q("SELECT table_catalog, table_schema, table_name, definition FROM information_schema.views").await? {
        for r in 0..bt.num_rows() {
            let d = match cell(&bt, 3, r) {
                None => "null".to_string(),
                Some(d) => hex(d.as_bytes()),
            };
            v.push(format!("{}.{}.{}={}", cell(&bt, 0, r).unwrap(), cell(&bt, 1, r).unwrap(), cell(&bt, 2, r).unwrap(), d));
        }
    }
    let mut s = vec![];
    for bt in q("SELECT catalog_name, schema_name FROM information_schema.schemata").await? {
        for r in 0..bt.num_rows() {
            s.push(format!("{}.{}", cell(&bt, 0, r).unwrap(), cell(&bt, 1, r).unwrap()));
        }
    }
    t.sort();
    cvec.sort();
    v.sort();
    s.sort();
    Ok(Listings {
        text: format!("#T={}|i={}#C={}#V={}#S={}", t.join(","), info, cvec.join(","), v.join(","), s.join(",")),
        user_tables,
    })
}

async fn exec(ctx: &SessionContext, st: &Stmt) -> String {
    let sql = st.sql();
    match ctx.sql(&sql).await {
        Err(e) => classify(&e.to_string()),
        Ok(df) => {
            let schema = df.schema().clone();
            match df.collect().await {
                Err(e) => classify(&e.to_string()),
                Ok(_) => {
                    if let Stmt::Select { .. } = st {
                        let cols: Vec<String> = schema
                            .fields()
                            .iter()
                            .map(|f| format!("{}:{}:{}", f.name(), f.data_type(), if f.is_nullable() { "Y" } else { "N" }))
                            .collect();
                        format!("ok:{}", cols.join(","))
                    } else {
                        "ok".into()
                    }
                }
            }
        }
    }
}

async fn rows_of(ctx: &SessionContext, sql: &str) -> Result<Vec<String>, String> {
    let df = ctx.sql(sql).await.map_err(|e| e.to_string())?;
    let bs = df.collect().await.map_err(|e| e.to_string())?;
    let mut out = vec![];
    for bt in bs {
        for r in 0..bt.num_rows() {
            out.push((0..bt.num_columns()).map(|c| cell(&bt, c, r).unwrap_or_else(|| "NULL".into())).collect::<Vec<_>>().join("|"));
        }
    }
    out.sort();
    Ok(out)
}

/// every (catalog, schema, table) the generator can name, normalised
fn universe() -> Vec<(String, String, String)> {
    let mut cats: Vec<String> = vec![];
    for c in CATALOGS {
        cats.push(c.to_string());
        cats.push(c.to_ascii_uppercase());
    }
    cats.push("Datafusion".into());
    let mut schemas: Vec<String> = vec![];
    for s in SCHEMAS {
        schemas.push(s.to_string());
        schemas.push(s.to_ascii_uppercase());
    }
    schemas.extend(SPECIAL_SCHEMAS.iter().map(|s| s.to_string()));
    let mut tables: Vec<String> = vec![];
    for t in TABLE_BASES {
        tables.push(t.to_string());
        tables.push(t.to_ascii_uppercase());
    }
    tables.extend(SPECIAL_TABLES.iter().map(|s| s.to_string()));
    schemas.sort();
    schemas.dedup();
    tables.sort();
    tables.dedup();
    let mut u = vec![];
    for c in &cats {
        for s in &schemas {
            for t in &tables {
                u.push((c.clone(), s.clone(), t.clone()));
            }
        }
    }
    u
}

struct ViewInfo {
    src_sql: String,
    src_key: (String, String, String),
    src_stamp: u64,
    own_stamp: u64,
}

async fn one_history(run: &mut Run, rng: &mut Rng, h: u64, max_len: u64) {
    let cfg = SessionConfig::new().with_information_schema(true).with_target_partitions(1);
    let ctx = SessionContext::new_with_config(cfg);
    let len = 3 + rng.below(max_len - 2);
    let mut counter = h * 100;
    let mut req: Vec<String> = vec![];
    let mut ans: Vec<String> = vec![];
    let mut kinds = BTreeSet::new();
    let (mut changed, mut failed_or_noop) = (0u32, 0u32);
    let uni = universe();
    let mut prev = match listings(&ctx).await {
        Ok(l) => l,
        Err(e) => {
            run.oracle(false, &format!("listing-failed history#{h} initial"), &e);
            return;
        }
    };
    // O3 bookkeeping: stamp of the last successful change per key; views over base tables
    let mut stamp: BTreeMap<(String, String, String), u64> = BTreeMap::new();
    let mut is_base: BTreeMap<(String, String, String), bool> = BTreeMap::new();
    let mut views: BTreeMap<(String, String, String), ViewInfo> = BTreeMap::new();
    let mut clock = 0u64;
    let mut sqls: Vec<String> = vec![];
    // a quarter of the histories first build objects inside a quoted schema whose name collides
    // case-insensitively with `information_schema` / `public` / the default catalog
    let mut queue: VecDeque<Stmt> = VecDeque::new();
    if rng.chance(1, 4) {
        let f = quoted(SPECIAL_SCHEMAS[rng.below(SPECIAL_SCHEMAS.len() as u64) as usize]);
        FOCUS.with(|c| *c.borrow_mut() = Some(f.clone()));
        run.count(&format!("focus-schema:{}", f.text));
        queue.push_back(Stmt::CreateSchema { r: vec![f.clone()], ine: false });
        let t = table_ident(rng);
        queue.push_back(Stmt::CreateTable { r: vec![f.clone(), t.clone()], ine: false, orr: false, body: Body::Cols(vec![DECL_COLS[0].clone(), DECL_COLS[1].clone()]) });
        if rng.chance(1, 2) {
            counter += 1;
            queue.push_back(Stmt::CreateView { r: vec![f.clone(), table_ident(rng)], orr: false, q: Query::From(vec![f.clone(), t]) });
        }
    } else {
        FOCUS.with(|c| *c.borrow_mut() = None);
    }
    for _ in 0..len {
        let st = queue.pop_front().unwrap_or_else(|| gen_stmt(rng, &mut counter));
        let sql = st.sql();
        sqls.push(sql.clone());
        let out = exec(&ctx, &st).await;
        let now = match listings(&ctx).await {
            Ok(l) => l,
            Err(e) => {
                run.oracle(false, &format!("listing-failed history#{h} after {}", st.tag()), &format!("{e} after {sqls:?}"));
                return;
            }
        };
        run.count(&format!("stmt:{}", st.tag()));
        run.count(&format!("outcome:{}", out.split(':').take(2).collect::<Vec<_>>().join(":").split(',').next().unwrap_or("").chars().take(24).collect::<String>()));
        kinds.insert(st.kind());
        let is_err = out.starts_with("err");
        let same = now.text == prev.text;
        if !same {
            changed += 1;
        }
        if is_err || (same && !matches!(st, Stmt::Select { .. })) {
            failed_or_noop += 1;
        }
        // ---- O1: a failed statement must not change the catalog
        if is_err {
            run.oracle(
                same,
                &format!("failed-stmt-changed-catalog {} {} :: {}", st.tag(), out, sql),
                &format!("history {sqls:?}: the last statement returned `{out}` but information_schema changed from `{}` to `{}`", prev.text, now.text),
            );
        }
        // ---- O2: listing == what table_exist finds
        let mut found = BTreeSet::new();
        for k in &uni {
            let r = TableReference::full(k.0.clone(), k.1.clone(), k.2.clone());
            if ctx.table_exist(r).unwrap_or(false) {
                found.insert(k.clone());
            }
        }
        let listed: BTreeSet<_> = now.user_tables.iter().cloned().collect();
        run.oracle(
            found == listed,
            &format!("info-tables-vs-table_exist history#{h} after {}", st.tag()),
            &format!("history {sqls:?}: information_schema.tables lists {listed:?} but table_exist finds {found:?}"),
        );
        // ---- O3 bookkeeping (every successful DDL statement counts as a change of its key: an
        // OR REPLACE with the same columns leaves the listings textually identical)
        if !is_err && !matches!(st, Stmt::Select { .. }) {
            clock += 1;
            match &st {
                Stmt::CreateTable { r, .. } | Stmt::DropTable { r, .. } | Stmt::DropView { r, .. } | Stmt::CreateView { r, .. } => {
                    if let Some(k) = ref_key(r) {
                        stamp.insert(k.clone(), clock);
                        views.remove(&k);
                        is_base.insert(k.clone(), matches!(st, Stmt::CreateTable { .. }) && now.user_tables.contains(&k));
                        if let Stmt::CreateView { q: Query::From(src), .. } = &st {
                            if let Some(sk) = ref_key(src) {
                                if is_base.get(&sk).copied().unwrap_or(false) && now.user_tables.contains(&k) {
                                    views.insert(k.clone(), ViewInfo { src_sql: format!("SELECT * FROM {}", ref_sql(src)), src_key: sk.clone(), src_stamp: stamp.get(&sk).copied().unwrap_or(0), own_stamp: clock });
                                }
                            }
                        }
                    }
                }
                Stmt::DropSchema { .. } => {
                    // objects of the schema are gone; forget everything that is no longer listed
                    let gone: Vec<_> = stamp.keys().filter(|k| !now.user_tables.contains(*k)).cloned().collect();
                    for k in gone {
                        stamp.insert(k.clone(), clock);
                        views.remove(&k);
                        is_base.insert(k, false);
                    }
                }
                _ => {}
            }
        }
        req.push(st.sexp());
        ans.push(format!("{out}{}", now.text));
        prev = now;
    }
    // ---- O4: every listed object can be queried through its quoted, fully qualified name
    for k in &prev.user_tables {
        let q = format!("SELECT * FROM \"{}\".\"{}\".\"{}\"", k.0, k.1, k.2);
        let ok = match ctx.sql(&q).await {
            Ok(_) => true,
            Err(e) => !matches!(classify(&e.to_string()).as_str(), "err:unresolved" | "err:badname"),
        };
        run.oracle(ok, &format!("listed-object-not-queryable {}.{}.{}", k.0, k.1, k.2), &format!("history {sqls:?}: `{q}` does not resolve although information_schema.tables lists the object"));
    }
    // ---- O3: views over untouched base tables return their query's rows
    for (k, vi) in &views {
        let untouched = stamp.get(&vi.src_key).copied().unwrap_or(0) == vi.src_stamp && stamp.get(k).copied().unwrap_or(0) == vi.own_stamp;
        if !untouched || !prev.user_tables.contains(k) || !prev.user_tables.contains(&vi.src_key) {
            run.count("view-check:skipped-source-or-view-touched");
            continue;
        }
        let vsql = format!("SELECT * FROM \"{}\".\"{}\".\"{}\"", k.0, k.1, k.2);
        let got = rows_of(&ctx, &vsql).await;
        let want = rows_of(&ctx, &vi.src_sql).await;
        run.count("view-check:compared");
        run.oracle(
            got == want && got.is_ok(),
            &format!("view-rows-differ history#{h} view={}.{}.{}", k.0, k.1, k.2),
            &format!("history {sqls:?}: `{vsql}` gives {got:?} but its defining query `{}` gives {want:?}", vi.src_sql),
        );
    }
    let nontrivial = kinds.len() >= 3 && changed >= 1 && failed_or_noop >= 1;
    run.case("run", &format!("({})", req.join(" ")), &ans.join(" ; "), nontrivial);
}

/// O4: the observed stale-view behaviour, measured (not an alarm): a view keeps the provider it
/// captured when it was created, so after its source is replaced it still shows the old rows.
async fn stale_view_probe(run: &mut Run) {
    let ctx = SessionContext::new_with_config(SessionConfig::new().with_information_schema(true).with_target_partitions(1));
    for s in ["CREATE TABLE t AS SELECT 1 AS k", "CREATE VIEW v AS SELECT * FROM t", "CREATE OR REPLACE TABLE t AS SELECT 2 AS k"] {
        if let Err(e) = ctx.sql(s).await {
            run.note(&format!("stale-view probe: `{s}` failed: {e}"));
            return;
        }
    }
    let v = rows_of(&ctx, "SELECT * FROM v").await;
    let t = rows_of(&ctx, "SELECT * FROM t").await;
    run.note(&format!("stale-view probe (observation, not judged): after CREATE TABLE t AS SELECT 1; CREATE VIEW v AS SELECT * FROM t; CREATE OR REPLACE TABLE t AS SELECT 2 -> SELECT * FROM v = {v:?}, SELECT * FROM t = {t:?}"));
    run.count(if v == t { "stale-view-probe:view-follows-new-table" } else { "stale-view-probe:view-keeps-old-table" });
}

pub fn run(run: &mut Run, args: &Args) {
    hutil::quiet_panics();
    let mut rng = Rng::new(args.seed);
    let rt = tokio::runtime::Builder::new_current_thread().enable_all().build().unwrap();
    let n = run.budget(1000, 20_000);
    let max_len = 10;
    rt.block_on(async {
        for h in 0..n {
            one_history(run, &mut rng, h, max_len).await;
        }
        stale_view_probe(run).await;
    });
    let _ = Arc::new(0);
}
