//! C43 — configuration options round-trip through their text form.
//!
//! Exhaustive over the keys of `ConfigOptions::default().entries()`.  Each key's kind is harvested
//! from the implementation by probing (which texts a fresh configuration accepts and what it then
//! reports) and handed to the Lean model `Text.Config`, which must then predict accept/reject and
//! the reported text for many more texts (boundaries, signs, leading zeros, case variants, blanks,
//! invalid strings) — equality.  Implementation-level oracles, no model involved:
//!   * re-setting ANY key from the text `entries()` reports leaves `entries()` identical, after
//!     random histories of valid `set`s;
//!   * a rejected value leaves `entries()` identical;
//!   * SQL `SET` followed by `SHOW` reports what `ConfigOptions` reports, and `SET` from the
//!     `SHOW`n text is a fixpoint (also for `datafusion.runtime.*`);
//!   * integer `Display` vs the model's decimal rendering.
use std::collections::BTreeMap;

use datafusion::prelude::{SessionConfig, SessionContext};
use datafusion_common::config::ConfigOptions;
use hutil::{Args, Rng, Run};

fn cps(s: &str) -> String {
    let v: Vec<String> = s.chars().map(|c| (c as u32).to_string()).collect();
    format!("({})", v.join(" "))
}

fn snapshot(cfg: &ConfigOptions) -> BTreeMap<String, Option<String>> {
    cfg.entries().into_iter().map(|e| (e.key, e.value)).collect()
}

fn value_of(cfg: &ConfigOptions, key: &str) -> Option<String> {
    cfg.entries().into_iter().find(|e| e.key == key).and_then(|e| e.value)
}

/// `Some(reported value)` if a fresh default configuration accepts `text` for `key`
fn probe(key: &str, text: &str) -> Option<Option<String>> {
    let mut cfg = ConfigOptions::default();
    match cfg.set(key, text) {
        Ok(()) => Some(value_of(&cfg, key)),
        Err(_) => None,
    }
}

const U64MAX: &str = "18446744073709551615";

/// kind s-expression for the model, harvested by behaviour
fn classify(key: &str, default: &Option<String>) -> String {
    let fixed = match key {
        "datafusion.sql_parser.dialect" => Some("(enum dialect f)"),
        "datafusion.execution.spill_compression" => Some("(enum spill f)"),
        "datafusion.spark.map_key_dedup_policy" => Some("(enum mapkey f)"),
        "datafusion.explain.format" => Some("(enum explain f)"),
        "datafusion.explain.analyze_level" => Some("(enum metric t)"),
        "datafusion.execution.parquet.writer_version" => Some("(enum writer f)"),
        "datafusion.format.duration_format" => Some("(enum duration f)"),
        "datafusion.explain.analyze_categories" => Some("other"),
        "datafusion.optimizer.enable_dynamic_filter_pushdown" => Some("sbool"),
        _ => None,
    };
    let ok = |t: &str| probe(key, t).is_some();
    let shown = |t: &str| probe(key, t).flatten();
    let inner: String = if let Some(f) = fixed {
        f.to_string()
    } else if ok("zzz") {
        if shown("ZzZ").as_deref() == Some("zzz") { "lstr".into() } else { "str".into() }
    } else if ok("true") && ok("false") {
        if ok("TRUE") { "bool".into() } else { "sbool".into() }
    } else if ok("1.5") {
        "other".into() // f64
    } else if ok("-1") {
        if ok("4294967296") { "other".into() } else { "(int -2147483648 2147483647)".into() }
    } else {
        let max = if ok(U64MAX) {
            U64MAX
        } else if ok("4294967295") {
            "4294967295"
        } else if ok("255") {
            "255"
        } else {
            "100"
        };
        if !ok("0") {
            if ok("1") {
                format!("(umin 1 {max})")
            } else if ok("2") {
                format!("(umin 2 {max})")
            } else {
                "other".into()
            }
        } else if shown("0").as_deref() != Some("0") {
            format!("(par {} {max})", shown("0").unwrap_or_default())
        } else if max == "100" && !ok("101") && ok("100") {
            "sel".into()
        } else {
            format!("(uint {max})")
        }
    };
    if default.is_none() {
        // Option<F> currently None: since /repo 32d6403 a failed set restores None for the blanket impl
        // too, so both impls classify as `opts`; `opt` would only reappear on a regression (and the
        // strict oracle `invalid-changes-config none-option` then reports it)
        let mut cfg = ConfigOptions::default();
        let failed = cfg.set(key, "\u{1}not-a-value\u{1}").is_err();
        if inner == "str" || inner == "lstr" || !failed {
            format!("(opt {inner})")
        } else if value_of(&cfg, key).is_none() {
            format!("(opts {inner})")
        } else {
            format!("(opt {inner})")
        }
    } else {
        inner
    }
}

const CATS: [&str; 4] = ["rows", "bytes", "timing", "uncategorized"];

/// every ordered selection of 1..4 distinct categories, joined with `,` (64 texts)
fn category_lists() -> Vec<Vec<&'static str>> {
    fn go(cur: &mut Vec<&'static str>, out: &mut Vec<Vec<&'static str>>) {
        if !cur.is_empty() {
            out.push(cur.clone());
        }
        for c in CATS {
            if !cur.contains(&c) {
                cur.push(c);
                go(cur, out);
                cur.pop();
            }
        }
    }
    let mut out = vec![];
    go(&mut vec![], &mut out);
    out
}

const CATEGORIES_KEY: &str = "datafusion.explain.analyze_categories";
const F64_TEXTS: &[&str] = &["0", "1", "0.5", "1e-3", "0.001", "0.25", "2.5", "100", "1e300", "123456789.125", "-0", "-1.5", "inf", "NaN", "1e400", "1.", ".5", "5e-324", "1e", "0.1.2", "1,5", "0x1p3"];

fn is_f64_key(key: &str, kind: &str) -> bool {
    kind.contains("other") && key != CATEGORIES_KEY
}

fn texts_for(key: &str, kind: &str, rng: &mut Rng, extra: usize) -> Vec<String> {
    let mut v: Vec<String> = ["", " ", "abc", "1.5", "-", "+", "--1", "1 ", " 1", "1_000", "0x10", "١٢", "true ", "yes", "null", "NULL", "\t"].iter().map(|s| s.to_string()).collect();
    let nums = [
        "0", "1", "2", "3", "+5", "-0", "+0", "00012", "007", "100", "101", "255", "256", "4294967295", "4294967296", "9223372036854775807", "9223372036854775808", U64MAX, "18446744073709551616",
        "99999999999999999999999", "-1", "-2147483648", "-2147483649", "2147483647", "2147483648", "+2147483647", "-00", "1e3", "64", "8192", "1048576",
    ];
    let bools = ["true", "false", "TRUE", "False", "tRuE", "FALSE", "t", "f", "1", "0", "truee", " true"];
    let strs = ["abc", "ABC", "aBc", "a b", "é", "x.y", "ZSTD(3)", "Snappy", "a;b", "'q'", "\"q\""];
    let enums = [
        "generic", "Generic", "GENERIC", "mysql", "postgresql", "postgres", "POSTGRES", "hive", "sqlite", "snowflake", "redshift", "mssql", "clickhouse", "bigquery", "ansi", "duckdb", "databricks",
        "spark", "sparksql", "SparkSQL", "zstd", "ZSTD", "lz4_frame", "Lz4_Frame", "uncompressed", "lz4", "EXCEPTION", "exception", "LAST_WIN", "last_win", "Last_Win", "lastwin", "indent", "tree",
        "pgjson", "graphviz", "TREE", "summary", "dev", " dev ", "DEV", "\tsummary\n", "1.0", "2.0", "1", "pretty", "iso8601", "ISO8601", "Pretty", " pretty",
    ];
    for s in nums.iter().chain(bools.iter()).chain(strs.iter()) {
        v.push(s.to_string());
    }
    if kind.contains("enum") {
        for s in enums {
            v.push(s.to_string());
        }
    }
    if key == CATEGORIES_KEY {
        for s in ["all", "none", "ALL", " None ", "All", "", ",", "rows,", ",rows", "rows,,bytes", "rows,rows", "rows,bytes,rows", "rows,rows,bytes", "bytes,bytes,bytes", "row", "rows bytes", "rows;bytes", "all,rows", "none,rows", "rows,all"] {
            v.push(s.to_string());
        }
        for l in category_lists() {
            v.push(l.join(","));
            v.push(l.join(" , "));
            v.push(format!(" {} ", l.join(",").to_uppercase()));
        }
    }
    if is_f64_key(key, kind) {
        for s in F64_TEXTS {
            v.push(s.to_string());
        }
    }
    for _ in 0..extra {
        let l = 1 + rng.below(21);
        let mut s = String::new();
        match rng.below(8) {
            0 => s.push('+'),
            1 => s.push('-'),
            _ => {}
        }
        for _ in 0..l {
            s.push((b'0' + rng.below(10) as u8) as char);
        }
        if rng.chance(1, 12) {
            s.push(*rng.pick(&[' ', 'a', '.', '_']));
        }
        v.push(s);
    }
    v
}

fn show_opt(v: &Option<String>) -> String {
    match v {
        Some(s) => cps(s),
        None => "n".into(),
    }
}

fn per_key(run: &mut Run, rng: &mut Rng) -> Vec<(String, String, Option<String>)> {
    let defaults = ConfigOptions::default();
    let mut kinds = vec![];
    for e in defaults.entries() {
        let kind = classify(&e.key, &e.value);
        run.count(&format!("kind:{}", kind.split(' ').next().unwrap_or("").trim_start_matches('(')));
        kinds.push((e.key.clone(), kind, e.value.clone()));
    }
    let extra = run.budget(12, 400) as usize;
    for (key, kind, default) in &kinds {
        let before = snapshot(&defaults);
        for t in texts_for(key, kind, rng, extra) {
            let mut cfg = ConfigOptions::default();
            let res = cfg.set(key, &t);
            let after = snapshot(&cfg);
            let shown = after.get(key).cloned().flatten();
            let ans = format!("{} {}", if res.is_ok() { "ok" } else { "err" }, show_opt(&shown));
            let nontrivial = res.is_err() || shown.as_deref() != Some(t.as_str());
            run.case("setx", &format!("({kind} {} {})", show_opt(default), cps(&t)), &ans, nontrivial);
            if key == CATEGORIES_KEY && t.is_ascii() {
                // the categories kind has its own model op: FromStr then Display
                let a = match (&res, &shown) {
                    (Ok(()), Some(s)) => format!("ok {}", cps(s)),
                    _ => "err".to_string(),
                };
                run.case("cats", &cps(&t), &a, true);
            }
            match res {
                Ok(()) => {
                    // oracle: setting the reported text again changes nothing anywhere
                    if let Some(s) = &shown {
                        let mut cfg2 = cfg.clone();
                        let r2 = cfg2.set(key, s);
                        let ok = r2.is_ok() && snapshot(&cfg2) == after;
                        run.oracle(ok, &format!("reset-from-shown fresh key={key} text={}", cps(s)), &format!("after set({key:?}, {t:?}) the option reports {s:?}; set({key:?}, {s:?}) gave {r2:?} and changed {:?}", diff(&after, &snapshot(&cfg2))));
                    }
                    // only this key may change (fan-out of the master switch is a separate finding)
                    let others_changed: Vec<String> = after.iter().filter(|(k, v)| *k != key && before.get(*k) != Some(*v)).map(|(k, _)| k.clone()).collect();
                    // (the master switch enable_dynamic_filter_pushdown documents its fan-out; the
                    // property only speaks about re-setting reported values, checked above/below)
                    let master = key == "datafusion.optimizer.enable_dynamic_filter_pushdown";
                    run.oracle(master || others_changed.is_empty(), &format!("set-changes-other-keys key={key}"), &format!("set({key:?}, {t:?}) also changed {others_changed:?}"));
                }
                Err(_) => {
                    let tag = if default.is_none() { "none-option" } else { "value" };
                    run.oracle(after == before, &format!("invalid-changes-config {tag} key={key} text={}", cps(&t)), &format!("set({key:?}, {t:?}) was rejected but changed {:?}", diff(&before, &after)));
                }
            }
        }
    }
    kinds
}

fn diff(a: &BTreeMap<String, Option<String>>, b: &BTreeMap<String, Option<String>>) -> Vec<(String, Option<String>, Option<String>)> {
    a.iter().filter(|(k, v)| b.get(*k) != Some(*v)).map(|(k, v)| (k.clone(), v.clone(), b.get(k).cloned().flatten())).collect()
}

/// `small`: values that are safe to *execute queries* with (SET/SHOW runs SQL: a huge
/// target_partitions or batch size would make the engine allocate accordingly)
fn valid_text(key: &str, kind: &str, rng: &mut Rng, small: bool) -> String {
    let k = kind.trim_start_matches("(opt ").trim_start_matches("(opts ");
    if key == CATEGORIES_KEY {
        return match rng.below(6) {
            0 => "all".to_string(),
            1 => "none".to_string(),
            _ => {
                let ls = category_lists();
                rng.pick(&ls).join(",")
            }
        };
    }
    if is_f64_key(key, kind) {
        return rng.pick(&["0", "1", "0.5", "0.001", "0.25", "2.5", "1e-3"]).to_string();
    }
    if k.starts_with("bool") || k.starts_with("sbool") {
        rng.pick(&["true", "false"]).to_string()
    } else if k.starts_with("(uint") || k.starts_with("(umin") || k.starts_with("(par") {
        if small { rng.pick(&["2", "3", "7", "64"]).to_string() } else { rng.pick(&["2", "3", "7", "64", "1024", "65536", "4294967295"]).to_string() }
    } else if k.starts_with("(int") {
        rng.pick(&["-1", "0", "5", "2147483647"]).to_string()
    } else if k.starts_with("sel") {
        rng.pick(&["0", "20", "100"]).to_string()
    } else if k.starts_with("str") || k.starts_with("lstr") {
        rng.pick(&["abc", "zstd(3)", "snappy", "x y", ""]).to_string()
    } else if k.contains("dialect") {
        rng.pick(&["mysql", "Postgres", "spark"]).to_string()
    } else if k.contains("spill") {
        rng.pick(&["zstd", "lz4_frame", ""]).to_string()
    } else if k.contains("mapkey") {
        rng.pick(&["exception", "LAST_WIN"]).to_string()
    } else if k.contains("explain") {
        rng.pick(&["tree", "indent", "pgjson"]).to_string()
    } else if k.contains("metric") {
        rng.pick(&["dev", "summary"]).to_string()
    } else if k.contains("writer") {
        rng.pick(&["1.0", "2.0"]).to_string()
    } else if k.contains("duration") {
        rng.pick(&["pretty", "ISO8601"]).to_string()
    } else {
        rng.pick(&["0.5", "1", "all", "rows,bytes", "none"]).to_string()
    }
}

/// random histories of sets, then: re-setting every key from its reported text is the identity
fn histories(run: &mut Run, rng: &mut Rng, kinds: &[(String, String, Option<String>)]) {
    let n = run.budget(60, 500);
    for h in 0..n {
        let mut cfg = ConfigOptions::default();
        let steps = 1 + rng.below(12);
        let mut hist = vec![];
        for _ in 0..steps {
            // make the dynamic-filter group likely
            let (key, kind, _) = if rng.chance(1, 3) {
                let group: Vec<&(String, String, Option<String>)> = kinds.iter().filter(|(k, _, _)| k.contains("dynamic_filter_pushdown")).collect();
                *rng.pick(&group)
            } else {
                rng.pick(kinds)
            };
            let t = valid_text(key, kind, rng, false);
            if cfg.set(key, &t).is_ok() {
                hist.push(format!("{key}={t}"));
            }
        }
        let base = snapshot(&cfg);
        // correspondence for the fan-out group
        let b = |k: &str| base.get(k).cloned().flatten().map(|v| if v == "true" { "t" } else { "f" }).unwrap_or("?");
        let (m, a, bb, c) = (
            b("datafusion.optimizer.enable_dynamic_filter_pushdown"),
            b("datafusion.optimizer.enable_topk_dynamic_filter_pushdown"),
            b("datafusion.optimizer.enable_join_dynamic_filter_pushdown"),
            b("datafusion.optimizer.enable_aggregate_dynamic_filter_pushdown"),
        );
        for t in ["true", "false", "TRUE", "x"] {
            let mut c2 = cfg.clone();
            let r = c2.set("datafusion.optimizer.enable_dynamic_filter_pushdown", t);
            let s2 = snapshot(&c2);
            let g = |k: &str| s2.get(k).cloned().flatten().map(|v| if v == "true" { "t" } else { "f" }).unwrap_or("?");
            let ans = format!(
                "{} {} {} {} {}",
                if r.is_ok() { "ok" } else { "err" },
                g("datafusion.optimizer.enable_dynamic_filter_pushdown"),
                g("datafusion.optimizer.enable_topk_dynamic_filter_pushdown"),
                g("datafusion.optimizer.enable_join_dynamic_filter_pushdown"),
                g("datafusion.optimizer.enable_aggregate_dynamic_filter_pushdown")
            );
            run.case("fan", &format!("({m} {a} {bb} {c} {})", cps(t)), &ans, m != a || m != bb || m != c);
        }
        for (key, _, _) in kinds {
            if let Some(Some(s)) = base.get(key) {
                let mut c2 = cfg.clone();
                let r = c2.set(key, s);
                let after = snapshot(&c2);
                let ok = r.is_ok() && after == base;
                run.oracle(
                    ok,
                    &format!("reset-from-shown history key={key}"),
                    &format!("history #{h} {hist:?}: {key} reports {s:?}; set({key:?}, {s:?}) gave {r:?} and changed {:?}", diff(&base, &after)),
                );
            }
        }
    }
}

fn show_sql(rt: &tokio::runtime::Runtime, ctx: &SessionContext, key: &str) -> Result<Option<String>, String> {
    rt.block_on(async {
        let df = ctx.sql(&format!("SHOW {key}")).await.map_err(|e| e.to_string())?;
        let bs = df.collect().await.map_err(|e| e.to_string())?;
        for b in &bs {
            if b.num_rows() > 0 {
                let col = b.column(1);
                let s = arrow::util::display::array_value_to_string(col, 0).map_err(|e| e.to_string())?;
                return Ok(if col.is_null(0) { None } else { Some(s) });
            }
        }
        Err("no row".into())
    })
}

fn set_sql(rt: &tokio::runtime::Runtime, ctx: &SessionContext, key: &str, text: &str) -> Result<(), String> {
    rt.block_on(async {
        let q = format!("SET {key} = '{}'", text.replace('\'', "''"));
        ctx.sql(&q).await.map_err(|e| e.to_string())?.collect().await.map_err(|e| e.to_string())?;
        Ok(())
    })
}

fn set_show(run: &mut Run, rng: &mut Rng, kinds: &[(String, String, Option<String>)]) {
    let rt = tokio::runtime::Builder::new_current_thread().enable_all().build().unwrap();
    let per_key = run.budget(2, 12);
    for (key, kind, _) in kinds {
        for _ in 0..per_key {
            let t = valid_text(key, kind, rng, true);
            let ctx = SessionContext::new_with_config(SessionConfig::new().with_information_schema(true));
            let mut cfg = ctx.copied_config().options().as_ref().clone();
            let r_sql = set_sql(&rt, &ctx, key, &t);
            let r_cfg = cfg.set(key, &t);
            if r_sql.is_ok() != r_cfg.is_ok() {
                run.oracle(false, &format!("set-sql-vs-api key={key} text={}", cps(&t)), &format!("SQL SET gave {r_sql:?}, ConfigOptions::set gave {r_cfg:?}"));
                continue;
            }
            if r_sql.is_err() {
                continue;
            }
            // SHOW itself needs information_schema; switching it off is not observable through SHOW
            if key == "datafusion.catalog.information_schema" && value_of(&cfg, key).as_deref() == Some("false") {
                continue;
            }
            let want = value_of(&cfg, key);
            let got = show_sql(&rt, &ctx, key);
            run.oracle(got.as_ref().ok() == Some(&want), &format!("set-then-show key={key} text={}", cps(&t)), &format!("SET {key} = {t:?}; SHOW reports {got:?}, ConfigOptions reports {want:?}"));
            if let Ok(Some(s)) = &got {
                let r2 = set_sql(&rt, &ctx, key, s);
                let got2 = show_sql(&rt, &ctx, key);
                run.oracle(r2.is_ok() && got2.as_ref().ok() == Some(&Some(s.clone())), &format!("show-set-fixpoint key={key} text={}", cps(s)), &format!("SHOW gave {s:?}; SET from it gave {r2:?}; SHOW then {got2:?}"));
            }
        }
    }
    // runtime options (sizes with units, durations): SET, SHOW, SET from the SHOWn text, SHOW again
    let runtime: [(&str, &[&str]); 5] = [
        ("datafusion.runtime.memory_limit", &["1K", "10M", "2G", "1.5G", "512K"]),
        ("datafusion.runtime.max_temp_directory_size", &["1K", "100M", "1G"]),
        ("datafusion.runtime.metadata_cache_limit", &["1K", "50M", "1G", "0"]),
        ("datafusion.runtime.list_files_cache_limit", &["1K", "1M", "0"]),
        ("datafusion.runtime.list_files_cache_ttl", &["1s", "90s", "2m", "1m30s"]),
    ];
    for (key, vals) in runtime {
        for t in vals {
            let ctx = SessionContext::new_with_config(SessionConfig::new().with_information_schema(true));
            if let Err(e) = set_sql(&rt, &ctx, key, t) {
                run.oracle(false, &format!("runtime-set-rejected key={key} text={t}"), &e);
                continue;
            }
            let s1 = show_sql(&rt, &ctx, key);
            run.count("runtime-set-show");
            match &s1 {
                Ok(Some(s)) => {
                    let r2 = set_sql(&rt, &ctx, key, s);
                    let s2 = show_sql(&rt, &ctx, key);
                    run.oracle(r2.is_ok() && s2 == s1, &format!("runtime-show-set-fixpoint key={key} text={t}"), &format!("SET {key}={t:?}; SHOW {s:?}; SET from it {r2:?}; SHOW {s2:?}"));
                }
                other => run.oracle(false, &format!("runtime-show key={key} text={t}"), &format!("{other:?}")),
            }
        }
    }
}

fn decimals(run: &mut Run, rng: &mut Rng) {
    let mut ns: Vec<u64> = vec![0, 1, 9, 10, 11, 99, 100, 101, 999, 1000, u32::MAX as u64, u32::MAX as u64 + 1, i64::MAX as u64, i64::MAX as u64 + 1, u64::MAX, u64::MAX - 1];
    for k in 0..20 {
        ns.push(10u64.pow(k).wrapping_sub(1));
        ns.push(10u64.pow(k));
    }
    let n = run.budget(1500, 30_000);
    for _ in 0..n {
        let bits = rng.below(65);
        ns.push(if bits == 0 { 0 } else { rng.next() >> (64 - bits) });
    }
    for x in ns {
        run.case("nat", &x.to_string(), &cps(&x.to_string()), x >= 10);
        let i = x as i64;
        run.case("int", &i.to_string(), &cps(&i.to_string()), i < 0);
    }
}

/// Values the configuration can HOLD (built through the public fields, not through `set`): the text
/// `entries()` reports for them must set the option back to exactly that value — on the whole
/// listing — and `SET` + `SHOW` must report that same text.
fn reported_values(run: &mut Run, kinds: &[(String, String, Option<String>)]) {
    use datafusion_common::format::{ExplainAnalyzeCategories, MetricCategory};
    let rt = tokio::runtime::Builder::new_current_thread().enable_all().build().unwrap();
    let cat = |s: &str| match s {
        "rows" => MetricCategory::Rows,
        "bytes" => MetricCategory::Bytes,
        "timing" => MetricCategory::Timing,
        _ => MetricCategory::Uncategorized,
    };
    let mut values: Vec<(String, ExplainAnalyzeCategories)> = vec![("all".into(), ExplainAnalyzeCategories::All), ("none".into(), ExplainAnalyzeCategories::Only(vec![]))];
    for l in category_lists() {
        values.push((l.join(","), ExplainAnalyzeCategories::Only(l.iter().map(|s| cat(s)).collect())));
    }
    // repeated, but never adjacent, categories survive `dedup()`
    for l in [vec!["rows", "bytes", "rows"], vec!["timing", "rows", "timing", "rows"]] {
        values.push((l.join(","), ExplainAnalyzeCategories::Only(l.iter().map(|s| cat(s)).collect())));
    }
    let mut check = |run: &mut Run, key: &str, cfg: ConfigOptions, label: &str| {
        let base = snapshot(&cfg);
        let Some(Some(text)) = base.get(key).cloned() else {
            run.oracle(false, &format!("reported-value-has-no-text key={key} value={label}"), "");
            return;
        };
        let mut c2 = cfg.clone();
        let r = c2.set(key, &text);
        let after = snapshot(&c2);
        run.count("reported-value");
        run.oracle(
            r.is_ok() && after == base,
            &format!("reset-from-shown held-value key={key} text={}", cps(&text)),
            &format!("an option holding {label} reports {text:?}; set({key:?}, {text:?}) gave {r:?} and changed {:?}", diff(&base, &after)),
        );
        // SET from the reported text, then SHOW: the same text
        let ctx = SessionContext::new_with_config(SessionConfig::new().with_information_schema(true));
        let r_sql = set_sql(&rt, &ctx, key, &text);
        let got = show_sql(&rt, &ctx, key);
        run.oracle(
            r_sql.is_ok() && got.as_ref().ok() == Some(&Some(text.clone())),
            &format!("set-reported-text-then-show key={key} text={}", cps(&text)),
            &format!("SET {key} = {text:?} gave {r_sql:?}; SHOW reports {got:?}"),
        );
    };
    for (label, v) in values {
        let mut cfg = ConfigOptions::default();
        cfg.explain.analyze_categories = v;
        check(run, CATEGORIES_KEY, cfg, &label);
    }
    // a held list with ADJACENT duplicates is the one value whose reported text does not set it back
    // (`cats.dedup()` in FromStr): recorded, not a failure — it denotes the same set of categories
    {
        let mut cfg = ConfigOptions::default();
        cfg.explain.analyze_categories = ExplainAnalyzeCategories::Only(vec![MetricCategory::Rows, MetricCategory::Rows]);
        let text = value_of(&cfg, CATEGORIES_KEY).unwrap_or_default();
        let mut c2 = cfg.clone();
        let _ = c2.set(CATEGORIES_KEY, &text);
        run.note(&format!("analyze_categories holding Only([Rows, Rows]) reports {text:?}; setting that text stores a value reporting {:?} (adjacent duplicates are removed by FromStr)", value_of(&c2, CATEGORIES_KEY)));
    }
    // f64 options: whatever text `Display for f64` gives is what entries() reports
    let floats = [0.0f64, 1.0, 0.5, 1e-3, 0.25, 2.5, 100.0, 1e300, 123456789.125, 0.1, 1.0 / 3.0, 5e-324, f64::MAX, -1.5];
    for (key, kind, _) in kinds {
        if !is_f64_key(key, kind) {
            continue;
        }
        for x in floats {
            let text = x.to_string();
            let mut cfg = ConfigOptions::default();
            if cfg.set(key, &text).is_err() {
                // range-restricted option: not a value it can hold
                continue;
            }
            let shown = value_of(&cfg, key);
            run.oracle(shown.as_deref() == Some(text.as_str()), &format!("f64-display-text-reported key={key} text={text}"), &format!("set({key:?}, {text:?}) reports {shown:?}"));
            check(run, key, cfg, &text);
        }
    }
}

pub fn run(run: &mut Run, args: &Args) {
    let mut rng = Rng::new(args.seed);
    let kinds = per_key(run, &mut rng);
    run.add("keys", kinds.len() as u64);
    histories(run, &mut rng, &kinds);
    set_show(run, &mut rng, &kinds);
    reported_values(run, &kinds);
    decimals(run, &mut rng);
}
