//! C01 — SQL query results agree with the reference relational semantics.
//!
//! A grammar-based generator (`sqlgen::QueryGen`) produces query ASTs of the modelled fragment.
//! Each AST is rendered TWICE: as SQL text executed by `SessionContext::sql(..).collect()` over
//! small multi-partition `MemTable`s (NULL-heavy, duplicate-heavy, boundary values), and as a
//! model `Plan` s-expression judged by the Lean reference (`DfModel.Drv.C01`): the engine's rows
//! travel inside the request and the model answers `ok` / `bad:<its own result>` /
//! `unsupported` (refinement: where the reference raises a run-time error the engine may either
//! fail or — having skipped the offending rows — succeed; see notes/C01.md).
//!
//! Implementation-level oracles (no model): LIMIT never returns more than `fetch` rows; the
//! multiplicities of INTERSECT ALL / EXCEPT ALL computed from the engine's own operand results.
use std::collections::{BTreeMap, BTreeSet};
use std::sync::Arc;
use std::time::Duration;

use datafusion::datasource::MemTable;
use datafusion::prelude::{SessionConfig, SessionContext};
use hutil::{Args, Rng, Run};

use crate::sqlgen::*;

pub fn make_ctx(rng: &mut Rng, db: &[TableDef]) -> SessionContext {
    let tp = 1 + rng.below(4) as usize;
    let bs = *rng.pick(&[1usize, 2, 3, 8192]);
    let cfg = SessionConfig::new().with_target_partitions(tp).with_batch_size(bs);
    let ctx = SessionContext::new_with_config(cfg);
    for t in db {
        let parts = partitions_of(rng, t);
        let mt = MemTable::try_new(schema_of(&t.cols), parts).unwrap();
        ctx.register_table(t.name.as_str(), Arc::new(mt)).unwrap();
    }
    ctx
}

/// run one SQL text; `Ok(rows)` or `Err(error text)`
pub fn run_sql(rt: &tokio::runtime::Runtime, ctx: &SessionContext, sql: &str) -> Result<Vec<Vec<Val>>, String> {
    let ctx = ctx.clone();
    let sql = sql.to_string();
    let r = hutil::catch(std::panic::AssertUnwindSafe(move || {
        rt.block_on(async move {
            let fut = async {
                let df = ctx.sql(&sql).await.map_err(|e| e.to_string())?;
                let batches = df.collect().await.map_err(|e| e.to_string())?;
                rows_of_batches(&batches)
            };
            match tokio::time::timeout(Duration::from_secs(30), fut).await {
                Ok(r) => r,
                Err(_) => Err("HANG: no result within 30 s".to_string()),
            }
        })
    }));
    match r {
        Ok(r) => r,
        Err(p) => Err(format!("PANIC: {p}")),
    }
}

fn counts(rows: &[Vec<Val>]) -> BTreeMap<Vec<Val>, usize> {
    let mut m = BTreeMap::new();
    for r in rows {
        *m.entry(r.clone()).or_insert(0) += 1;
    }
    m
}

pub fn run(run: &mut Run, args: &Args) {
    let mut rng = Rng::new(args.seed);
    hutil::quiet_panics();
    let rt = tokio::runtime::Builder::new_current_thread().enable_all().build().unwrap();
    let n_queries = run.budget(330, 6000);
    let n_data = if run.thorough() { 3 } else { 2 };
    let mut construct_hits: BTreeMap<&'static str, u64> = BTreeMap::new();
    let mut n_total = 0u64;
    for qi in 0..n_queries {
        let mut db = gen_db(&mut rng, 8);
        let depth = if run.thorough() { 2 + rng.below(2) as u32 } else { 1 + rng.below(2) as u32 };
        let err_pct = *rng.pick(&[0u64, 0, 10, 30]);
        let q = {
            let mut qg = QueryGen::new(&db, err_pct);
            qg.gen_query(&mut rng, depth)
        };
        let sql = q.sql();
        let plan = q.plan();
        let mut cs = BTreeSet::new();
        q.constructs(&mut cs);
        for c in &cs {
            *construct_hits.entry(c).or_insert(0) += 1;
        }
        n_total += 1;
        let structural = cs.iter().any(|c| c.starts_with("join-") || c.contains("subquery") || c.contains("exists") || c.starts_with("group") || c.starts_with("aggregate") || c.contains("union") || c.contains("intersect") || c.contains("except"));
        let mode = if q.order.is_empty() {
            "bag".to_string()
        } else if q.order_is_total() {
            "seq".to_string()
        } else {
            format!("(sorted {})", q.order.iter().map(|o| format!("({} {} {})", o.col, if o.desc { "t" } else { "f" }, if o.nulls_first.unwrap_or(o.desc) { "t" } else { "f" })).collect::<Vec<_>>().join(" "))
        };
        for ds in 0..n_data {
            if ds > 0 {
                for t in db.iter_mut() {
                    fill_rows(&mut rng, t, 8);
                }
            }
            let ctx = make_ctx(&mut rng, &db);
            let res = run_sql(&rt, &ctx, &sql);
            let dbs = db_sexp(&db);
            let mut skip_model = false;
            let impl_sexp = match &res {
                Ok(rows) => {
                    run.count("engine:ok");
                    if rows.is_empty() {
                        run.count("engine:ok-empty");
                    }
                    format!("(ok {})", rows_sexp(rows))
                }
                Err(m) => {
                    let c = err_class(m);
                    run.count(&format!("engine:err-{c}"));
                    if m.starts_with("HANG") || m.starts_with("PANIC") {
                        run.oracle(false, &format!("engine {} on `{sql}`", &m[..4]), &format!("{m}; db={dbs}"));
                        continue;
                    }
                    if c == "plan" || c == "notimpl" || c == "other" {
                        // not a run-time error class of the reference: the engine rejects a query of
                        // the fragment.  Reported as a disagreement by the model judge (class kept).
                        if run.samples.len() < 5 {
                            run.note(&format!("engine rejected `{sql}`: {}", m.chars().take(300).collect::<String>()));
                        }
                    }
                    format!("(err {c})")
                }
            };
            // ---------------- implementation-level oracles
            if let (Ok(rows), Some((_, Some(f)))) = (&res, q.limit) {
                run.oracle(rows.len() as u64 <= f, &format!("limit-exceeded `{sql}`"), &format!("{} rows returned with LIMIT {f}; db={dbs}", rows.len()));
            }
            if let Body::SetOp { kind, all: true, l, r } = &q.body {
                if *kind != SetKind::Union && q.limit.is_none() {
                    if let (Ok(rows), Ok(lr), Ok(rr)) = (&res, run_sql(&rt, &ctx, &l.sql()), run_sql(&rt, &ctx, &r.sql())) {
                        let (cl, cr, co) = (counts(&lr), counts(&rr), counts(rows));
                        let mut bad = None;
                        for (row, nl) in &cl {
                            let nr = cr.get(row).copied().unwrap_or(0);
                            let want = if *kind == SetKind::Intersect { (*nl).min(nr) } else { nl.saturating_sub(nr) };
                            let got = co.get(row).copied().unwrap_or(0);
                            if want != got {
                                bad = Some(format!("row {} occurs {nl}x on the left, {nr}x on the right: expected {want}x in the result, engine returned it {got}x", row_sexp(row)));
                                break;
                            }
                        }
                        for row in co.keys() {
                            if !cl.contains_key(row) && bad.is_none() {
                                bad = Some(format!("row {} is in the result but not in the left operand", row_sexp(row)));
                            }
                        }
                        let kname = if *kind == SetKind::Intersect { "INTERSECT ALL" } else { "EXCEPT ALL" };
                        run.oracle(bad.is_none(), &format!("setop-all-multiplicity {kname} `{sql}` db={dbs}"), &bad.clone().unwrap_or_default());
                        if bad.is_some() {
                            // the deviation is established on the engine's own outputs; do not report
                            // the same thing a second time through the model
                            skip_model = true;
                            run.count("setop-all-multiplicity-deviation");
                        }
                    }
                }
            }
            if skip_model {
                continue;
            }
            let nontrivial = structural && !matches!(&res, Ok(r) if r.is_empty());
            run.case("query", &format!("({mode} {plan} {dbs} {impl_sexp})"), "ok", nontrivial);
            if qi < 3 && ds == 0 {
                run.note(&format!("sample SQL: {sql}"));
            }
        }
    }
    for (c, n) in &construct_hits {
        run.add(&format!("construct:{c}"), *n);
    }
    run.add("queries", n_total);
}
