//! C01 — SQL query results agree with the reference relational semantics.
//!
//! A grammar-based generator (`sqlgen::QueryGen`) produces query ASTs of the modelled fragment.
//! Each AST is rendered TWICE: as SQL text executed by `SessionContext::sql(..).collect()` over
//! small multi-partition `MemTable`s (NULL-heavy, duplicate-heavy, boundary values), and as a
//! model `Plan` s-expression judged by the Lean reference (`DfModel.Drv.C01`): the engine's rows
//! travel inside the request and the model answers `ok` / `bad:<its own result>` /
//! `unsupported` (refinement: where the reference raises a run-time error the engine may either
//! fail or — having skipped the offending rows — succeed; see notes/C01.md).
//!
//! Implementation-level oracles (no model): LIMIT never returns more than `fetch` rows; the
//! multiplicities of INTERSECT ALL / EXCEPT ALL computed from the engine's own operand results.
use std::collections::{BTreeMap, BTreeSet};
use std::sync::Arc;
use std::time::Duration;

use datafusion::datasource::MemTable;
use datafusion::prelude::{SessionConfig, SessionContext};
use hutil::{Args, Rng, Run};

use crate::sqlgen::*;

pub fn make_ctx(rng: &mut Rng, db: &[TableDef]) -> SessionContext {
    let tp = 1 + rng.below(4) as usize;
    let bs = *rng.pick(&[1usize, 2, 3, 8192]);
    let cfg = SessionConfig::new().with_target_partitions(tp).with_batch_size(bs);
    let ctx = SessionContext::new_with_config(cfg);
    for t in db {
        let parts = partitions_of(rng, t);
        let mt = MemTable::try_new(schema_of(&t.cols), parts).unwrap();
        ctx.register_table(t.name.as_str(), Arc::new(mt)).unwrap();
    }
    ctx
}

/// run one SQL text; `Ok(rows)` or `Err(error text)`
pub fn run_sql(rt: &tokio::runtime::Runtime, ctx: &SessionContext, sql: &str) -> Result<Vec<Vec<Val>>, String> {
    let ctx = ctx.clone();
    let sql = sql.to_string();
    let r = hutil::catch(std::panic::AssertUnwindSafe(move || {
        rt.block_on(async move {
            let fut = async {
                let df = ctx.sql(&sql).await.map_err(|e| e.to_string())?;
                let batches = df.collect().await.map_err(|e| e.to_string())?;
                rows_of_batches(&batches)
            };
            match tokio::time::timeout(Duration::from_secs(30), fut).await {
                Ok(r) => r,
                Err(_) => Err("HANG: no result within 30 s".to_string()),
            }
        })
    }));
    match r {
        Ok(r) => r,
        Err(p) => Err(format!("PANIC: {p}")),
    }
}

/// stable name of an engine refusal / internal failure (used in oracle signatures)
fn reject_kind(m: &str) -> String {
    if m.contains("Physical input schema should be the same") {
        "physical-schema-mismatch".into()
    } else if m.contains("SanityCheckPlan") {
        "sanity-check-plan".into()
    } else if m.contains("duplicate unqualified field name") {
        "duplicate-field-name".into()
    } else if m.contains("aggregate_statistics") {
        "aggregate-statistics-assertion".into()
    } else {
        let t: String = m.chars().filter(|c| c.is_ascii_alphabetic() || *c == ' ').take(60).collect();
        format!("other:{}", t.trim().replace(' ', "-"))
    }
}

/// does some WHERE clause contain `x NOT IN (sub-query)` elsewhere than as a top-level conjunct?
/// (the engine plans that position as a mark join, which is not NULL-aware: known finding)
fn notin_not_conjunct(q: &Query) -> bool {
    fn is_notin(e: &Expr) -> bool {
        match e {
            Expr::Sub { kind: SubKind::In, neg: true, .. } => true,
            Expr::Not(a) => matches!(&**a, Expr::Sub { kind: SubKind::In, neg: false, .. }),
            _ => false,
        }
    }
    /// `<constant> NOT IN (sub-query)`: the comparison is pushed into the sub-query as a filter,
    /// which removes its NULL rows before the (then key-less) anti join
    /// constant, or simplified to a constant (`COALESCE(<non-NULL literal>, …)`)
    /// a needle that is (or may be simplified to) a constant: anything but a bare column
    /// (`x + NULL`, `CASE WHEN false THEN x END`, `COALESCE('a', x)` … are folded to constants)
    fn is_const(x: &Expr) -> bool {
        !matches!(x, Expr::Col(_))
    }
    fn const_needle(e: &Expr) -> bool {
        match e {
            Expr::Sub { kind: SubKind::In, neg: true, x: Some(x), .. } => is_const(x),
            Expr::Not(a) => matches!(&**a, Expr::Sub { kind: SubKind::In, neg: false, x: Some(x), .. } if is_const(x)),
            _ => false,
        }
    }
    fn nested(e: &Expr) -> bool {
        // any NOT IN sub-query inside e (e itself included)
        if is_notin(e) {
            return true;
        }
        match e {
            Expr::Bin(_, a, b) | Expr::Nullif(a, b) => nested(a) || nested(b),
            Expr::Not(a) | Expr::Neg(a) | Expr::Is(_, _, a) => nested(a),
            Expr::Case(o, ws, el) => o.as_ref().map(|x| nested(x)).unwrap_or(false) || ws.iter().any(|(w, t)| nested(w) || nested(t)) || el.as_ref().map(|x| nested(x)).unwrap_or(false),
            Expr::Coalesce(xs) => xs.iter().any(nested),
            _ => false,
        }
    }
    fn conj(e: &Expr) -> bool {
        match e {
            Expr::Bin(Op::And, a, b) => conj(a) || conj(b),
            e if is_notin(e) => const_needle(e),
            e => nested(e),
        }
    }
    fn from(f: &From) -> bool {
        match f {
            From::Table { .. } => false,
            From::Join { l, r, .. } => from(l) || from(r),
            From::Derived { q, .. } => notin_not_conjunct(q),
        }
    }
    match &q.body {
        Body::Select(s) => s.where_.as_ref().map(conj).unwrap_or(false) || from(&s.from),
        Body::SetOp { l, r, .. } => notin_not_conjunct(l) || notin_not_conjunct(r),
    }
}

/// a comparison / IN list / BETWEEN of `TRY_CAST(e AS integer)` with literals somewhere in the
/// query: `unwrap_cast` rewrites it to a comparison on `e` itself, which differs when the TRY_CAST
/// is narrowing and yields NULL (known finding, shared with C04)
fn trycast_literal_cmp(q: &Query) -> bool {
    let mut hit = false;
    // a TRY_CAST to an integer type, possibly under further (implicit or explicit) casts
    fn is_tc(e: &Expr) -> bool {
        match e {
            Expr::Cast { try_: true, ty: Ty::Int(_), .. } => true,
            Expr::Cast { e, .. } => is_tc(e),
            _ => false,
        }
    }
    // a constant expression (folded to a literal before unwrap_cast runs)
    let is_lit = |e: &Expr| !e.has_col();
    let _ = q.map_exprs(&mut |e: Expr| {
        match &e {
            Expr::Bin(op, a, b) if Op::CMP.contains(op) || matches!(op, Op::Distinct | Op::NotDistinct) => {
                if (is_tc(a) && is_lit(b)) || (is_lit(a) && is_tc(b)) {
                    hit = true;
                }
            }
            Expr::In(_, a, l) if is_tc(a) && l.iter().all(|x| is_lit(x)) => hit = true,
            Expr::Between(_, a, lo, hi) if is_tc(a) && (is_lit(lo) || is_lit(hi)) => hit = true,
            _ => {}
        }
        e
    });
    hit
}

/// `x NOT IN (…, NULL, …)` with a NULL literal in the list (never TRUE): the engine simplifies it
/// to a conjunction of `<>` that drops the NULL (known finding)
fn notin_list_with_null(q: &Query) -> bool {
    let mut hit = false;
    let has_null = |l: &Vec<Expr>| l.iter().any(|x| matches!(x, Expr::Lit(Val::Null, _, _)));
    let _ = q.map_exprs(&mut |e: Expr| {
        match &e {
            Expr::In(true, _, l) if has_null(l) => hit = true,
            Expr::Not(a) => {
                if let Expr::In(false, _, l) = &**a {
                    if has_null(l) {
                        hit = true;
                    }
                }
            }
            _ => {}
        }
        e
    });
    hit
}

/// a derived table that is a global aggregate with a COUNT: its output column is declared NOT
/// NULL, and nullability-driven rewrites above it (outer-join NULL extension, IS NULL on a group
/// key / HAVING) go wrong (known findings)
fn derived_global_count(q: &Query) -> bool {
    fn from(f: &From) -> bool {
        match f {
            From::Table { .. } => false,
            From::Join { l, r, .. } => from(l) || from(r),
            From::Derived { q, .. } => {
                let here = match &q.body {
                    Body::Select(s) => matches!(&s.group, Some(g) if g.keys.is_empty() && g.aggs.iter().any(|a| matches!(a.f, AggFn::Count | AggFn::CountStar))),
                    _ => false,
                };
                here || derived_global_count(q)
            }
        }
    }
    match &q.body {
        Body::Select(s) => from(&s.from),
        Body::SetOp { l, r, .. } => derived_global_count(l) || derived_global_count(r),
    }
}

fn counts(rows: &[Vec<Val>]) -> BTreeMap<Vec<Val>, usize> {
    let mut m = BTreeMap::new();
    for r in rows {
        *m.entry(r.clone()).or_insert(0) += 1;
    }
    m
}

pub fn run(run: &mut Run, args: &Args) {
    let mut rng = Rng::new(args.seed);
    hutil::quiet_panics();
    let rt = tokio::runtime::Builder::new_current_thread().enable_all().build().unwrap();
    // ad-hoc reproduction of a finding on the real engine: C01_ADHOC_SQL="stmt; stmt; …"
    if let Ok(sqls) = std::env::var("C01_ADHOC_SQL") {
        let ctx = SessionContext::new_with_config(SessionConfig::new().with_target_partitions(1));
        for sql in sqls.split(';').map(|s| s.trim()).filter(|s| !s.is_empty()) {
            match run_sql(&rt, &ctx, sql) {
                Ok(rows) => println!("{sql}\n  => {} row(s): {}", rows.len(), rows_sexp(&rows)),
                Err(m) => println!("{sql}\n  => ERROR {m}"),
            }
        }
        return;
    }
    let n_queries = run.budget(330, 2500);
    let n_data = if run.thorough() { 3 } else { 2 };
    let mut construct_hits: BTreeMap<&'static str, u64> = BTreeMap::new();
    let mut n_total = 0u64;
    for qi in 0..n_queries {
        let mut db = gen_db(&mut rng, 8);
        let depth = if run.thorough() { 2 + rng.below(2) as u32 } else { 1 + rng.below(2) as u32 };
        let err_pct = *rng.pick(&[0u64, 0, 10, 30]);
        let q = {
            let mut qg = QueryGen::new(&db, err_pct);
            qg.gen_query(&mut rng, depth)
        };
        let sql = q.sql();
        let plan = q.plan();
        let notin_nc = notin_not_conjunct(&q);
        if notin_nc {
            run.count("shape:not-in-subquery-not-conjunct-or-constant-needle");
        }
        let trycast_cmp = trycast_literal_cmp(&q);
        if trycast_cmp {
            run.count("shape:try-cast-compared-with-literal");
        }
        let inlist_case = {
            let mut hit = false;
            let _ = q.map_exprs(&mut |e: Expr| {
                if matches!(&e, Expr::In(..)) && crate::c33::inlist_const_case(&e) {
                    hit = true;
                }
                e
            });
            hit
        };
        if inlist_case {
            run.count("shape:in-list-with-case-element");
        }
        let notin_null = notin_list_with_null(&q);
        if notin_null {
            run.count("shape:not-in-list-with-null-literal");
        }
        let derived_cnt = derived_global_count(&q);
        if derived_cnt {
            run.count("shape:derived-global-count");
        }
        let mut cs = BTreeSet::new();
        q.constructs(&mut cs);
        for c in &cs {
            *construct_hits.entry(c).or_insert(0) += 1;
        }
        n_total += 1;
        let structural = cs.iter().any(|c| c.starts_with("join-") || c.contains("subquery") || c.contains("exists") || c.starts_with("group") || c.starts_with("aggregate") || c.contains("union") || c.contains("intersect") || c.contains("except"));
        let mode = if q.order.is_empty() {
            "bag".to_string()
        } else if q.order_is_total() {
            "seq".to_string()
        } else {
            format!("(sorted {})", q.order.iter().map(|o| format!("({} {} {})", o.col, if o.desc { "t" } else { "f" }, if o.nulls_first.unwrap_or(o.desc) { "t" } else { "f" })).collect::<Vec<_>>().join(" "))
        };
        for ds in 0..n_data {
            if ds > 0 {
                for t in db.iter_mut() {
                    fill_rows(&mut rng, t, 8);
                }
            }
            let ctx = make_ctx(&mut rng, &db);
            let res = run_sql(&rt, &ctx, &sql);
            let dbs = db_sexp(&db);
            let mut skip_model = false;
            let impl_sexp = match &res {
                Ok(rows) => {
                    run.count("engine:ok");
                    if rows.is_empty() {
                        run.count("engine:ok-empty");
                    }
                    format!("(ok {})", rows_sexp(rows))
                }
                Err(m) => {
                    let c = err_class(m);
                    run.count(&format!("engine:err-{c}"));
                    if m.starts_with("HANG") || m.starts_with("PANIC") {
                        run.oracle(false, &format!("engine {} on `{sql}`", &m[..4]), &format!("{m}; db={dbs}"));
                        continue;
                    }
                    if c == "plan" || c == "notimpl" || c == "other" {
                        // not a run-time error of the reference: the engine refuses / breaks on a
                        // query of the fragment — the property's "fails only where the reference
                        // fails" is violated whatever the model says: implementation-level oracle
                        eprintln!("REJECTED [{c}] `{sql}`: {}", m.chars().take(400).collect::<String>());
                        let kind = reject_kind(m);
                        run.count(&format!("engine-rejects:{kind}"));
                        run.oracle(false, &format!("engine-rejects:{kind} `{sql}` db={dbs}"), &m.chars().take(600).collect::<String>());
                        continue;
                    }
                    format!("(err {c})")
                }
            };
            // ---------------- implementation-level oracles
            if let (Ok(rows), Some((_, Some(f)))) = (&res, q.limit) {
                run.oracle(rows.len() as u64 <= f, &format!("limit-exceeded `{sql}`"), &format!("{} rows returned with LIMIT {f}; db={dbs}", rows.len()));
            }
            if let Body::SetOp { kind, all: true, l, r } = &q.body {
                if *kind != SetKind::Union && res.is_ok() {
                    // judged on the set operation itself (ORDER BY / LIMIT stripped)
                    let base = Query { body: q.body.clone(), order: vec![], limit: None };
                    let base_res = if q.limit.is_none() { res.clone() } else { run_sql(&rt, &ctx, &base.sql()) };
                    if let (Ok(rows), Ok(lr), Ok(rr)) = (&base_res, run_sql(&rt, &ctx, &l.sql()), run_sql(&rt, &ctx, &r.sql())) {
                        let (cl, cr, co) = (counts(&lr), counts(&rr), counts(rows));
                        let mut bad = None;
                        for (row, nl) in &cl {
                            let nr = cr.get(row).copied().unwrap_or(0);
                            let want = if *kind == SetKind::Intersect { (*nl).min(nr) } else { nl.saturating_sub(nr) };
                            let got = co.get(row).copied().unwrap_or(0);
                            if want != got {
                                bad = Some(format!("row {} occurs {nl}x on the left, {nr}x on the right: expected {want}x in the result, engine returned it {got}x", row_sexp(row)));
                                break;
                            }
                        }
                        for row in co.keys() {
                            if !cl.contains_key(row) && bad.is_none() {
                                bad = Some(format!("row {} is in the result but not in the left operand", row_sexp(row)));
                            }
                        }
                        let kname = if *kind == SetKind::Intersect { "INTERSECT ALL" } else { "EXCEPT ALL" };
                        run.oracle(bad.is_none(), &format!("setop-all-multiplicity {kname} `{sql}` db={dbs}"), &bad.clone().unwrap_or_default());
                        if bad.is_some() {
                            // the deviation is established on the engine's own outputs; do not report
                            // the same thing a second time through the model
                            skip_model = true;
                            run.count("setop-all-multiplicity-deviation");
                        }
                    }
                }
            }
            if skip_model {
                continue;
            }
            if std::env::var("C01_TRACE").is_ok() {
                eprintln!("CASE#{} `{sql}`", run.n_cases);
            }
            let nontrivial = structural && !matches!(&res, Ok(r) if r.is_empty());
            let op = if notin_nc {
                "query-notin-unaware-shape"
            } else if trycast_cmp {
                "query-trycast-literal-cmp"
            } else if inlist_case {
                "query-inlist-case-element"
            } else if notin_null {
                "query-notin-list-with-null"
            } else if derived_cnt {
                "query-derived-global-count"
            } else {
                "query"
            };
            run.case(op, &format!("({mode} {plan} {dbs} {impl_sexp})"), "ok", nontrivial);
            if qi < 3 && ds == 0 {
                run.note(&format!("sample SQL: {sql}"));
            }
        }
    }
    for (c, n) in &construct_hits {
        run.add(&format!("construct:{c}"), *n);
    }
    run.add("queries", n_total);
}
