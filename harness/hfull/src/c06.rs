//! C06 — grouped aggregation is exact under every aggregation strategy.
//!
//! Real `AggregateExec` pipelines are assembled by hand — Single, Partial→Final (coalesced),
//! Partial→hash Repartition→FinalPartitioned — over inputs with duplicate/NULL-heavy 1..3-column
//! integer keys, × input orderings (unordered, fully ordered on the keys, ordered on a prefix: the
//! early-emission paths) × batch sizes × partition counts × memory limits (spilling / early emission
//! of partial state) × skip-partial-aggregation settings; plus the same queries through SQL
//! `GROUP BY` with random session configurations.  The result bag is compared for equality with the
//! Lean specification (`agg` op) and, independently, with a Rust re-statement of the specification
//! (implementation-level oracle).
use std::collections::BTreeMap;
use std::sync::Arc;
use std::time::Duration;

use arrow::array::{Array, ArrayRef, Int64Array, RecordBatch};
use arrow::compute::SortOptions;
use arrow::datatypes::{DataType, Field, Schema, SchemaRef};
use datafusion::datasource::MemTable;
use datafusion::prelude::{SessionConfig, SessionContext};
use datafusion_datasource::memory::MemorySourceConfig;
use datafusion_datasource::source::DataSourceExec;
use datafusion_execution::TaskContext;
use datafusion_execution::runtime_env::RuntimeEnvBuilder;
use datafusion_expr::AggregateUDF;
use datafusion_physical_expr::aggregate::{AggregateExprBuilder, AggregateFunctionExpr};
use datafusion_physical_expr::expressions::col;
use datafusion_physical_expr::{LexOrdering, Partitioning, PhysicalExpr, PhysicalSortExpr};
use datafusion_physical_plan::ExecutionPlan;
use datafusion_physical_plan::aggregates::{AggregateExec, AggregateMode, PhysicalGroupBy};
use datafusion_physical_plan::coalesce_partitions::CoalescePartitionsExec;
use datafusion_physical_plan::repartition::RepartitionExec;
use hutil::{Args, Rng, Run};

type Cell = Option<i64>;
type Row = Vec<Cell>;

const FNS: &[&str] = &["count", "sum", "min", "max", "bit_and", "bit_or", "bit_xor", "count_distinct"];

fn udf(name: &str) -> (Arc<AggregateUDF>, bool) {
    use datafusion_functions_aggregate as f;
    match name {
        "count" => (f::count::count_udaf(), false),
        "count_distinct" => (f::count::count_udaf(), true),
        "sum" => (f::sum::sum_udaf(), false),
        "min" => (f::min_max::min_udaf(), false),
        "max" => (f::min_max::max_udaf(), false),
        "bit_and" => (f::bit_and_or_xor::bit_and_udaf(), false),
        "bit_or" => (f::bit_and_or_xor::bit_or_udaf(), false),
        "bit_xor" => (f::bit_and_or_xor::bit_xor_udaf(), false),
        _ => unreachable!(),
    }
}

fn cell(c: Cell) -> String {
    c.map(|x| x.to_string()).unwrap_or_else(|| "n".into())
}

/// Rust re-statement of the specification (wrapping sum), for the implementation-level oracle
fn spec(nk: usize, fns: &[&str], rows: &[Row]) -> Vec<String> {
    let mut groups: BTreeMap<Vec<Cell>, Vec<&Row>> = BTreeMap::new(); // Option<i64> orders None first
    for r in rows {
        groups.entry(r[..nk].to_vec()).or_default().push(r);
    }
    groups
        .iter()
        .map(|(k, rs)| {
            let mut line = k.iter().map(|c| cell(*c)).collect::<Vec<_>>().join(",");
            for (j, f) in fns.iter().enumerate() {
                let vals: Vec<i64> = rs.iter().filter_map(|r| r[nk + j]).collect();
                let opt = |v: Option<i64>| v.map(|x| x.to_string()).unwrap_or_else(|| "n".into());
                let a = match *f {
                    "count" => vals.len().to_string(),
                    "sum" => opt(if vals.is_empty() { None } else { Some(vals.iter().fold(0i64, |s, x| s.wrapping_add(*x))) }),
                    "min" => opt(vals.iter().min().cloned()),
                    "max" => opt(vals.iter().max().cloned()),
                    "bit_and" => opt(vals.iter().cloned().reduce(|a, b| a & b)),
                    "bit_or" => opt(vals.iter().cloned().reduce(|a, b| a | b)),
                    "bit_xor" => opt(vals.iter().cloned().reduce(|a, b| a ^ b)),
                    "count_distinct" => {
                        let mut v = vals.clone();
                        v.sort();
                        v.dedup();
                        v.len().to_string()
                    }
                    _ => unreachable!(),
                };
                line.push('|');
                line.push_str(&a);
            }
            line
        })
        .collect()
}

fn schema_of(nk: usize, nf: usize) -> SchemaRef {
    let mut f: Vec<Field> = (0..nk).map(|i| Field::new(format!("k{i}"), DataType::Int64, true)).collect();
    f.extend((0..nf).map(|i| Field::new(format!("v{i}"), DataType::Int64, true)));
    Arc::new(Schema::new(f))
}

fn batch_of(schema: &SchemaRef, rows: &[Row]) -> RecordBatch {
    let cols: Vec<ArrayRef> = (0..schema.fields().len()).map(|c| Arc::new(rows.iter().map(|r| r[c]).collect::<Int64Array>()) as ArrayRef).collect();
    RecordBatch::try_new_with_options(schema.clone(), cols, &arrow::array::RecordBatchOptions::new().with_row_count(Some(rows.len()))).unwrap()
}

fn split_batches(rng: &mut Rng, schema: &SchemaRef, rows: &[Row], max: usize) -> Vec<RecordBatch> {
    let mut out = vec![];
    let mut i = 0;
    while i < rows.len() {
        let k = 1 + rng.below(max as u64) as usize;
        let j = (i + k).min(rows.len());
        out.push(batch_of(schema, &rows[i..j]));
        i = j;
    }
    out
}

/// output rows (keys then aggregates, all Int64-convertible) as canonical lines, sorted like `spec`
fn lines_of(batches: &[RecordBatch], nk: usize) -> Result<Vec<String>, String> {
    let mut out: Vec<(Vec<Cell>, String)> = vec![];
    for b in batches {
        let cols: Vec<ArrayRef> = b.columns().iter().map(|c| arrow::compute::cast(c, &DataType::Int64).map_err(|e| e.to_string())).collect::<Result<_, _>>()?;
        let cols: Vec<&Int64Array> = cols.iter().map(|c| c.as_any().downcast_ref::<Int64Array>().unwrap()).collect();
        for r in 0..b.num_rows() {
            let cells: Vec<Cell> = cols.iter().map(|c| if c.is_null(r) { None } else { Some(c.value(r)) }).collect();
            let mut line = cells[..nk].iter().map(|c| cell(*c)).collect::<Vec<_>>().join(",");
            for c in &cells[nk..] {
                line.push('|');
                line.push_str(&cell(*c));
            }
            out.push((cells[..nk].to_vec(), line));
        }
    }
    out.sort();
    Ok(out.into_iter().map(|x| x.1).collect())
}

enum Outcome {
    Lines(Vec<String>),
    Resources,
    Error(String),
    Hang,
}

fn run_plan(plan: Arc<dyn ExecutionPlan>, ctx: Arc<TaskContext>, nk: usize) -> Outcome {
    let rt = tokio::runtime::Builder::new_current_thread().enable_all().build().unwrap();
    let res = hutil::catch(std::panic::AssertUnwindSafe(|| rt.block_on(async { tokio::time::timeout(Duration::from_secs(60), datafusion_physical_plan::collect(plan, ctx)).await })));
    match res {
        Err(p) => Outcome::Error(format!("panic: {p}")),
        Ok(Err(_)) => Outcome::Hang,
        Ok(Ok(Err(e))) => {
            let m = e.to_string();
            if m.contains("Resources exhausted") || m.contains("Not enough memory") {
                Outcome::Resources
            } else {
                Outcome::Error(m)
            }
        }
        Ok(Ok(Ok(b))) => match lines_of(&b, nk) {
            Ok(l) => Outcome::Lines(l),
            Err(e) => Outcome::Error(e),
        },
    }
}

struct Case {
    nk: usize,
    fns: Vec<&'static str>,
    rows: Vec<Row>,
    /// number of leading key columns the input is sorted on (0 = unordered)
    sorted_prefix: usize,
}

fn gen_case(rng: &mut Rng, big: bool) -> Case {
    let nk = 1 + rng.below(3) as usize;
    let nf = 1 + rng.below(3) as usize;
    let fns: Vec<&'static str> = (0..nf).map(|_| *rng.pick(FNS)).collect();
    let n = if big { *rng.pick(&[400usize, 1000, 2500]) } else { *rng.pick(&[0usize, 1, 2, 7, 30, 120]) };
    let kdom = if big { *rng.pick(&[5i64, 200, 5000]) } else { *rng.pick(&[1i64, 2, 5, 50]) };
    let mut rows: Vec<Row> = (0..n)
        .map(|_| {
            let mut r: Row = (0..nk).map(|_| if rng.chance(1, 6) { None } else { Some(rng.range(0, kdom)) }).collect();
            for _ in 0..nf {
                r.push(match rng.below(12) {
                    0 | 1 => None,
                    2 => Some(i64::MAX),
                    3 => Some(i64::MIN),
                    _ => Some(rng.range(-4, 9)),
                });
            }
            r
        })
        .collect();
    let sorted_prefix = if rng.chance(1, 2) { 1 + rng.below(nk as u64) as usize } else { 0 };
    if sorted_prefix > 0 {
        // NULLS FIRST ascending on the prefix (Option's order), stable
        rows.sort_by(|a, b| a[..sorted_prefix].cmp(&b[..sorted_prefix]));
    }
    Case { nk, fns, rows, sorted_prefix }
}

fn sx_case(c: &Case) -> String {
    format!(
        "({} ({}) ({}))",
        c.nk,
        c.fns.join(" "),
        c.rows.iter().map(|r| format!("({})", r.iter().map(|x| cell(*x)).collect::<Vec<_>>().join(" "))).collect::<Vec<_>>().join(" ")
    )
}

fn aggr_exprs(c: &Case, schema: &SchemaRef) -> Vec<Arc<AggregateFunctionExpr>> {
    c.fns
        .iter()
        .enumerate()
        .map(|(j, f)| {
            let (u, distinct) = udf(f);
            let arg: Arc<dyn PhysicalExpr> = col(&format!("v{j}"), schema).unwrap();
            Arc::new(AggregateExprBuilder::new(u, vec![arg]).schema(schema.clone()).alias(format!("a{j}")).with_distinct(distinct).build().unwrap())
        })
        .collect()
}

fn manual_cases(run: &mut Run, rng: &mut Rng, big: bool, n: u64) {
    for i in 0..n {
        let c = gen_case(rng, big);
        let schema = schema_of(c.nk, c.fns.len());
        let nparts = 1 + rng.below(4) as usize;
        // distribute rows over input partitions: consecutive pieces when the input is ordered (each
        // partition must itself be ordered), otherwise at random
        let mut parts: Vec<Vec<Row>> = vec![vec![]; nparts];
        for (idx, r) in c.rows.iter().enumerate() {
            let p = if c.sorted_prefix > 0 { idx * nparts / c.rows.len().max(1) } else { rng.below(nparts as u64) as usize };
            parts[p].push(r.clone());
        }
        let maxb = *rng.pick(&[1usize, 3, 16, 200]);
        let batches: Vec<Vec<RecordBatch>> = parts.iter().map(|p| split_batches(rng, &schema, p, maxb)).collect();
        let mut src = MemorySourceConfig::try_new(&batches, schema.clone(), None).unwrap();
        if c.sorted_prefix > 0 {
            let ord = LexOrdering::new((0..c.sorted_prefix).map(|j| PhysicalSortExpr { expr: col(&format!("k{j}"), &schema).unwrap(), options: SortOptions { descending: false, nulls_first: true } })).unwrap();
            src = src.try_with_sort_information(vec![ord]).unwrap();
        }
        let input: Arc<dyn ExecutionPlan> = DataSourceExec::from_data_source(src);
        let group_by = PhysicalGroupBy::new_single((0..c.nk).map(|j| (col(&format!("k{j}"), &schema).unwrap(), format!("k{j}"))).collect());
        let aggs = aggr_exprs(&c, &schema);
        let filters = vec![None; aggs.len()];
        let strategy = rng.below(3);
        let built: Result<Arc<dyn ExecutionPlan>, String> = (|| {
            let e = |x: datafusion_common::DataFusionError| x.to_string();
            Ok(match strategy {
                0 => {
                    let one: Arc<dyn ExecutionPlan> = if nparts > 1 { Arc::new(CoalescePartitionsExec::new(input.clone())) } else { input.clone() };
                    Arc::new(AggregateExec::try_new(AggregateMode::Single, group_by.clone(), aggs.clone(), filters.clone(), one, schema.clone()).map_err(e)?) as Arc<dyn ExecutionPlan>
                }
                1 => {
                    let partial = Arc::new(AggregateExec::try_new(AggregateMode::Partial, group_by.clone(), aggs.clone(), filters.clone(), input.clone(), schema.clone()).map_err(e)?);
                    let merged = Arc::new(CoalescePartitionsExec::new(partial));
                    Arc::new(AggregateExec::try_new(AggregateMode::Final, group_by.as_final(), aggs.clone(), filters.clone(), merged, schema.clone()).map_err(e)?)
                }
                _ => {
                    let partial: Arc<dyn ExecutionPlan> = Arc::new(AggregateExec::try_new(AggregateMode::Partial, group_by.clone(), aggs.clone(), filters.clone(), input.clone(), schema.clone()).map_err(e)?);
                    let nout = 1 + rng.below(4) as usize;
                    let keys: Vec<Arc<dyn PhysicalExpr>> = (0..c.nk).map(|j| col(&format!("k{j}"), &partial.schema()).unwrap()).collect();
                    let rep = Arc::new(RepartitionExec::try_new(partial, Partitioning::Hash(keys, nout)).map_err(e)?);
                    let fin = Arc::new(AggregateExec::try_new(AggregateMode::FinalPartitioned, group_by.as_final(), aggs.clone(), filters.clone(), rep, schema.clone()).map_err(e)?);
                    Arc::new(CoalescePartitionsExec::new(fin))
                }
            })
        })();
        let plan = match built {
            Ok(p) => p,
            Err(e) => {
                run.oracle(false, &format!("manual#{i} plan-construction"), &e);
                continue;
            }
        };
        let mem = if big { Some(*rng.pick(&[20_000usize, 60_000, 200_000, 1_000_000])) } else if rng.chance(1, 4) { Some(*rng.pick(&[4_000usize, 20_000])) } else { None };
        let mut sc = SessionConfig::new().with_batch_size(*rng.pick(&[1usize, 2, 5, 64, 8192]));
        if rng.chance(1, 3) {
            // make the partial stage give up early and pass rows through as singleton states
            sc = sc.set_usize("datafusion.execution.skip_partial_aggregation_probe_rows_threshold", *rng.pick(&[1usize, 10])).set_str("datafusion.execution.skip_partial_aggregation_probe_ratio_threshold", "0.0");
            run.count("cfg:skip-partial");
        }
        let mut rb = RuntimeEnvBuilder::new();
        if let Some(m) = mem {
            rb = rb.with_memory_limit(m, 1.0);
        }
        let ctx = Arc::new(TaskContext::default().with_session_config(sc).with_runtime(rb.build_arc().unwrap()));
        let out = run_plan(plan.clone(), ctx, c.nk);
        let strat = ["single", "partial-final", "partial-repartition-finalpartitioned"][strategy as usize];
        run.count(&format!("strategy:{strat}"));
        run.count(&format!("order:sorted-prefix={}of{}", c.sorted_prefix, c.nk));
        if mem.is_some() {
            run.count("cfg:memory-limit");
        }
        let spills: usize = collect_spills(&plan);
        if spills > 0 {
            run.count("spilled");
        }
        finish(run, &format!("manual#{i} {strat} parts={nparts} sorted={} mem={mem:?}", c.sorted_prefix), &c, out, spills > 0 || c.sorted_prefix > 0 || strategy > 0);
    }
}

fn collect_spills(plan: &Arc<dyn ExecutionPlan>) -> usize {
    let mut n = plan.metrics().and_then(|m| m.spill_count()).unwrap_or(0);
    for c in plan.children() {
        n += collect_spills(c);
    }
    n
}

fn finish(run: &mut Run, sig: &str, c: &Case, out: Outcome, nontrivial: bool) {
    let want = spec(c.nk, &c.fns, &c.rows);
    match out {
        Outcome::Lines(l) => {
            let dup_or_null = c.rows.iter().any(|r| r[..c.nk].iter().any(|x| x.is_none()));
            run.case("agg", &sx_case(c), &l.join(";"), nontrivial && dup_or_null && c.rows.len() >= 2);
            run.oracle(l == want, &format!("{sig} fns={} rows={}", c.fns.join(","), c.rows.len()), &format!("input {} expected {} got {}", sx_case(c), want.join(";"), l.join(";")));
        }
        Outcome::Resources => run.count("err-resources"),
        Outcome::Error(e) => run.oracle(false, &format!("{sig} unexpected-error"), &format!("{e} | input {}", sx_case(c))),
        Outcome::Hang => run.oracle(false, &format!("{sig} hang"), &format!("no result within 60 s | input {}", sx_case(c))),
    }
}

fn sql_cases(run: &mut Run, rng: &mut Rng, n: u64) {
    let rt = tokio::runtime::Builder::new_current_thread().enable_all().build().unwrap();
    for i in 0..n {
        let c = gen_case(rng, false);
        let schema = schema_of(c.nk, c.fns.len());
        let nparts = 1 + rng.below(3) as usize;
        let mut parts: Vec<Vec<Row>> = vec![vec![]; nparts];
        for r in &c.rows {
            parts[rng.below(nparts as u64) as usize].push(r.clone());
        }
        let maxb = *rng.pick(&[1usize, 4, 64]);
        let batches: Vec<Vec<RecordBatch>> = parts.iter().map(|p| split_batches(rng, &schema, p, maxb)).collect();
        let tp = 1 + rng.below(4) as usize;
        let mut cfg = SessionConfig::new().with_target_partitions(tp).with_batch_size(*rng.pick(&[1usize, 3, 64, 8192]));
        if rng.chance(1, 3) {
            cfg = cfg.set_usize("datafusion.execution.skip_partial_aggregation_probe_rows_threshold", 1).set_str("datafusion.execution.skip_partial_aggregation_probe_ratio_threshold", "0.0");
        }
        let ctx = SessionContext::new_with_config(cfg);
        let keys = (0..c.nk).map(|j| format!("k{j}")).collect::<Vec<_>>().join(", ");
        let aggs = c
            .fns
            .iter()
            .enumerate()
            .map(|(j, f)| match *f {
                "count_distinct" => format!("count(distinct v{j})"),
                f => format!("{f}(v{j})"),
            })
            .collect::<Vec<_>>()
            .join(", ");
        let sql = format!("SELECT {keys}, {aggs} FROM t GROUP BY {keys}");
        let nk = c.nk;
        let res = hutil::catch(std::panic::AssertUnwindSafe(|| {
            rt.block_on(async {
                let t = MemTable::try_new(schema.clone(), batches.clone()).map_err(|e| e.to_string())?;
                ctx.register_table("t", Arc::new(t)).map_err(|e| e.to_string())?;
                let df = tokio::time::timeout(Duration::from_secs(60), async { ctx.sql(&sql).await?.collect().await }).await.map_err(|_| "hang".to_string())?;
                df.map_err(|e| e.to_string())
            })
        }));
        let out = match res {
            Err(p) => Outcome::Error(format!("panic: {p}")),
            Ok(Err(e)) if e == "hang" => Outcome::Hang,
            Ok(Err(e)) => Outcome::Error(e),
            Ok(Ok(b)) => match lines_of(&b, nk) {
                Ok(l) => Outcome::Lines(l),
                Err(e) => Outcome::Error(e),
            },
        };
        run.count("strategy:sql-group-by");
        finish(run, &format!("sql#{i} target_partitions={tp} `{sql}`"), &c, out, tp > 1);
    }
}


// ============================================================================================
// Follow-up: (a) ordered / streaming aggregation over every single-column key type that has its own
// `GroupValues` implementation, (b) grouped TopK (`min|max … GROUP BY … ORDER BY agg LIMIT k`),
// (c) GROUPING SETS / ROLLUP / CUBE.  An error or panic where the specification has rows is an
// oracle failure.
// ============================================================================================

const KEY_TYPES: &[&str] = &["Boolean", "Int8", "Int16", "Int32", "Int64", "UInt8", "UInt16", "UInt32", "UInt64", "Float64", "Date32", "Utf8", "LargeUtf8", "Utf8View", "Binary", "BinaryView", "Dict(Int32,Utf8)"];

/// typed key column from key indices (`None` = NULL key).  Index d is rendered as an increasing value of the type.
fn key_array(kt: &str, idx: &[Option<usize>]) -> ArrayRef {
    use arrow::array::*;
    let ints: Int64Array = idx.iter().map(|d| d.map(|x| x as i64)).collect();
    let strs: Vec<Option<String>> = idx.iter().map(|d| d.map(|x| format!("k{x}"))).collect();
    let a: ArrayRef = Arc::new(ints);
    let c = |dt: DataType| arrow::compute::cast(&a, &dt).unwrap();
    match kt {
        "Boolean" => Arc::new(idx.iter().map(|d| d.map(|x| x % 2 == 1)).collect::<BooleanArray>()),
        "Int8" => c(DataType::Int8),
        "Int16" => c(DataType::Int16),
        "Int32" => c(DataType::Int32),
        "Int64" => c(DataType::Int64),
        "UInt8" => c(DataType::UInt8),
        "UInt16" => c(DataType::UInt16),
        "UInt32" => c(DataType::UInt32),
        "UInt64" => c(DataType::UInt64),
        "Float64" => c(DataType::Float64),
        "Date32" => arrow::compute::cast(&c(DataType::Int32), &DataType::Date32).unwrap(),
        "Utf8" => Arc::new(StringArray::from(strs)),
        "LargeUtf8" => Arc::new(LargeStringArray::from(strs)),
        "Utf8View" => Arc::new(StringViewArray::from(strs)),
        "Binary" => arrow::compute::cast(&(Arc::new(StringArray::from(strs)) as ArrayRef), &DataType::Binary).unwrap(),
        "BinaryView" => arrow::compute::cast(&(Arc::new(StringArray::from(strs)) as ArrayRef), &DataType::BinaryView).unwrap(),
        _ => arrow::compute::cast(&(Arc::new(StringArray::from(strs)) as ArrayRef), &DataType::Dictionary(Box::new(DataType::Int32), Box::new(DataType::Utf8))).unwrap(),
    }
}

/// key index of an output key cell (inverse of `key_array`, through the same rendering)
fn key_index(kt: &str, col: &ArrayRef, row: usize, dom: usize) -> Result<Option<usize>, String> {
    if col.is_null(row) {
        return Ok(None);
    }
    let one = col.slice(row, 1);
    for d in 0..dom.max(2) {
        let probe = key_array(kt, &[Some(d)]);
        let probe = if probe.data_type() != one.data_type() { arrow::compute::cast(&probe, one.data_type()).map_err(|e| e.to_string())? } else { probe };
        let (a, b) = (arrow::compute::cast(&one, &DataType::Utf8).map_err(|e| e.to_string())?, arrow::compute::cast(&probe, &DataType::Utf8).map_err(|e| e.to_string())?);
        use arrow::array::AsArray;
        if a.as_string::<i32>().value(0) == b.as_string::<i32>().value(0) {
            return Ok(Some(d));
        }
    }
    Err(format!("output key {:?} is not one of the input keys", one))
}

fn typed_ordered_cases(run: &mut Run, rng: &mut Rng, n: u64) {
    for i in 0..n {
        let kt = *rng.pick(KEY_TYPES);
        let dom = if kt == "Boolean" { 2 } else { *rng.pick(&[1usize, 2, 3, 6]) };
        let nrows = *rng.pick(&[1usize, 3, 8, 20, 60]);
        let nf_ = 1 + rng.below(2) as usize;
        let fns: Vec<&'static str> = (0..nf_).map(|_| *rng.pick(&["count", "sum", "min", "max"])).collect();
        // rows: (key index | NULL, values…); NULL keys frequent
        let mut rows: Vec<(Option<usize>, Vec<Cell>)> = (0..nrows)
            .map(|_| (if rng.chance(1, 4) { None } else { Some(rng.below(dom as u64) as usize) }, (0..nf_).map(|_| if rng.chance(1, 6) { None } else { Some(rng.range(-4, 9)) }).collect()))
            .collect();
        // 0 = unordered (NULL keys may show up late), 1 = declared and actually sorted
        let sorted = rng.chance(3, 4);
        let (desc, nulls_first) = (rng.chance(1, 2), rng.chance(1, 2));
        if sorted {
            rows.sort_by(|a, b| match (a.0, b.0) {
                (None, None) => std::cmp::Ordering::Equal,
                (None, _) => if nulls_first { std::cmp::Ordering::Less } else { std::cmp::Ordering::Greater },
                (_, None) => if nulls_first { std::cmp::Ordering::Greater } else { std::cmp::Ordering::Less },
                (Some(x), Some(y)) => {
                    // Boolean keys: index parity is the value
                    let (x, y) = if kt == "Boolean" { (x % 2, y % 2) } else { (x, y) };
                    if desc { y.cmp(&x) } else { x.cmp(&y) }
                }
            });
        }
        let kfield = key_array(kt, &[]).data_type().clone();
        let mut fields = vec![Field::new("k0", kfield, true)];
        fields.extend((0..nf_).map(|j| Field::new(format!("v{j}"), DataType::Int64, true)));
        let schema: SchemaRef = Arc::new(Schema::new(fields));
        let maxb = *rng.pick(&[1usize, 2, 3, 7]);
        let mut batches = vec![];
        let mut j = 0;
        while j < rows.len() {
            let e = (j + 1 + rng.below(maxb as u64) as usize).min(rows.len());
            let mut cols: Vec<ArrayRef> = vec![key_array(kt, &rows[j..e].iter().map(|r| r.0).collect::<Vec<_>>())];
            for c in 0..nf_ {
                cols.push(Arc::new(rows[j..e].iter().map(|r| r.1[c]).collect::<Int64Array>()));
            }
            batches.push(RecordBatch::try_new(schema.clone(), cols).unwrap());
            j = e;
        }
        let mut src = MemorySourceConfig::try_new(&[batches], schema.clone(), None).unwrap();
        if sorted {
            let ord = LexOrdering::new([PhysicalSortExpr { expr: col("k0", &schema).unwrap(), options: SortOptions { descending: desc, nulls_first } }]).unwrap();
            src = src.try_with_sort_information(vec![ord]).unwrap();
        }
        let input: Arc<dyn ExecutionPlan> = DataSourceExec::from_data_source(src);
        // the Lean / Rust spec sees Boolean keys through their value (index parity)
        let krow = |d: Option<usize>| -> Cell { d.map(|x| if kt == "Boolean" { (x % 2) as i64 } else { x as i64 }) };
        let case = Case { nk: 1, fns: fns.clone(), rows: rows.iter().map(|r| std::iter::once(krow(r.0)).chain(r.1.iter().cloned()).collect()).collect(), sorted_prefix: sorted as usize };
        let group_by = PhysicalGroupBy::new_single(vec![(col("k0", &schema).unwrap(), "k0".to_string())]);
        let aggs = aggr_exprs(&case, &schema);
        let filters = vec![None; aggs.len()];
        let two_stage = rng.chance(1, 2);
        let plan: Result<Arc<dyn ExecutionPlan>, String> = (|| {
            let e = |x: datafusion_common::DataFusionError| x.to_string();
            if two_stage {
                let partial = Arc::new(AggregateExec::try_new(AggregateMode::Partial, group_by.clone(), aggs.clone(), filters.clone(), input.clone(), schema.clone()).map_err(e)?);
                Ok(Arc::new(AggregateExec::try_new(AggregateMode::Final, group_by.as_final(), aggs.clone(), filters.clone(), partial, schema.clone()).map_err(e)?) as Arc<dyn ExecutionPlan>)
            } else {
                Ok(Arc::new(AggregateExec::try_new(AggregateMode::Single, group_by.clone(), aggs.clone(), filters.clone(), input.clone(), schema.clone()).map_err(e)?) as Arc<dyn ExecutionPlan>)
            }
        })();
        let sig = format!("typed-ordered#{i} key={kt} sorted={sorted} desc={desc} nulls_first={nulls_first} two_stage={two_stage} maxbatch={maxb}");
        let plan = match plan {
            Ok(p) => p,
            Err(e) => {
                run.oracle(false, &format!("{sig} plan-construction"), &e);
                continue;
            }
        };
        let bs = *rng.pick(&[1usize, 2, 5, 8192]);
        let ctx = Arc::new(TaskContext::default().with_session_config(SessionConfig::new().with_batch_size(bs)));
        let rt = tokio::runtime::Builder::new_current_thread().enable_all().build().unwrap();
        let res = hutil::catch(std::panic::AssertUnwindSafe(|| rt.block_on(async { tokio::time::timeout(Duration::from_secs(60), datafusion_physical_plan::collect(plan, ctx)).await })));
        run.count(&format!("typed-ordered:{kt}"));
        run.count(if sorted { "typed-ordered:sorted-input" } else { "typed-ordered:unordered-input" });
        let out = match res {
            Err(p) => Outcome::Error(format!("panic: {p}")),
            Ok(Err(_)) => Outcome::Hang,
            Ok(Ok(Err(e))) => Outcome::Error(e.to_string()),
            Ok(Ok(Ok(b))) => {
                // decode the key column back to key indices, then reuse the Int64 line format
                let decoded: Result<Vec<RecordBatch>, String> = b
                    .iter()
                    .map(|rb| {
                        let kc = rb.column(0);
                        let ks: Vec<Cell> = (0..rb.num_rows()).map(|r| key_index(kt, kc, r, dom).map(|d| krow(d))).collect::<Result<_, _>>()?;
                        let mut cols: Vec<ArrayRef> = vec![Arc::new(ks.into_iter().collect::<Int64Array>())];
                        cols.extend(rb.columns()[1..].iter().cloned());
                        let fields: Vec<Field> = cols.iter().enumerate().map(|(ci, c)| Field::new(format!("o{ci}"), c.data_type().clone(), true)).collect();
                        RecordBatch::try_new(Arc::new(Schema::new(fields)), cols).map_err(|e| e.to_string())
                    })
                    .collect();
                match decoded.and_then(|d| lines_of(&d, 1)) {
                    Ok(l) => Outcome::Lines(l),
                    Err(e) => Outcome::Error(e),
                }
            }
        };
        finish(run, &sig, &case, out, true);
    }
}

// ------------------------------------------------------------------------------------------ SQL helpers
fn sql_collect(cfg: SessionConfig, schema: SchemaRef, batches: Vec<Vec<RecordBatch>>, sql: &str) -> Result<(String, Vec<RecordBatch>), String> {
    let rt = tokio::runtime::Builder::new_current_thread().enable_all().build().unwrap();
    let ctx = SessionContext::new_with_config(cfg);
    let res = hutil::catch(std::panic::AssertUnwindSafe(|| {
        rt.block_on(async {
            let t = MemTable::try_new(schema.clone(), batches.clone()).map_err(|e| e.to_string())?;
            ctx.register_table("t", Arc::new(t)).map_err(|e| e.to_string())?;
            tokio::time::timeout(Duration::from_secs(60), async {
                let df = ctx.sql(sql).await.map_err(|e| e.to_string())?;
                let plan = df.clone().create_physical_plan().await.map_err(|e| e.to_string())?;
                let shown = datafusion::physical_plan::displayable(plan.as_ref()).indent(false).to_string();
                let out = df.collect().await.map_err(|e| e.to_string())?;
                Ok::<_, String>((shown, out))
            })
            .await
            .map_err(|_| "hang: no result within 60 s".to_string())?
        })
    }));
    match res {
        Err(p) => Err(format!("panic: {p}")),
        Ok(r) => r,
    }
}

fn grouped_topk_cases(run: &mut Run, rng: &mut Rng, n: u64) {
    for i in 0..n {
        let f = *rng.pick(&["min", "max"]);
        // the limit is pushed into the aggregation only for `max … DESC` / `min … ASC`: make that the majority
        let desc = if rng.chance(3, 4) { f == "max" } else { f != "max" };
        let nulls_first = rng.chance(1, 2);
        let k = *rng.pick(&[1usize, 2, 3, 5]);
        let kdom = *rng.pick(&[2i64, 4, 8]);
        let nrows = *rng.pick(&[1usize, 4, 10, 30]);
        // groups whose values are all NULL: every row of a "null group" has v = NULL
        let null_groups: Vec<i64> = (0..kdom).filter(|_| rng.chance(1, 3)).collect();
        let utf8_key = rng.chance(1, 2);
        let rows: Vec<Row> = (0..nrows)
            .map(|_| {
                let key = rng.range(0, kdom - 1);
                let v = if null_groups.contains(&key) || rng.chance(1, 8) { None } else { Some(rng.range(0, 4)) };
                vec![Some(key), v]
            })
            .collect();
        let schema: SchemaRef = Arc::new(Schema::new(vec![Field::new("k0", if utf8_key { DataType::Utf8 } else { DataType::Int64 }, true), Field::new("v0", DataType::Int64, true)]));
        let nparts = 1 + rng.below(3) as usize;
        let mut parts: Vec<Vec<Row>> = vec![vec![]; nparts];
        for r in &rows {
            parts[rng.below(nparts as u64) as usize].push(r.clone());
        }
        let maxb = *rng.pick(&[1usize, 2, 5]);
        let batches: Vec<Vec<RecordBatch>> = parts
            .iter()
            .map(|p| {
                let mut out = vec![];
                let mut j = 0;
                while j < p.len() {
                    let e = (j + 1 + rng.below(maxb as u64) as usize).min(p.len());
                    let keys: Int64Array = p[j..e].iter().map(|r| r[0]).collect();
                    let kcol: ArrayRef = if utf8_key { arrow::compute::cast(&(Arc::new(keys) as ArrayRef), &DataType::Utf8).unwrap() } else { Arc::new(keys) };
                    out.push(RecordBatch::try_new(schema.clone(), vec![kcol, Arc::new(p[j..e].iter().map(|r| r[1]).collect::<Int64Array>())]).unwrap());
                    j = e;
                }
                out
            })
            .collect();
        let sql = format!("SELECT k0, {f}(v0) AS m FROM t GROUP BY k0 ORDER BY m {} NULLS {} LIMIT {k}", if desc { "DESC" } else { "ASC" }, if nulls_first { "FIRST" } else { "LAST" });
        let cfg = SessionConfig::new().with_target_partitions(1 + rng.below(3) as usize).with_batch_size(*rng.pick(&[1usize, 2, 8192])).set_bool("datafusion.optimizer.enable_topk_aggregation", true);
        let sig = format!("grouped-topk#{i} `{sql}` utf8_key={utf8_key} rows={}", rows.iter().map(|r| format!("({} {})", cell(r[0]), cell(r[1]))).collect::<Vec<_>>().join(""));
        match sql_collect(cfg, schema, batches, &sql) {
            Err(e) => run.oracle(false, &format!("{sig} error"), &e),
            Ok((shown, out)) => {
                run.count(if shown.contains("lim=[") { "grouped-topk:pushed-into-aggregate" } else { "grouped-topk:plain-sort-limit" });
                if !null_groups.is_empty() {
                    run.count("grouped-topk:with-all-null-groups");
                }
                let got: Result<Vec<(Cell, Cell)>, String> = (|| {
                    let mut v = vec![];
                    for b in &out {
                        let kc = arrow::compute::cast(b.column(0), &DataType::Int64).map_err(|e| e.to_string())?;
                        let mc = arrow::compute::cast(b.column(1), &DataType::Int64).map_err(|e| e.to_string())?;
                        let (kc, mc) = (kc.as_any().downcast_ref::<Int64Array>().unwrap().clone(), mc.as_any().downcast_ref::<Int64Array>().unwrap().clone());
                        for r in 0..b.num_rows() {
                            v.push((if kc.is_null(r) { None } else { Some(kc.value(r)) }, if mc.is_null(r) { None } else { Some(mc.value(r)) }));
                        }
                    }
                    Ok(v)
                })();
                let got = match got {
                    Ok(g) => g,
                    Err(e) => {
                        run.oracle(false, &format!("{sig} decode"), &e);
                        continue;
                    }
                };
                // Lean: judged against the spec's full aggregate
                let req = format!(
                    "({f} {} {} {k} ({}) ({}))",
                    if desc { "t" } else { "f" },
                    if nulls_first { "t" } else { "f" },
                    rows.iter().map(|r| format!("({} {})", cell(r[0]), cell(r[1]))).collect::<Vec<_>>().join(" "),
                    got.iter().map(|(a, b)| format!("({} {})", cell(*a), cell(*b))).collect::<Vec<_>>().join(" ")
                );
                run.case("topk", &req, "ok", !null_groups.is_empty() && nrows >= 4);
                // Rust oracle: top-k relation on the full aggregate
                let mut full: BTreeMap<Cell, Cell> = BTreeMap::new();
                for r in &rows {
                    let e = full.entry(r[0]).or_insert(None);
                    *e = match (*e, r[1]) {
                        (None, x) => x,
                        (x, None) => x,
                        (Some(a), Some(b)) => Some(if f == "min" { a.min(b) } else { a.max(b) }),
                    };
                }
                let before = |a: Cell, b: Cell| -> std::cmp::Ordering {
                    match (a, b) {
                        (None, None) => std::cmp::Ordering::Equal,
                        (None, _) => if nulls_first { std::cmp::Ordering::Less } else { std::cmp::Ordering::Greater },
                        (_, None) => if nulls_first { std::cmp::Ordering::Greater } else { std::cmp::Ordering::Less },
                        (Some(x), Some(y)) => if desc { y.cmp(&x) } else { x.cmp(&y) },
                    }
                };
                let mut ok = got.len() == k.min(full.len()) && got.windows(2).all(|w| before(w[0].1, w[1].1) != std::cmp::Ordering::Greater) && got.iter().all(|(kk, m)| full.get(kk) == Some(m));
                let keys: Vec<Cell> = got.iter().map(|g| g.0).collect();
                ok &= keys.iter().collect::<std::collections::BTreeSet<_>>().len() == keys.len();
                if let Some(last) = got.last() {
                    ok &= full.iter().filter(|(kk, _)| !keys.contains(kk)).all(|(_, m)| before(*m, last.1) != std::cmp::Ordering::Less);
                }
                run.oracle(ok, &sig, &format!("full aggregate {full:?} returned {got:?}"));
            }
        }
    }
}

fn grouping_sets_cases(run: &mut Run, rng: &mut Rng, n: u64) {
    for i in 0..n {
        // emphasis on 7, 8, 9 grouping columns (grouping-id width boundary)
        let m = *rng.pick(&[1usize, 2, 3, 5, 7, 7, 8, 8, 8, 9, 9]);
        let form = rng.below(3); // 0 ROLLUP, 1 CUBE, 2 explicit GROUPING SETS (with duplicates)
        let nrows = if form == 1 && m >= 7 { *rng.pick(&[1usize, 2, 4]) } else { *rng.pick(&[0usize, 1, 3, 8]) };
        let fns: Vec<&'static str> = vec![*rng.pick(&["count", "sum", "min", "max"])];
        let rows: Vec<Row> = (0..nrows)
            .map(|_| {
                let mut r: Row = (0..m).map(|_| if rng.chance(1, 6) { None } else { Some(rng.range(0, 1)) }).collect();
                r.push(if rng.chance(1, 6) { None } else { Some(rng.range(-3, 6)) });
                r
            })
            .collect();
        let sets: Vec<Vec<usize>> = match form {
            0 => (0..=m).rev().map(|l| (0..l).collect()).collect(),
            1 => (0..(1usize << m)).map(|mask| (0..m).filter(|c| mask & (1 << c) != 0).collect()).collect(),
            _ => {
                let ns = 1 + rng.below(4) as usize;
                let mut v: Vec<Vec<usize>> = (0..ns).map(|_| (0..m).filter(|_| rng.chance(1, 2)).collect()).collect();
                v.insert(0, (0..m).collect()); // every selected column must occur in some grouping set
                if rng.chance(1, 2) {
                    let d = v[0].clone();
                    v.push(d); // a duplicate grouping set
                }
                v
            }
        };
        let cols = (0..m).map(|c| format!("k{c}")).collect::<Vec<_>>();
        let clause = match form {
            0 => format!("ROLLUP ({})", cols.join(", ")),
            1 => format!("CUBE ({})", cols.join(", ")),
            _ => format!("GROUPING SETS ({})", sets.iter().map(|s| format!("({})", s.iter().map(|c| cols[*c].clone()).collect::<Vec<_>>().join(", "))).collect::<Vec<_>>().join(", ")),
        };
        let agg = format!("{}(v0)", fns[0]);
        let sql = format!("SELECT {}, {agg} FROM t GROUP BY {clause}", cols.join(", "));
        let schema = schema_of(m, 1);
        let maxb = *rng.pick(&[1usize, 3, 64]);
        let batches = vec![split_batches(rng, &schema, &rows, maxb)];
        let cfg = SessionConfig::new().with_target_partitions(1 + rng.below(3) as usize).with_batch_size(*rng.pick(&[2usize, 8192]));
        let dup = form == 2 && sets.iter().enumerate().any(|(a, s)| sets[..a].contains(s));
        let sig = format!("grouping-sets#{i} cols={m} form={} sets={} dup={dup} `{}` rows={}", ["rollup", "cube", "sets"][form as usize], sets.len(), if sql.len() > 200 { &sql[..200] } else { &sql }, rows.iter().map(|r| format!("({})", r.iter().map(|x| cell(*x)).collect::<Vec<_>>().join(" "))).collect::<Vec<_>>().join(""));
        run.count(&format!("grouping-sets:cols={m}"));
        run.count(&format!("grouping-sets:{}", ["rollup", "cube", "explicit"][form as usize]));
        // Rust spec: bag union of the per-set aggregations with masked keys
        let mut want: Vec<String> = vec![];
        for st in &sets {
            let masked: Vec<Row> = rows.iter().map(|r| (0..m).map(|c| if st.contains(&c) { r[c] } else { None }).chain(std::iter::once(r[m])).collect()).collect();
            let mut lines = spec(m, &fns, &masked);
            if masked.is_empty() && st.is_empty() {
                // the empty grouping set over an empty input still yields one row (global aggregate)
                lines = vec![format!("{}|{}", vec!["n"; m].join(","), if fns[0] == "count" { "0" } else { "n" })];
            }
            want.extend(lines);
        }
        want.sort();
        match sql_collect(cfg, schema, batches, &sql) {
            Err(e) => run.oracle(false, &format!("{sig} error"), &e),
            Ok((_, out)) => match lines_of(&out, m) {
                Err(e) => run.oracle(false, &format!("{sig} decode"), &e),
                Ok(mut l) => {
                    l.sort();
                    if !(rows.is_empty()) {
                        let req = format!(
                            "({m} ({}) ({}) ({}))",
                            fns.join(" "),
                            sets.iter().map(|s| format!("({})", s.iter().map(|c| c.to_string()).collect::<Vec<_>>().join(" "))).collect::<Vec<_>>().join(" "),
                            rows.iter().map(|r| format!("({})", r.iter().map(|x| cell(*x)).collect::<Vec<_>>().join(" "))).collect::<Vec<_>>().join(" ")
                        );
                        run.case("gsets", &req, &l.join(";"), m >= 7);
                    }
                    run.oracle(l == want, &sig, &format!("expected {} got {}", want.join(";"), l.join(";")));
                }
            },
        }
    }
}

pub fn run(run: &mut Run, args: &Args) {
    hutil::quiet_panics();
    let mut rng = Rng::new(args.seed);
    let n1 = run.budget(500, 12_000);
    let n2 = run.budget(60, 1500);
    let n3 = run.budget(150, 4_000);
    manual_cases(run, &mut rng, false, n1);
    manual_cases(run, &mut rng, true, n2);
    sql_cases(run, &mut rng, n3);
    let (n4, n5, n6) = (run.budget(400, 8_000), run.budget(250, 5_000), run.budget(150, 2_500));
    typed_ordered_cases(run, &mut rng, n4);
    grouped_topk_cases(run, &mut rng, n5);
    grouping_sets_cases(run, &mut rng, n6);
}
