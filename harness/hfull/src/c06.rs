//! C06 — grouped aggregation is exact under every aggregation strategy.
//!
//! Real `AggregateExec` pipelines are assembled by hand — Single, Partial→Final (coalesced),
//! Partial→hash Repartition→FinalPartitioned — over inputs with duplicate/NULL-heavy 1..3-column
//! integer keys, × input orderings (unordered, fully ordered on the keys, ordered on a prefix: the
//! early-emission paths) × batch sizes × partition counts × memory limits (spilling / early emission
//! of partial state) × skip-partial-aggregation settings; plus the same queries through SQL
//! `GROUP BY` with random session configurations.  The result bag is compared for equality with the
//! Lean specification (`agg` op) and, independently, with a Rust re-statement of the specification
//! (implementation-level oracle).
use std::collections::BTreeMap;
use std::sync::Arc;
use std::time::Duration;

use arrow::array::{Array, ArrayRef, Int64Array, RecordBatch};
use arrow::compute::SortOptions;
use arrow::datatypes::{DataType, Field, Schema, SchemaRef};
use datafusion::datasource::MemTable;
use datafusion::prelude::{SessionConfig, SessionContext};
use datafusion_datasource::memory::MemorySourceConfig;
use datafusion_datasource::source::DataSourceExec;
use datafusion_execution::TaskContext;
use datafusion_execution::runtime_env::RuntimeEnvBuilder;
use datafusion_expr::AggregateUDF;
use datafusion_physical_expr::aggregate::{AggregateExprBuilder, AggregateFunctionExpr};
use datafusion_physical_expr::expressions::col;
use datafusion_physical_expr::{LexOrdering, Partitioning, PhysicalExpr, PhysicalSortExpr};
use datafusion_physical_plan::ExecutionPlan;
use datafusion_physical_plan::aggregates::{AggregateExec, AggregateMode, PhysicalGroupBy};
use datafusion_physical_plan::coalesce_partitions::CoalescePartitionsExec;
use datafusion_physical_plan::repartition::RepartitionExec;
use hutil::{Args, Rng, Run};

type Cell = Option<i64>;
type Row = Vec<Cell>;

const FNS: &[&str] = &["count", "sum", "min", "max", "bit_and", "bit_or", "bit_xor", "count_distinct"];

fn udf(name: &str) -> (Arc<AggregateUDF>, bool) {
    use datafusion_functions_aggregate as f;
    match name {
        "count" => (f::count::count_udaf(), false),
        "count_distinct" => (f::count::count_udaf(), true),
        "sum" => (f::sum::sum_udaf(), false),
        "min" => (f::min_max::min_udaf(), false),
        "max" => (f::min_max::max_udaf(), false),
        "bit_and" => (f::bit_and_or_xor::bit_and_udaf(), false),
        "bit_or" => (f::bit_and_or_xor::bit_or_udaf(), false),
        "bit_xor" => (f::bit_and_or_xor::bit_xor_udaf(), false),
        _ => unreachable!(),
    }
}

fn cell(c: Cell) -> String {
    c.map(|x| x.to_string()).unwrap_or_else(|| "n".into())
}

/// Rust re-statement of the specification (wrapping sum), for the implementation-level oracle
fn spec(nk: usize, fns: &[&str], rows: &[Row]) -> Vec<String> {
    let mut groups: BTreeMap<Vec<Cell>, Vec<&Row>> = BTreeMap::new(); // Option<i64> orders None first
    for r in rows {
        groups.entry(r[..nk].to_vec()).or_default().push(r);
    }
    groups
        .iter()
        .map(|(k, rs)| {
            let mut line = k.iter().map(|c| cell(*c)).collect::<Vec<_>>().join(",");
            for (j, f) in fns.iter().enumerate() {
                let vals: Vec<i64> = rs.iter().filter_map(|r| r[nk + j]).collect();
                let opt = |v: Option<i64>| v.map(|x| x.to_string()).unwrap_or_else(|| "n".into());
                let a = match *f {
                    "count" => vals.len().to_string(),
                    "sum" => opt(if vals.is_empty() { None } else { Some(vals.iter().fold(0i64, |s, x| s.wrapping_add(*x))) }),
                    "min" => opt(vals.iter().min().cloned()),
                    "max" => opt(vals.iter().max().cloned()),
                    "bit_and" => opt(vals.iter().cloned().reduce(|a, b| a & b)),
                    "bit_or" => opt(vals.iter().cloned().reduce(|a, b| a | b)),
                    "bit_xor" => opt(vals.iter().cloned().reduce(|a, b| a ^ b)),
                    "count_distinct" => {
                        let mut v = vals.clone();
                        v.sort();
                        v.dedup();
                        v.len().to_string()
                    }
                    _ => unreachable!(),
                };
                line.push('|');
                line.push_str(&a);
            }
            line
        })
        .collect()
}

fn schema_of(nk: usize, nf: usize) -> SchemaRef {
    let mut f: Vec<Field> = (0..nk).map(|i| Field::new(format!("k{i}"), DataType::Int64, true)).collect();
    f.extend((0..nf).map(|i| Field::new(format!("v{i}"), DataType::Int64, true)));
    Arc::new(Schema::new(f))
}

fn batch_of(schema: &SchemaRef, rows: &[Row]) -> RecordBatch {
    let cols: Vec<ArrayRef> = (0..schema.fields().len()).map(|c| Arc::new(rows.iter().map(|r| r[c]).collect::<Int64Array>()) as ArrayRef).collect();
    RecordBatch::try_new_with_options(schema.clone(), cols, &arrow::array::RecordBatchOptions::new().with_row_count(Some(rows.len()))).unwrap()
}

fn split_batches(rng: &mut Rng, schema: &SchemaRef, rows: &[Row], max: usize) -> Vec<RecordBatch> {
    let mut out = vec![];
    let mut i = 0;
    while i < rows.len() {
        let k = 1 + rng.below(max as u64) as usize;
        let j = (i + k).min(rows.len());
        out.push(batch_of(schema, &rows[i..j]));
        i = j;
    }
    out
}

/// output rows (keys then aggregates, all Int64-convertible) as canonical lines, sorted like `spec`
fn lines_of(batches: &[RecordBatch], nk: usize) -> Result<Vec<String>, String> {
    let mut out: Vec<(Vec<Cell>, String)> = vec![];
    for b in batches {
        let cols: Vec<ArrayRef> = b.columns().iter().map(|c| arrow::compute::cast(c, &DataType::Int64).map_err(|e| e.to_string())).collect::<Result<_, _>>()?;
        let cols: Vec<&Int64Array> = cols.iter().map(|c| c.as_any().downcast_ref::<Int64Array>().unwrap()).collect();
        for r in 0..b.num_rows() {
            let cells: Vec<Cell> = cols.iter().map(|c| if c.is_null(r) { None } else { Some(c.value(r)) }).collect();
            let mut line = cells[..nk].iter().map(|c| cell(*c)).collect::<Vec<_>>().join(",");
            for c in &cells[nk..] {
                line.push('|');
                line.push_str(&cell(*c));
            }
            out.push((cells[..nk].to_vec(), line));
        }
    }
    out.sort();
    Ok(out.into_iter().map(|x| x.1).collect())
}

enum Outcome {
    Lines(Vec<String>),
    Resources,
    Error(String),
    Hang,
}

fn run_plan(plan: Arc<dyn ExecutionPlan>, ctx: Arc<TaskContext>, nk: usize) -> Outcome {
    let rt = tokio::runtime::Builder::new_current_thread().enable_all().build().unwrap();
    let res = hutil::catch(std::panic::AssertUnwindSafe(|| rt.block_on(async { tokio::time::timeout(Duration::from_secs(60), datafusion_physical_plan::collect(plan, ctx)).await })));
    match res {
        Err(p) => Outcome::Error(format!("panic: {p}")),
        Ok(Err(_)) => Outcome::Hang,
        Ok(Ok(Err(e))) => {
            let m = e.to_string();
            if m.contains("Resources exhausted") || m.contains("Not enough memory") {
                Outcome::Resources
            } else {
                Outcome::Error(m)
            }
        }
        Ok(Ok(Ok(b))) => match lines_of(&b, nk) {
            Ok(l) => Outcome::Lines(l),
            Err(e) => Outcome::Error(e),
        },
    }
}

struct Case {
    nk: usize,
    fns: Vec<&'static str>,
    rows: Vec<Row>,
    /// number of leading key columns the input is sorted on (0 = unordered)
    sorted_prefix: usize,
}

fn gen_case(rng: &mut Rng, big: bool) -> Case {
    let nk = 1 + rng.below(3) as usize;
    let nf = 1 + rng.below(3) as usize;
    let fns: Vec<&'static str> = (0..nf).map(|_| *rng.pick(FNS)).collect();
    let n = if big { *rng.pick(&[400usize, 1000, 2500]) } else { *rng.pick(&[0usize, 1, 2, 7, 30, 120]) };
    let kdom = if big { *rng.pick(&[5i64, 200, 5000]) } else { *rng.pick(&[1i64, 2, 5, 50]) };
    let mut rows: Vec<Row> = (0..n)
        .map(|_| {
            let mut r: Row = (0..nk).map(|_| if rng.chance(1, 6) { None } else { Some(rng.range(0, kdom)) }).collect();
            for _ in 0..nf {
                r.push(match rng.below(12) {
                    0 | 1 => None,
                    2 => Some(i64::MAX),
                    3 => Some(i64::MIN),
                    _ => Some(rng.range(-4, 9)),
                });
            }
            r
        })
        .collect();
    let sorted_prefix = if rng.chance(1, 2) { 1 + rng.below(nk as u64) as usize } else { 0 };
    if sorted_prefix > 0 {
        // NULLS FIRST ascending on the prefix (Option's order), stable
        rows.sort_by(|a, b| a[..sorted_prefix].cmp(&b[..sorted_prefix]));
    }
    Case { nk, fns, rows, sorted_prefix }
}

fn sx_case(c: &Case) -> String {
    format!(
        "({} ({}) ({}))",
        c.nk,
        c.fns.join(" "),
        c.rows.iter().map(|r| format!("({})", r.iter().map(|x| cell(*x)).collect::<Vec<_>>().join(" "))).collect::<Vec<_>>().join(" ")
    )
}

fn aggr_exprs(c: &Case, schema: &SchemaRef) -> Vec<Arc<AggregateFunctionExpr>> {
    c.fns
        .iter()
        .enumerate()
        .map(|(j, f)| {
            let (u, distinct) = udf(f);
            let arg: Arc<dyn PhysicalExpr> = col(&format!("v{j}"), schema).unwrap();
            Arc::new(AggregateExprBuilder::new(u, vec![arg]).schema(schema.clone()).alias(format!("a{j}")).with_distinct(distinct).build().unwrap())
        })
        .collect()
}

fn manual_cases(run: &mut Run, rng: &mut Rng, big: bool, n: u64) {
    for i in 0..n {
        let c = gen_case(rng, big);
        let schema = schema_of(c.nk, c.fns.len());
        let nparts = 1 + rng.below(4) as usize;
        // distribute rows over input partitions: consecutive pieces when the input is ordered (each
        // partition must itself be ordered), otherwise at random
        let mut parts: Vec<Vec<Row>> = vec![vec![]; nparts];
        for (idx, r) in c.rows.iter().enumerate() {
            let p = if c.sorted_prefix > 0 { idx * nparts / c.rows.len().max(1) } else { rng.below(nparts as u64) as usize };
            parts[p].push(r.clone());
        }
        let maxb = *rng.pick(&[1usize, 3, 16, 200]);
        let batches: Vec<Vec<RecordBatch>> = parts.iter().map(|p| split_batches(rng, &schema, p, maxb)).collect();
        let mut src = MemorySourceConfig::try_new(&batches, schema.clone(), None).unwrap();
        if c.sorted_prefix > 0 {
            let ord = LexOrdering::new((0..c.sorted_prefix).map(|j| PhysicalSortExpr { expr: col(&format!("k{j}"), &schema).unwrap(), options: SortOptions { descending: false, nulls_first: true } })).unwrap();
            src = src.try_with_sort_information(vec![ord]).unwrap();
        }
        let input: Arc<dyn ExecutionPlan> = DataSourceExec::from_data_source(src);
        let group_by = PhysicalGroupBy::new_single((0..c.nk).map(|j| (col(&format!("k{j}"), &schema).unwrap(), format!("k{j}"))).collect());
        let aggs = aggr_exprs(&c, &schema);
        let filters = vec![None; aggs.len()];
        let strategy = rng.below(3);
        let built: Result<Arc<dyn ExecutionPlan>, String> = (|| {
            let e = |x: datafusion_common::DataFusionError| x.to_string();
            Ok(match strategy {
                0 => {
                    let one: Arc<dyn ExecutionPlan> = if nparts > 1 { Arc::new(CoalescePartitionsExec::new(input.clone())) } else { input.clone() };
                    Arc::new(AggregateExec::try_new(AggregateMode::Single, group_by.clone(), aggs.clone(), filters.clone(), one, schema.clone()).map_err(e)?) as Arc<dyn ExecutionPlan>
                }
                1 => {
                    let partial = Arc::new(AggregateExec::try_new(AggregateMode::Partial, group_by.clone(), aggs.clone(), filters.clone(), input.clone(), schema.clone()).map_err(e)?);
                    let merged = Arc::new(CoalescePartitionsExec::new(partial));
                    Arc::new(AggregateExec::try_new(AggregateMode::Final, group_by.as_final(), aggs.clone(), filters.clone(), merged, schema.clone()).map_err(e)?)
                }
                _ => {
                    let partial: Arc<dyn ExecutionPlan> = Arc::new(AggregateExec::try_new(AggregateMode::Partial, group_by.clone(), aggs.clone(), filters.clone(), input.clone(), schema.clone()).map_err(e)?);
                    let nout = 1 + rng.below(4) as usize;
                    let keys: Vec<Arc<dyn PhysicalExpr>> = (0..c.nk).map(|j| col(&format!("k{j}"), &partial.schema()).unwrap()).collect();
                    let rep = Arc::new(RepartitionExec::try_new(partial, Partitioning::Hash(keys, nout)).map_err(e)?);
                    let fin = Arc::new(AggregateExec::try_new(AggregateMode::FinalPartitioned, group_by.as_final(), aggs.clone(), filters.clone(), rep, schema.clone()).map_err(e)?);
                    Arc::new(CoalescePartitionsExec::new(fin))
                }
            })
        })();
        let plan = match built {
            Ok(p) => p,
            Err(e) => {
                run.oracle(false, &format!("manual#{i} plan-construction"), &e);
                continue;
            }
        };
        let mem = if big { Some(*rng.pick(&[20_000usize, 60_000, 200_000, 1_000_000])) } else if rng.chance(1, 4) { Some(*rng.pick(&[4_000usize, 20_000])) } else { None };
        let mut sc = SessionConfig::new().with_batch_size(*rng.pick(&[1usize, 2, 5, 64, 8192]));
        if rng.chance(1, 3) {
            // make the partial stage give up early and pass rows through as singleton states
            sc = sc.set_usize("datafusion.execution.skip_partial_aggregation_probe_rows_threshold", *rng.pick(&[1usize, 10])).set_str("datafusion.execution.skip_partial_aggregation_probe_ratio_threshold", "0.0");
            run.count("cfg:skip-partial");
        }
        let mut rb = RuntimeEnvBuilder::new();
        if let Some(m) = mem {
            rb = rb.with_memory_limit(m, 1.0);
        }
        let ctx = Arc::new(TaskContext::default().with_session_config(sc).with_runtime(rb.build_arc().unwrap()));
        let out = run_plan(plan.clone(), ctx, c.nk);
        let strat = ["single", "partial-final", "partial-repartition-finalpartitioned"][strategy as usize];
        run.count(&format!("strategy:{strat}"));
        run.count(&format!("order:sorted-prefix={}of{}", c.sorted_prefix, c.nk));
        if mem.is_some() {
            run.count("cfg:memory-limit");
        }
        let spills: usize = collect_spills(&plan);
        if spills > 0 {
            run.count("spilled");
        }
        finish(run, &format!("manual#{i} {strat} parts={nparts} sorted={} mem={mem:?}", c.sorted_prefix), &c, out, spills > 0 || c.sorted_prefix > 0 || strategy > 0);
    }
}

fn collect_spills(plan: &Arc<dyn ExecutionPlan>) -> usize {
    let mut n = plan.metrics().and_then(|m| m.spill_count()).unwrap_or(0);
    for c in plan.children() {
        n += collect_spills(c);
    }
    n
}

fn finish(run: &mut Run, sig: &str, c: &Case, out: Outcome, nontrivial: bool) {
    let want = spec(c.nk, &c.fns, &c.rows);
    match out {
        Outcome::Lines(l) => {
            let dup_or_null = c.rows.iter().any(|r| r[..c.nk].iter().any(|x| x.is_none()));
            run.case("agg", &sx_case(c), &l.join(";"), nontrivial && dup_or_null && c.rows.len() >= 2);
            run.oracle(l == want, &format!("{sig} fns={} rows={}", c.fns.join(","), c.rows.len()), &format!("input {} expected {} got {}", sx_case(c), want.join(";"), l.join(";")));
        }
        Outcome::Resources => run.count("err-resources"),
        Outcome::Error(e) => run.oracle(false, &format!("{sig} unexpected-error"), &format!("{e} | input {}", sx_case(c))),
        Outcome::Hang => run.oracle(false, &format!("{sig} hang"), &format!("no result within 60 s | input {}", sx_case(c))),
    }
}

fn sql_cases(run: &mut Run, rng: &mut Rng, n: u64) {
    let rt = tokio::runtime::Builder::new_current_thread().enable_all().build().unwrap();
    for i in 0..n {
        let c = gen_case(rng, false);
        let schema = schema_of(c.nk, c.fns.len());
        let nparts = 1 + rng.below(3) as usize;
        let mut parts: Vec<Vec<Row>> = vec![vec![]; nparts];
        for r in &c.rows {
            parts[rng.below(nparts as u64) as usize].push(r.clone());
        }
        let maxb = *rng.pick(&[1usize, 4, 64]);
        let batches: Vec<Vec<RecordBatch>> = parts.iter().map(|p| split_batches(rng, &schema, p, maxb)).collect();
        let tp = 1 + rng.below(4) as usize;
        let mut cfg = SessionConfig::new().with_target_partitions(tp).with_batch_size(*rng.pick(&[1usize, 3, 64, 8192]));
        if rng.chance(1, 3) {
            cfg = cfg.set_usize("datafusion.execution.skip_partial_aggregation_probe_rows_threshold", 1).set_str("datafusion.execution.skip_partial_aggregation_probe_ratio_threshold", "0.0");
        }
        let ctx = SessionContext::new_with_config(cfg);
        let keys = (0..c.nk).map(|j| format!("k{j}")).collect::<Vec<_>>().join(", ");
        let aggs = c
            .fns
            .iter()
            .enumerate()
            .map(|(j, f)| match *f {
                "count_distinct" => format!("count(distinct v{j})"),
                f => format!("{f}(v{j})"),
            })
            .collect::<Vec<_>>()
            .join(", ");
        let sql = format!("SELECT {keys}, {aggs} FROM t GROUP BY {keys}");
        let nk = c.nk;
        let res = hutil::catch(std::panic::AssertUnwindSafe(|| {
            rt.block_on(async {
                let t = MemTable::try_new(schema.clone(), batches.clone()).map_err(|e| e.to_string())?;
                ctx.register_table("t", Arc::new(t)).map_err(|e| e.to_string())?;
                let df = tokio::time::timeout(Duration::from_secs(60), async { ctx.sql(&sql).await?.collect().await }).await.map_err(|_| "hang".to_string())?;
                df.map_err(|e| e.to_string())
            })
        }));
        let out = match res {
            Err(p) => Outcome::Error(format!("panic: {p}")),
            Ok(Err(e)) if e == "hang" => Outcome::Hang,
            Ok(Err(e)) => Outcome::Error(e),
            Ok(Ok(b)) => match lines_of(&b, nk) {
                Ok(l) => Outcome::Lines(l),
                Err(e) => Outcome::Error(e),
            },
        };
        run.count("strategy:sql-group-by");
        finish(run, &format!("sql#{i} target_partitions={tp} `{sql}`"), &c, out, tp > 1);
    }
}

pub fn run(run: &mut Run, args: &Args) {
    hutil::quiet_panics();
    let mut rng = Rng::new(args.seed);
    let n1 = run.budget(500, 12_000);
    let n2 = run.budget(60, 1500);
    let n3 = run.budget(150, 4_000);
    manual_cases(run, &mut rng, false, n1);
    manual_cases(run, &mut rng, true, n2);
    sql_cases(run, &mut rng, n3);
}
