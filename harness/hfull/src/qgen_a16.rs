//! Compact typed generator shared by C39 / C41 / C30 / C02 (a16): values, small MemTables with
//! NULLs and duplicates, a typed expression AST that renders BOTH as SQL text for the engine and as
//! the s-expression of `DfModel/Sql/Codec.lean` for the Lean reference.  Every binary operator is
//! generated with operands of the same type, every NULL literal is typed by a CAST, so that no
//! statement's meaning depends on an implicit coercion the model lacks.
#![allow(dead_code)]
use std::sync::Arc;

use arrow::array::*;
use arrow::datatypes::{DataType, Field, Schema, SchemaRef};
use hutil::Rng;

#[derive(Clone, Copy, PartialEq, Eq, Debug, Hash, PartialOrd, Ord)]
pub enum Ty {
    I64,
    I32,
    Str,
    Bool,
}
impl Ty {
    pub fn arrow(self) -> DataType {
        match self {
            Ty::I64 => DataType::Int64,
            Ty::I32 => DataType::Int32,
            Ty::Str => DataType::Utf8,
            Ty::Bool => DataType::Boolean,
        }
    }
    pub fn sql(self) -> &'static str {
        match self {
            Ty::I64 => "BIGINT",
            Ty::I32 => "INT",
            Ty::Str => "VARCHAR",
            Ty::Bool => "BOOLEAN",
        }
    }
    pub fn sx(self) -> &'static str {
        match self {
            Ty::I64 => "(int 64 s)",
            Ty::I32 => "(int 32 s)",
            Ty::Str => "str",
            Ty::Bool => "bool",
        }
    }
    pub fn is_int(self) -> bool {
        matches!(self, Ty::I64 | Ty::I32)
    }
}

/// one cell; integers carry (width, signed, value) so that every Arrow integer type can be shown
#[derive(Clone, PartialEq, Eq, Debug, Hash, PartialOrd, Ord)]
pub enum V {
    Null,
    Int(u8, bool, i128),
    Str(String),
    Bool(bool),
}
impl V {
    pub fn i64(n: i64) -> V {
        V::Int(64, true, n as i128)
    }
    pub fn i32(n: i32) -> V {
        V::Int(32, true, n as i128)
    }
    pub fn sx(&self) -> String {
        match self {
            V::Null => "null".into(),
            V::Int(w, s, n) => format!("(i {w} {} {n})", if *s { "s" } else { "u" }),
            V::Str(s) => format!("(s {})", hutil::hex(s.as_bytes())),
            V::Bool(b) => if *b { "(b t)".into() } else { "(b f)".into() },
        }
    }
    /// SQL literal of the given type (NULL is typed by a cast; MIN is written without overflow)
    pub fn sql(&self, ty: Ty) -> String {
        match self {
            V::Null => format!("CAST(NULL AS {})", ty.sql()),
            V::Int(64, _, n) => {
                if *n == i64::MIN as i128 {
                    "(-9223372036854775807 - 1)".into()
                } else if *n < 0 {
                    format!("({n})")
                } else {
                    format!("{n}")
                }
            }
            V::Int(_, _, n) => format!("CAST({n} AS {})", ty.sql()),
            V::Str(s) => format!("'{}'", s.replace('\'', "''")),
            V::Bool(b) => if *b { "true".into() } else { "false".into() },
        }
    }
}
pub type Row = Vec<V>;

pub fn row_sx(r: &Row) -> String {
    format!("({})", r.iter().map(|v| v.sx()).collect::<Vec<_>>().join(" "))
}
pub fn rows_sx(rs: &[Row]) -> String {
    format!("({})", rs.iter().map(row_sx).collect::<Vec<_>>().join(" "))
}
/// canonical text of a bag (same as `Codec.showBag`: printed rows sorted as strings)
pub fn bag_sx(rs: &[Row]) -> String {
    let mut v: Vec<String> = rs.iter().map(row_sx).collect();
    v.sort();
    format!("({})", v.join(" "))
}

/// cell `i` of an Arrow array as a model value; `None` = a type outside the model
pub fn cell(a: &dyn Array, i: usize) -> Option<V> {
    if a.is_null(i) {
        return Some(V::Null);
    }
    macro_rules! int {
        ($t:ty, $w:expr, $s:expr) => {
            if let Some(x) = a.as_any().downcast_ref::<$t>() {
                return Some(V::Int($w, $s, x.value(i) as i128));
            }
        };
    }
    int!(Int64Array, 64, true);
    int!(Int32Array, 32, true);
    int!(Int16Array, 16, true);
    int!(Int8Array, 8, true);
    int!(UInt64Array, 64, false);
    int!(UInt32Array, 32, false);
    int!(UInt16Array, 16, false);
    int!(UInt8Array, 8, false);
    if let Some(x) = a.as_any().downcast_ref::<BooleanArray>() {
        return Some(V::Bool(x.value(i)));
    }
    if let Some(x) = a.as_any().downcast_ref::<StringArray>() {
        return Some(V::Str(x.value(i).to_string()));
    }
    if let Some(x) = a.as_any().downcast_ref::<StringViewArray>() {
        return Some(V::Str(x.value(i).to_string()));
    }
    if let Some(x) = a.as_any().downcast_ref::<LargeStringArray>() {
        return Some(V::Str(x.value(i).to_string()));
    }
    if a.data_type() == &DataType::Null {
        return Some(V::Null);
    }
    if let DataType::Dictionary(_, _) = a.data_type() {
        let any = a.as_any_dictionary_opt()?;
        let k = any.normalized_keys()[i];
        return cell(any.values().as_ref(), k);
    }
    None
}
pub fn batch_rows(b: &RecordBatch) -> Option<Vec<Row>> {
    let mut out = Vec::with_capacity(b.num_rows());
    for i in 0..b.num_rows() {
        let mut r = Vec::with_capacity(b.num_columns());
        for c in b.columns() {
            r.push(cell(c.as_ref(), i)?);
        }
        out.push(r);
    }
    Some(out)
}
pub fn batches_rows(bs: &[RecordBatch]) -> Option<Vec<Row>> {
    let mut out = vec![];
    for b in bs {
        out.extend(batch_rows(b)?);
    }
    Some(out)
}

#[derive(Clone, Debug)]
pub struct TableDef {
    pub name: String,
    pub cols: Vec<(String, Ty)>,
}
impl TableDef {
    pub fn schema(&self) -> SchemaRef {
        Arc::new(Schema::new(self.cols.iter().map(|(n, t)| Field::new(n, t.arrow(), true)).collect::<Vec<_>>()))
    }
    pub fn batch(&self, rows: &[Row]) -> RecordBatch {
        let mut cols: Vec<ArrayRef> = vec![];
        for (j, (_, ty)) in self.cols.iter().enumerate() {
            let col: ArrayRef = match ty {
                Ty::I64 => Arc::new(rows.iter().map(|r| if let V::Int(_, _, n) = &r[j] { Some(*n as i64) } else { None }).collect::<Int64Array>()),
                Ty::I32 => Arc::new(rows.iter().map(|r| if let V::Int(_, _, n) = &r[j] { Some(*n as i32) } else { None }).collect::<Int32Array>()),
                Ty::Str => Arc::new(rows.iter().map(|r| if let V::Str(s) = &r[j] { Some(s.clone()) } else { None }).collect::<StringArray>()),
                Ty::Bool => Arc::new(rows.iter().map(|r| if let V::Bool(b) = &r[j] { Some(*b) } else { None }).collect::<BooleanArray>()),
            };
            cols.push(col);
        }
        RecordBatch::try_new(self.schema(), cols).unwrap()
    }
}

pub const I64_VALS: [i64; 11] = [i64::MIN, -7, -1, 0, 0, 1, 1, 2, 3, 10, i64::MAX];
pub const I32_VALS: [i32; 9] = [i32::MIN, -1, 0, 1, 1, 2, 5, 100, i32::MAX];
pub const STR_VALS: [&str; 12] = ["", "a", "a", "ab", "abc", "b", "B", "12", "-3", "7", "a%", "x_y"];

pub fn gen_val(rng: &mut Rng, ty: Ty, null_den: u64) -> V {
    if null_den > 0 && rng.chance(1, null_den) {
        return V::Null;
    }
    match ty {
        Ty::I64 => V::i64(*rng.pick(&I64_VALS)),
        Ty::I32 => V::i32(*rng.pick(&I32_VALS)),
        Ty::Str => V::Str(rng.pick(&STR_VALS).to_string()),
        Ty::Bool => V::Bool(rng.chance(1, 2)),
    }
}
/// small-magnitude values (no extreme integers): for columns that feed SUM etc.
pub fn gen_small_val(rng: &mut Rng, ty: Ty, null_den: u64) -> V {
    if null_den > 0 && rng.chance(1, null_den) {
        return V::Null;
    }
    match ty {
        Ty::I64 => V::i64(rng.range(-2, 4)),
        Ty::I32 => V::i32(rng.range(-2, 4) as i32),
        Ty::Str => V::Str(rng.pick(&["a", "b", "ab", "", "c"]).to_string()),
        Ty::Bool => V::Bool(rng.chance(1, 2)),
    }
}
pub fn gen_row(rng: &mut Rng, t: &TableDef, null_den: u64) -> Row {
    t.cols.iter().map(|(_, ty)| gen_val(rng, *ty, null_den)).collect()
}

// ------------------------------------------------------------------------------------------------
// expressions

#[derive(Clone, Copy, PartialEq, Eq, Debug)]
pub enum Op {
    Add,
    Sub,
    Mul,
    Div,
    Mod,
    Eq,
    Ne,
    Lt,
    Le,
    Gt,
    Ge,
    And,
    Or,
    Distinct,
    NotDistinct,
    Concat,
}
impl Op {
    pub fn sql(self) -> &'static str {
        match self {
            Op::Add => "+",
            Op::Sub => "-",
            Op::Mul => "*",
            Op::Div => "/",
            Op::Mod => "%",
            Op::Eq => "=",
            Op::Ne => "<>",
            Op::Lt => "<",
            Op::Le => "<=",
            Op::Gt => ">",
            Op::Ge => ">=",
            Op::And => "AND",
            Op::Or => "OR",
            Op::Distinct => "IS DISTINCT FROM",
            Op::NotDistinct => "IS NOT DISTINCT FROM",
            Op::Concat => "||",
        }
    }
    pub fn sx(self) -> &'static str {
        match self {
            Op::Add => "add",
            Op::Sub => "sub",
            Op::Mul => "mul",
            Op::Div => "div",
            Op::Mod => "mod",
            Op::Eq => "eq",
            Op::Ne => "ne",
            Op::Lt => "lt",
            Op::Le => "le",
            Op::Gt => "gt",
            Op::Ge => "ge",
            Op::And => "and",
            Op::Or => "or",
            Op::Distinct => "distinct",
            Op::NotDistinct => "notdistinct",
            Op::Concat => "concat",
        }
    }
}

#[derive(Clone, Debug)]
pub enum X {
    /// column `idx` of the current row; the string is the SQL text of the reference
    Col(usize, String, Ty),
    Outer(usize, String, Ty),
    Lit(V, Ty),
    Ph(usize, Ty),
    Bin(Op, Box<X>, Box<X>),
    Not(Box<X>),
    Neg(Box<X>),
    /// kind ∈ null true false unknown
    Is(&'static str, bool, Box<X>),
    In(bool, Box<X>, Vec<X>),
    Between(bool, Box<X>, Box<X>, Box<X>),
    Case(Option<Box<X>>, Vec<(X, X)>, Option<Box<X>>),
    Coalesce(Vec<X>),
    Nullif(Box<X>, Box<X>),
    Cast(Ty, bool, Box<X>),
    Like(bool, bool, Box<X>, Box<X>),
}

impl X {
    pub fn sql(&self) -> String {
        match self {
            X::Col(_, n, _) | X::Outer(_, n, _) => n.clone(),
            X::Lit(v, t) => v.sql(*t),
            X::Ph(i, _) => format!("${}", i + 1),
            X::Bin(op, a, b) => format!("({} {} {})", a.sql(), op.sql(), b.sql()),
            X::Not(a) => format!("(NOT {})", a.sql()),
            X::Neg(a) => format!("(- {})", a.sql()),
            X::Is(k, n, a) => format!("({} IS {}{})", a.sql(), if *n { "NOT " } else { "" }, k.to_uppercase()),
            X::In(n, a, l) => format!("({} {}IN ({}))", a.sql(), if *n { "NOT " } else { "" }, l.iter().map(|e| e.sql()).collect::<Vec<_>>().join(", ")),
            X::Between(n, a, lo, hi) => format!("({} {}BETWEEN {} AND {})", a.sql(), if *n { "NOT " } else { "" }, lo.sql(), hi.sql()),
            X::Case(o, ws, e) => {
                let mut s = String::from("(CASE");
                if let Some(o) = o {
                    s.push(' ');
                    s.push_str(&o.sql());
                }
                for (w, t) in ws {
                    s.push_str(&format!(" WHEN {} THEN {}", w.sql(), t.sql()));
                }
                if let Some(e) = e {
                    s.push_str(&format!(" ELSE {}", e.sql()));
                }
                s.push_str(" END)");
                s
            }
            X::Coalesce(l) => format!("COALESCE({})", l.iter().map(|e| e.sql()).collect::<Vec<_>>().join(", ")),
            X::Nullif(a, b) => format!("NULLIF({}, {})", a.sql(), b.sql()),
            X::Cast(t, tr, a) => format!("{}({} AS {})", if *tr { "TRY_CAST" } else { "CAST" }, a.sql(), t.sql()),
            X::Like(n, ci, a, p) => format!("({} {}{} {})", a.sql(), if *n { "NOT " } else { "" }, if *ci { "ILIKE" } else { "LIKE" }, p.sql()),
        }
    }
    pub fn sx(&self) -> String {
        let tf = |b: bool| if b { "t" } else { "f" };
        match self {
            X::Col(i, _, _) => format!("(col {i})"),
            X::Outer(i, _, _) => format!("(outer {i})"),
            X::Lit(v, _) => format!("(lit {})", v.sx()),
            X::Ph(i, _) => format!("(ph {i})"),
            X::Bin(op, a, b) => format!("(bin {} {} {})", op.sx(), a.sx(), b.sx()),
            X::Not(a) => format!("(not {})", a.sx()),
            X::Neg(a) => format!("(neg {})", a.sx()),
            X::Is(k, n, a) => format!("(is {k} {} {})", tf(*n), a.sx()),
            X::In(n, a, l) => format!("(in {} {}{})", tf(*n), a.sx(), l.iter().map(|e| format!(" {}", e.sx())).collect::<String>()),
            X::Between(n, a, lo, hi) => format!("(between {} {} {} {})", tf(*n), a.sx(), lo.sx(), hi.sx()),
            X::Case(o, ws, e) => format!(
                "(case ({}) ({}) ({}))",
                o.as_ref().map(|x| x.sx()).unwrap_or_default(),
                ws.iter().map(|(w, t)| format!("({} {})", w.sx(), t.sx())).collect::<Vec<_>>().join(" "),
                e.as_ref().map(|x| x.sx()).unwrap_or_default()
            ),
            X::Coalesce(l) => format!("(coalesce{})", l.iter().map(|e| format!(" {}", e.sx())).collect::<String>()),
            X::Nullif(a, b) => format!("(nullif {} {})", a.sx(), b.sx()),
            X::Cast(t, tr, a) => format!("(cast {} {} {})", t.sx(), tf(*tr), a.sx()),
            X::Like(n, ci, a, p) => format!("(like {} {} {} {} ())", tf(*n), tf(*ci), a.sx(), p.sx()),
        }
    }
    pub fn ty(&self) -> Ty {
        match self {
            X::Col(_, _, t) | X::Outer(_, _, t) | X::Lit(_, t) | X::Ph(_, t) => *t,
            X::Bin(op, a, _) => match op {
                Op::Add | Op::Sub | Op::Mul | Op::Div | Op::Mod => a.ty(),
                Op::Concat => Ty::Str,
                _ => Ty::Bool,
            },
            X::Not(_) | X::Is(..) | X::In(..) | X::Between(..) | X::Like(..) => Ty::Bool,
            X::Neg(a) => a.ty(),
            X::Case(_, ws, _) => ws[0].1.ty(),
            X::Coalesce(l) => l[0].ty(),
            X::Nullif(a, _) => a.ty(),
            X::Cast(t, _, _) => *t,
        }
    }
    /// can evaluation raise a run-time error (division, failing cast)?
    pub fn fallible(&self) -> bool {
        let mut f = false;
        self.walk(&mut |x| {
            if let X::Bin(Op::Div | Op::Mod, _, _) = x {
                f = true
            }
            if let X::Cast(t, false, a) = x {
                if (*t == Ty::I32 && a.ty() == Ty::I64) || (t.is_int() && a.ty() == Ty::Str) {
                    f = true
                }
            }
        });
        f
    }
    pub fn has_col(&self) -> bool {
        let mut c = false;
        self.walk(&mut |n| {
            if let X::Col(..) | X::Outer(..) = n {
                c = true
            }
        });
        c
    }
    /// a node whose evaluation may fail (or, for unary minus, overflow) sits on constants only: the
    /// engine folds / evaluates it as a scalar at planning time, with different error behaviour
    /// (checked scalar negation, planning-time cast errors) — not generated
    /// does the subtree contain a construct the simplifier may collapse to one of its branches
    /// (`COALESCE(5, a)` → `5`), or an extreme integer literal?
    fn collapsible(&self) -> bool {
        let mut c = false;
        self.walk(&mut |n| match n {
            X::Coalesce(_) | X::Case(..) | X::Nullif(..) => c = true,
            X::Lit(V::Int(64, _, v), _) if *v == i64::MIN as i128 || *v == i64::MAX as i128 => c = true,
            X::Lit(V::Int(32, _, v), _) if *v == i32::MIN as i128 || *v == i32::MAX as i128 => c = true,
            _ => {}
        });
        c
    }
    pub fn const_fallible(&self) -> bool {
        let mut bad = false;
        // `(- a) <= MIN` is rewritten to `a >= -MIN` (checked negation of the literal at planning time)
        let mut has_neg = false;
        let mut has_extreme = false;
        self.walk(&mut |x| match x {
            X::Neg(_) => has_neg = true,
            X::Lit(V::Int(64, _, v), _) if *v == i64::MIN as i128 => has_extreme = true,
            X::Lit(V::Int(32, _, v), _) if *v == i32::MIN as i128 => has_extreme = true,
            _ => {}
        });
        if has_neg && has_extreme {
            return true;
        }
        self.walk(&mut |x| match x {
            X::Bin(Op::Div | Op::Mod, a, b) if !(a.has_col() || b.has_col()) || a.collapsible() || b.collapsible() => bad = true,
            X::Neg(a) if !a.has_col() || a.collapsible() => bad = true,
            X::Cast(t, false, a) if (!a.has_col() || a.collapsible()) && ((*t == Ty::I32 && a.ty() == Ty::I64) || (t.is_int() && a.ty() == Ty::Str)) => bad = true,
            _ => {}
        });
        bad
    }
    pub fn walk(&self, f: &mut dyn FnMut(&X)) {
        f(self);
        match self {
            X::Col(..) | X::Outer(..) | X::Lit(..) | X::Ph(..) => {}
            X::Bin(_, a, b) | X::Nullif(a, b) | X::Like(_, _, a, b) => {
                a.walk(f);
                b.walk(f)
            }
            X::Not(a) | X::Neg(a) | X::Is(_, _, a) | X::Cast(_, _, a) => a.walk(f),
            X::In(_, a, l) => {
                a.walk(f);
                l.iter().for_each(|e| e.walk(f))
            }
            X::Between(_, a, lo, hi) => {
                a.walk(f);
                lo.walk(f);
                hi.walk(f)
            }
            X::Case(o, ws, e) => {
                if let Some(o) = o {
                    o.walk(f)
                }
                for (w, t) in ws {
                    w.walk(f);
                    t.walk(f)
                }
                if let Some(e) = e {
                    e.walk(f)
                }
            }
            X::Coalesce(l) => l.iter().for_each(|e| e.walk(f)),
        }
    }
    /// rebuild with `f` applied bottom-up to every node
    pub fn map(&self, f: &mut dyn FnMut(X) -> X) -> X {
        let bx = |x: &X, f: &mut dyn FnMut(X) -> X| Box::new(x.map(f));
        let n = match self {
            X::Col(..) | X::Outer(..) | X::Lit(..) | X::Ph(..) => self.clone(),
            X::Bin(op, a, b) => X::Bin(*op, bx(a, f), bx(b, f)),
            X::Nullif(a, b) => X::Nullif(bx(a, f), bx(b, f)),
            X::Like(n, c, a, b) => X::Like(*n, *c, bx(a, f), bx(b, f)),
            X::Not(a) => X::Not(bx(a, f)),
            X::Neg(a) => X::Neg(bx(a, f)),
            X::Is(k, n, a) => X::Is(k, *n, bx(a, f)),
            X::Cast(t, tr, a) => X::Cast(*t, *tr, bx(a, f)),
            X::In(n, a, l) => X::In(*n, bx(a, f), l.iter().map(|e| e.map(f)).collect()),
            X::Between(n, a, lo, hi) => X::Between(*n, bx(a, f), bx(lo, f), bx(hi, f)),
            X::Case(o, ws, e) => X::Case(
                o.as_ref().map(|o| bx(o, f)),
                ws.iter().map(|(w, t)| (w.map(f), t.map(f))).collect(),
                e.as_ref().map(|e| bx(e, f)),
            ),
            X::Coalesce(l) => X::Coalesce(l.iter().map(|e| e.map(f)).collect()),
        };
        f(n)
    }
    pub fn size(&self) -> usize {
        let mut n = 0;
        self.walk(&mut |_| n += 1);
        n
    }
}

/// columns visible to an expression: (row index, SQL text, type)
pub type Scope = Vec<(usize, String, Ty)>;

pub struct ExprGen {
    pub scope: Scope,
    /// generate `/`, `%` and failing casts (only on strict paths from the root)
    pub fallible: bool,
    /// generate extreme integer literals (MIN/MAX)
    pub extremes: bool,
}

impl ExprGen {
    pub fn new(scope: Scope) -> Self {
        ExprGen { scope, fallible: false, extremes: true }
    }
    fn lit(&self, rng: &mut Rng, ty: Ty) -> X {
        // with error-prone operators around, no NULL literals (`NULL - CAST(s AS BIGINT)` is folded to
        // NULL without ever evaluating the cast)
        let nd = if self.fallible { 0 } else { 8 };
        let v = if self.extremes { gen_val(rng, ty, nd) } else { gen_small_val(rng, ty, nd) };
        X::Lit(v, ty)
    }
    fn col(&self, rng: &mut Rng, ty: Ty) -> Option<X> {
        let c: Vec<_> = self.scope.iter().filter(|c| c.2 == ty).collect();
        if c.is_empty() {
            None
        } else {
            let (i, n, t) = (*rng.pick(&c)).clone();
            Some(X::Col(i, n, t))
        }
    }
    fn leaf(&self, rng: &mut Rng, ty: Ty) -> X {
        if rng.chance(2, 3) {
            if let Some(c) = self.col(rng, ty) {
                return c;
            }
        }
        self.lit(rng, ty)
    }
    fn any_ty(&self, rng: &mut Rng) -> Ty {
        *rng.pick(&[Ty::I64, Ty::I64, Ty::I32, Ty::Str, Ty::Bool])
    }
    /// expression of type `ty`; `strict` = every operator between the root and here evaluates all
    /// its operands on every row (so a run-time error here is an error of the row in the engine's
    /// column-at-a-time evaluation as well as in the row-by-row reference)
    pub fn gen_expr(&self, rng: &mut Rng, ty: Ty, depth: u32, strict: bool) -> X {
        for _ in 0..8 {
            let e = self.gen_raw(rng, ty, depth, strict);
            if !e.const_fallible() {
                return e;
            }
        }
        self.leaf(rng, ty)
    }
    fn gen_raw(&self, rng: &mut Rng, ty: Ty, depth: u32, strict: bool) -> X {
        if depth == 0 {
            return self.leaf(rng, ty);
        }
        let d = depth - 1;
        let fall = strict && self.fallible;
        let b = |x: X| Box::new(x);
        match ty {
            Ty::I64 | Ty::I32 => match rng.below(if fall { 14 } else { 10 }) {
                0 => self.leaf(rng, ty),
                1 | 2 => X::Bin(*rng.pick(&[Op::Add, Op::Sub, Op::Mul]), b(self.gen_expr(rng, ty, d, strict)), b(self.gen_expr(rng, ty, d, strict))),
                3 => X::Neg(b(self.gen_expr(rng, ty, d, strict))),
                4 => self.case(rng, ty, d),
                5 => X::Coalesce(vec![self.gen_expr(rng, ty, d, false), self.gen_expr(rng, ty, d, false)]),
                6 => X::Nullif(b(self.gen_expr(rng, ty, d, false)), b(self.gen_expr(rng, ty, d, false))),
                7 => {
                    if ty == Ty::I64 {
                        X::Cast(Ty::I64, false, b(self.gen_expr(rng, Ty::I32, d, strict)))
                    } else {
                        self.leaf(rng, ty)
                    }
                }
                // (no TRY_CAST: the simplifier rewrites `TRY_CAST(x) IS NOT NULL` / comparisons of
                //  TRY_CAST as if it were CAST — reported under C04)
                8 => X::Nullif(b(self.gen_expr(rng, ty, d, false)), b(self.leaf(rng, ty))),
                9 => X::Cast(ty, false, b(self.gen_expr(rng, Ty::Bool, d, strict))),
                10 | 11 => X::Bin(Op::Div, b(self.gen_expr(rng, ty, d, strict)), b(self.gen_expr(rng, ty, d, strict))),
                12 => X::Cast(ty, false, b(self.gen_expr(rng, Ty::Str, d, strict))),
                _ => {
                    if ty == Ty::I32 {
                        X::Bin(Op::Div, b(self.gen_expr(rng, ty, d, strict)), b(self.leaf(rng, ty)))
                    } else {
                        X::Bin(Op::Div, b(self.gen_expr(rng, ty, d, strict)), b(self.leaf(rng, ty)))
                    }
                }
            },
            Ty::Str => match rng.below(7) {
                0 | 1 => self.leaf(rng, ty),
                2 => X::Bin(Op::Concat, b(self.gen_expr(rng, ty, d, strict)), b(self.gen_expr(rng, ty, d, strict))),
                3 => self.case(rng, ty, d),
                4 => X::Coalesce(vec![self.gen_expr(rng, ty, d, false), self.gen_expr(rng, ty, d, false)]),
                5 => X::Nullif(b(self.gen_expr(rng, ty, d, false)), b(self.gen_expr(rng, ty, d, false))),
                _ => {
                    let t = *rng.pick(&[Ty::I64, Ty::I32]);
                    X::Cast(Ty::Str, false, b(self.gen_expr(rng, t, d, strict)))
                }
            },
            Ty::Bool => match rng.below(14) {
                0 => self.leaf(rng, ty),
                1 | 2 | 3 => {
                    let t = self.any_ty(rng);
                    let op = if t == Ty::Bool { *rng.pick(&[Op::Eq, Op::Ne]) } else { *rng.pick(&[Op::Eq, Op::Ne, Op::Lt, Op::Le, Op::Gt, Op::Ge]) };
                    X::Bin(op, b(self.gen_expr(rng, t, d, strict)), b(self.gen_expr(rng, t, d, strict)))
                }
                4 => X::Bin(Op::And, b(self.gen_expr(rng, ty, d, false)), b(self.gen_expr(rng, ty, d, false))),
                5 => X::Bin(Op::Or, b(self.gen_expr(rng, ty, d, false)), b(self.gen_expr(rng, ty, d, false))),
                6 => X::Not(b(self.gen_expr(rng, ty, d, strict))),
                7 => {
                    let t = self.any_ty(rng);
                    X::Is("null", rng.chance(1, 2), b(self.gen_expr(rng, t, d, strict)))
                }
                8 => X::Is(*rng.pick(&["true", "false", "unknown"]), rng.chance(1, 2), b(self.gen_expr(rng, Ty::Bool, d, strict))),
                9 => {
                    let t = *rng.pick(&[Ty::I64, Ty::I32, Ty::Str]);
                    let n = 1 + rng.below(3) as usize;
                    let l = (0..n).map(|_| if rng.chance(1, 3) { self.gen_expr(rng, t, 0, false) } else { self.lit(rng, t) }).collect();
                    X::In(false, b(self.gen_expr(rng, t, d, false)), l)
                }
                10 => {
                    let t = *rng.pick(&[Ty::I64, Ty::I32, Ty::Str]);
                    X::Between(rng.chance(1, 4), b(self.gen_expr(rng, t, d, false)), b(self.gen_expr(rng, t, 0, false)), b(self.gen_expr(rng, t, 0, false)))
                }
                11 => {
                    let pat = *rng.pick(&["a%", "%b%", "_", "a_", "%", "", "A%", "%2", "a\\%"]);
                    let pat = if pat.contains('\\') { "ab" } else { pat };
                    X::Like(rng.chance(1, 4), rng.chance(1, 3), b(self.gen_expr(rng, Ty::Str, d, false)), b(X::Lit(V::Str(pat.into()), Ty::Str)))
                }
                12 => {
                    let t = self.any_ty(rng);
                    X::Bin(*rng.pick(&[Op::Distinct, Op::NotDistinct]), b(self.gen_expr(rng, t, d, strict)), b(self.gen_expr(rng, t, d, strict)))
                }
                _ => self.case(rng, ty, d),
            },
        }
    }
    fn case(&self, rng: &mut Rng, ty: Ty, d: u32) -> X {
        let n = 1 + rng.below(2) as usize;
        let els = if rng.chance(2, 3) { Some(Box::new(self.gen_expr(rng, ty, d, false))) } else { None };
        if rng.chance(1, 3) {
            let t = *rng.pick(&[Ty::I64, Ty::Str]);
            let o = self.gen_expr(rng, t, d, false);
            let ws = (0..n).map(|_| (self.gen_expr(rng, t, 0, false), self.gen_expr(rng, ty, d, false))).collect();
            X::Case(Some(Box::new(o)), ws, els)
        } else {
            let ws = (0..n).map(|_| (self.gen_expr(rng, Ty::Bool, d, false), self.gen_expr(rng, ty, d, false))).collect();
            X::Case(None, ws, els)
        }
    }
}

/// map an engine error to the protocol's class
pub fn err_class(msg: &str) -> &'static str {
    let m = msg.to_lowercase();
    if m.contains("divide by zero") {
        "err:div0"
    } else if m.contains("overflow") {
        "err:overflow"
    } else if m.contains("cast error") || m.contains("cannot cast") || m.contains("can't cast") || m.contains("cannot parse") {
        "err:cast"
    } else if m.contains("resources exhausted") {
        "err:resources"
    } else if m.contains("error during planning") || m.contains("schema error") || m.contains("sql parser error") || m.contains("this feature is not implemented") || m.contains("optimizer rule") || m.contains("internal error") {
        "err:plan"
    } else {
        "err:other"
    }
}
