//! C31 — dynamic filters never remove rows that contribute to the result.
//!
//! (a) `DynamicFilterPhysicalExpr` driven directly:
//!     * sequential histories of update / mark_complete / current() on several derived handles
//!       (`with_new_children`) vs the Lean state machine (op `dyn`, equality);
//!     * 3 threads hammering update()/current(): every `current()` must return the remap of ONE
//!       published expression whose generation is not older than the generation observed before
//!       the call, and generations observed by a thread never decrease (implementation-level oracle).
//! (b,c) queries over partitioned MemTables, all join types (both NULL-equalities, 1–2 keys,
//!     optional residual filter) and ORDER BY … LIMIT k, executed with
//!     `enable_dynamic_filter_pushdown` on and off: same rows (implementation-level oracle).
//!     After a run with pushdown ON the join's `dynamic_filter_expr().current()` is evaluated on
//!     ALL probe-side rows: every probe row that is key-equal to a build row must pass
//!     (oracle, and the Lean judge `maskok`); the join-type gate is compared with the Lean table
//!     (op `gate`): a filter may only ever be installed for gated join types.
use std::collections::BTreeSet;
use std::sync::Arc;

use arrow::array::{Array, ArrayRef, BooleanArray, Int64Array, RecordBatch};
use arrow::datatypes::{DataType, Field, Schema, SchemaRef};
use datafusion::datasource::MemTable;
use datafusion::physical_plan::{ExecutionPlan, collect};
use datafusion::prelude::{ParquetReadOptions, SessionConfig, SessionContext};
use datafusion_common::{JoinType, NullEquality, ScalarValue};
use datafusion_expr::Operator;
use datafusion_physical_expr::PhysicalExpr;
use datafusion_physical_expr::expressions::{BinaryExpr, Column, DynamicFilterPhysicalExpr, Literal, lit};
use datafusion_physical_plan::joins::HashJoinExec;
use hutil::{Args, Rng, Run};

// ------------------------------------------------------------------------------------ (a)
fn mk_filter(e0: i64) -> Arc<DynamicFilterPhysicalExpr> {
    let a: Arc<dyn PhysicalExpr> = Arc::new(Column::new("a", 0));
    let inner: Arc<dyn PhysicalExpr> = Arc::new(BinaryExpr::new(a.clone(), Operator::Gt, lit(e0)));
    Arc::new(DynamicFilterPhysicalExpr::new(vec![a], inner))
}
fn payload(e: i64) -> Arc<dyn PhysicalExpr> {
    let a: Arc<dyn PhysicalExpr> = Arc::new(Column::new("a", 0));
    Arc::new(BinaryExpr::new(a, Operator::Gt, lit(e)))
}
fn derive(f: &Arc<DynamicFilterPhysicalExpr>, h: usize) -> Arc<dyn PhysicalExpr> {
    let c: Arc<dyn PhysicalExpr> = Arc::new(Column::new(&format!("c{h}"), h + 1));
    (f.clone() as Arc<dyn PhysicalExpr>).with_new_children(vec![c]).unwrap()
}
/// decode `c<h>@<h+1> > e` into `1000*(h+1)+e` (the model's `remapOf h e`); `a@0 > e` decodes to `e`
fn decode(e: &Arc<dyn PhysicalExpr>) -> Result<i64, String> {
    let b = e.downcast_ref::<BinaryExpr>().ok_or_else(|| format!("not a binary expr: {e}"))?;
    let col = b.left().downcast_ref::<Column>().ok_or_else(|| format!("left is not a column: {e}"))?;
    let l = b.right().downcast_ref::<Literal>().ok_or_else(|| format!("right is not a literal: {e}"))?;
    match l.value() {
        ScalarValue::Int64(Some(v)) => Ok(1000 * col.index() as i64 + v),
        v => Err(format!("unexpected literal {v}")),
    }
}
fn current_of(h: &Arc<dyn PhysicalExpr>) -> Result<i64, String> {
    let d = h.downcast_ref::<DynamicFilterPhysicalExpr>().ok_or("not a dynamic filter")?;
    let c = d.current().map_err(|e| e.to_string())?;
    decode(&c)
}

fn sequential(run: &mut Run, rng: &mut Rng) {
    let n = run.budget(400, 12_000);
    for _ in 0..n {
        let e0 = rng.range(0, 99);
        let nh = 1 + rng.below(3) as usize;
        let f = mk_filter(e0);
        let handles: Vec<Arc<dyn PhysicalExpr>> = (0..nh).map(|h| derive(&f, h)).collect();
        let len = 3 + rng.below(if run.thorough() { 30 } else { 12 });
        let mut req = format!("({e0} {nh}");
        let mut ans = vec![];
        let mut kinds = BTreeSet::new();
        for _ in 0..len {
            match rng.below(10) {
                0..=3 => {
                    let e = rng.range(0, 99);
                    f.update(payload(e)).unwrap();
                    req.push_str(&format!(" (u {e})"));
                    ans.push(format!("u:{}", f.snapshot_generation()));
                    kinds.insert("update");
                }
                4 => {
                    f.mark_complete();
                    req.push_str(" (c)");
                    ans.push("c".into());
                    kinds.insert("complete");
                }
                _ => {
                    let h = rng.below(nh as u64) as usize;
                    let g0 = handles[h].snapshot_generation();
                    let r = current_of(&handles[h]);
                    req.push_str(&format!(" (cur {h})"));
                    ans.push(match r {
                        Ok(v) => format!("{v}@{g0}"),
                        Err(e) => format!("err:{e}"),
                    });
                    kinds.insert("current");
                }
            }
        }
        req.push(')');
        run.count("dyn_sequential");
        run.case("dyn", &req, &ans.join(" "), kinds.len() >= 2);
    }
}

fn concurrent(run: &mut Run, rng: &mut Rng) {
    let rounds = run.budget(25, 400);
    for round in 0..rounds {
        let f = mk_filter(0);
        let handle = derive(&f, 0);
        let updates = 200 + rng.below(300) as i64;
        let readers = 2usize;
        let mut ths = vec![];
        let fw = f.clone();
        let writer = std::thread::spawn(move || {
            for e in 1..=updates {
                fw.update(payload(e)).unwrap();
                if e % 7 == 0 {
                    std::thread::yield_now();
                }
            }
        });
        for _ in 0..readers {
            let h = handle.clone();
            ths.push(std::thread::spawn(move || -> Result<u64, String> {
                // payload e was published as generation e+1 (e0=0 is generation 1)
                let mut last_gen_seen = 0u64;
                let mut n = 0u64;
                loop {
                    let g_before = h.snapshot_generation();
                    let v = current_of(&h)?;
                    let g_after = h.snapshot_generation();
                    let e = v - 1000;
                    let g = (e + 1) as u64;
                    if e < 0 || v / 1000 != 1 {
                        return Err(format!("current() returned an expression that was never published: {v}"));
                    }
                    if g < g_before {
                        return Err(format!("current() returned generation {g}, older than generation {g_before} visible before the call"));
                    }
                    if g > g_after {
                        return Err(format!("current() returned generation {g} newer than generation {g_after} visible after the call"));
                    }
                    if g_before < last_gen_seen {
                        return Err(format!("generation went backwards: {last_gen_seen} then {g_before}"));
                    }
                    last_gen_seen = g_after;
                    n += 1;
                    if g_after as i64 > updates {
                        return Ok(n);
                    }
                }
            }));
        }
        writer.join().unwrap();
        for (i, t) in ths.into_iter().enumerate() {
            let r = t.join().unwrap_or_else(|_| Err("reader thread panicked".into()));
            run.count("dyn_concurrent_reader");
            run.oracle(r.is_ok(), &format!("concurrent update/current round={round} reader={i} updates={updates}"), &format!("{r:?}"));
            if let Ok(n) = r {
                run.add("dyn_concurrent_current_calls", n);
            }
        }
    }
}

// ------------------------------------------------------------------------------------ (b,c)
type Row = Vec<Option<i64>>;

fn table(names: [&str; 3], rows: &[Row], parts: usize, rng: &mut Rng) -> (SchemaRef, Vec<Vec<RecordBatch>>) {
    let schema = Arc::new(Schema::new(names.iter().map(|n| Field::new(*n, DataType::Int64, true)).collect::<Vec<_>>()));
    let mut ps: Vec<Vec<Vec<Row>>> = vec![vec![]; parts];
    let mut i = 0;
    while i < rows.len() {
        let k = 1 + rng.below(3) as usize;
        let end = (i + k).min(rows.len());
        let p = rng.below(parts as u64) as usize;
        ps[p].push(rows[i..end].to_vec());
        i = end;
    }
    let batches = ps
        .iter()
        .map(|p| {
            p.iter()
                .map(|b| {
                    let cols: Vec<ArrayRef> = (0..3).map(|c| Arc::new(b.iter().map(|r| r[c]).collect::<Int64Array>()) as ArrayRef).collect();
                    RecordBatch::try_new(schema.clone(), cols).unwrap()
                })
                .collect()
        })
        .collect();
    (schema, batches)
}

/// write one parquet file per non-empty partition (one empty file if the table is empty)
fn write_parquet_dir(dir: &std::path::Path, schema: &SchemaRef, parts: &[Vec<RecordBatch>]) {
    std::fs::create_dir_all(dir).unwrap();
    let mut written = 0;
    for (i, p) in parts.iter().enumerate() {
        if p.iter().all(|b| b.num_rows() == 0) {
            continue;
        }
        let f = std::fs::File::create(dir.join(format!("part-{i}.parquet"))).unwrap();
        let mut w = parquet::arrow::ArrowWriter::try_new(f, schema.clone(), None).unwrap();
        for b in p {
            w.write(b).unwrap();
        }
        w.close().unwrap();
        written += 1;
    }
    if written == 0 {
        let f = std::fs::File::create(dir.join("part-0.parquet")).unwrap();
        let w = parquet::arrow::ArrowWriter::try_new(f, schema.clone(), None).unwrap();
        w.close().unwrap();
    }
}

fn gen_rows(rng: &mut Rng, max: u64, wide: bool) -> Vec<Row> {
    let n = rng.below(max + 1) as usize;
    let keys: &[Option<i64>] = if wide { &[None, Some(0), Some(1), Some(1), Some(2), Some(5), Some(9), Some(40)] } else { &[None, Some(0), Some(1), Some(1), Some(2)] };
    let pay = [None, Some(0), Some(1), Some(2), Some(3)];
    (0..n).map(|_| vec![*rng.pick(keys), *rng.pick(keys), *rng.pick(&pay)]).collect()
}

fn ctx(pushdown: bool, parts: usize, batch: usize, rng_cfg: (u64, u64)) -> SessionContext {
    let mut cfg = SessionConfig::new().with_target_partitions(parts).with_batch_size(batch);
    let o = cfg.options_mut();
    o.optimizer.enable_dynamic_filter_pushdown = pushdown;
    o.optimizer.enable_join_dynamic_filter_pushdown = pushdown;
    o.optimizer.enable_topk_dynamic_filter_pushdown = pushdown;
    o.optimizer.enable_aggregate_dynamic_filter_pushdown = pushdown;
    // row-level filter pushdown into parquet scans: the scan is then a real consumer of dynamic filters
    o.execution.parquet.pushdown_filters = true;
    // force small / large thresholds so that both IN-list and hash-lookup filters occur
    o.optimizer.hash_join_inlist_pushdown_max_size = if rng_cfg.0 == 0 { 0 } else { 128 * 1024 };
    o.optimizer.hash_join_inlist_pushdown_max_distinct_values = if rng_cfg.1 == 0 { 1 } else { 150 };
    // keep collect-left vs partitioned both reachable
    o.optimizer.hash_join_single_partition_threshold = if rng_cfg.0 + rng_cfg.1 == 1 { 0 } else { 1024 * 1024 };
    o.optimizer.hash_join_single_partition_threshold_rows = if rng_cfg.0 + rng_cfg.1 == 1 { 0 } else { 128 * 1024 };
    SessionContext::new_with_config(cfg)
}

fn show_batches(bs: &[RecordBatch]) -> Vec<String> {
    let mut out = vec![];
    for b in bs {
        for r in 0..b.num_rows() {
            let cells: Vec<String> = b
                .columns()
                .iter()
                .map(|c| {
                    if c.is_null(r) {
                        "N".to_string()
                    } else if let Some(a) = c.as_any().downcast_ref::<Int64Array>() {
                        a.value(r).to_string()
                    } else if let Some(a) = c.as_any().downcast_ref::<BooleanArray>() {
                        (a.value(r) as i64).to_string()
                    } else {
                        format!("?{}", c.data_type())
                    }
                })
                .collect();
            out.push(cells.join(","));
        }
    }
    out
}

fn find_hash_joins(p: &Arc<dyn ExecutionPlan>, out: &mut Vec<Arc<dyn ExecutionPlan>>) {
    if p.downcast_ref::<HashJoinExec>().is_some() {
        out.push(p.clone());
    }
    for c in p.children() {
        find_hash_joins(c, out);
    }
}

fn plan_mentions_dynamic_filter(p: &Arc<dyn ExecutionPlan>) -> bool {
    let s = datafusion::physical_plan::displayable(p.as_ref()).indent(false).to_string();
    s.contains("DynamicFilter")
}

/// all rows of the base table whose columns make up `schema`, as one batch in that schema
fn base_batch(schema: &SchemaRef, l: &[Row], r: &[Row]) -> Option<RecordBatch> {
    let lnames = ["l_a", "l_b", "l_x"];
    let rnames = ["r_c", "r_d", "r_y"];
    let first = schema.fields().first()?.name().clone();
    let (rows, names) = if lnames.contains(&first.as_str()) { (l, lnames) } else if rnames.contains(&first.as_str()) { (r, rnames) } else { return None };
    let mut cols: Vec<ArrayRef> = vec![];
    for f in schema.fields() {
        let idx = names.iter().position(|n| n == f.name())?;
        cols.push(Arc::new(rows.iter().map(|row| row[idx]).collect::<Int64Array>()));
    }
    let plain = Arc::new(Schema::new(schema.fields().iter().map(|f| Field::new(f.name(), DataType::Int64, true)).collect::<Vec<_>>()));
    RecordBatch::try_new(plain, cols).ok()
}

fn key_sexp(b: &RecordBatch, cols: &[usize]) -> String {
    let mut s = String::from("(");
    for r in 0..b.num_rows() {
        s.push('(');
        for (j, c) in cols.iter().enumerate() {
            if j > 0 {
                s.push(' ');
            }
            let a = b.column(*c).as_any().downcast_ref::<Int64Array>().unwrap();
            if a.is_null(r) { s.push('N') } else { s.push_str(&a.value(r).to_string()) }
        }
        s.push(')');
        if r + 1 < b.num_rows() {
            s.push(' ');
        }
    }
    s.push(')');
    s
}

fn keys_of(b: &RecordBatch, cols: &[usize], r: usize) -> Vec<Option<i64>> {
    cols.iter()
        .map(|c| {
            let a = b.column(*c).as_any().downcast_ref::<Int64Array>().unwrap();
            if a.is_null(r) { None } else { Some(a.value(r)) }
        })
        .collect()
}

fn queries(run: &mut Run, rng: &mut Rng) {
    let rt = tokio::runtime::Builder::new_multi_thread().worker_threads(3).enable_all().build().unwrap();
    let n = run.budget(250, 4000);
    let join_kinds = ["JOIN", "LEFT JOIN", "RIGHT JOIN", "FULL JOIN", "LEFT SEMI JOIN", "RIGHT SEMI JOIN", "LEFT ANTI JOIN", "RIGHT ANTI JOIN", "MARK"];
    for (jt, name) in [
        (JoinType::Inner, "Inner"),
        (JoinType::Left, "Left"),
        (JoinType::Right, "Right"),
        (JoinType::Full, "Full"),
        (JoinType::LeftSemi, "LeftSemi"),
        (JoinType::RightSemi, "RightSemi"),
        (JoinType::LeftAnti, "LeftAnti"),
        (JoinType::RightAnti, "RightAnti"),
        (JoinType::LeftMark, "LeftMark"),
        (JoinType::RightMark, "RightMark"),
    ] {
        // the gate table: `on_lr_is_preserved().1`
        run.case("gate", name, if jt.on_lr_is_preserved().1 { "t" } else { "f" }, true);
    }
    for it in 0..n {
        let wide = rng.chance(1, 2);
        let mut l = gen_rows(rng, if wide { 12 } else { 6 }, wide);
        let mut r = gen_rows(rng, if wide { 12 } else { 6 }, wide);
        // a third of the inputs carry NULLs only in the SECOND key column (the leading key is NULL-free)
        if rng.chance(1, 3) {
            for row in l.iter_mut().chain(r.iter_mut()) {
                if row[0].is_none() {
                    row[0] = Some(1);
                }
                if rng.chance(1, 3) {
                    row[1] = None;
                }
            }
            run.count("inputs_with_nulls_only_in_second_key");
        } else if rng.chance(1, 3) {
            // NULL-heavy leading key: a TopK boundary row then has NULL in a non-last sort key
            for row in l.iter_mut().chain(r.iter_mut()) {
                if rng.chance(2, 3) {
                    row[0] = None;
                }
            }
            run.count("inputs_with_null_heavy_leading_key");
        }
        let lparts = 1 + rng.below(3) as usize;
        let rparts = 1 + rng.below(3) as usize;
        let (ls, lb) = table(["l_a", "l_b", "l_x"], &l, lparts, rng);
        let (rs, rb) = table(["r_c", "r_d", "r_y"], &r, rparts, rng);
        let parts = 1 + rng.below(4) as usize;
        let batch = *rng.pick(&[1usize, 2, 8192]);
        let rc = (rng.below(2), rng.below(2));
        // source: partitioned MemTables, or parquet files (whose scans consume dynamic filters)
        let use_parquet = rng.chance(2, 3);
        run.count(if use_parquet { "source_parquet" } else { "source_memtable" });
        let tmp = tempfile::tempdir().unwrap();
        if use_parquet {
            write_parquet_dir(&tmp.path().join("l"), &ls, &lb);
            write_parquet_dir(&tmp.path().join("r"), &rs, &rb);
        }
        // ---------------- the query
        let is_topk = rng.chance(1, 4);
        let mut topk_ref: Option<Vec<String>> = None;
        let sql = if is_topk {
            let k = if rng.chance(1, 2) { rng.below(5) } else { rng.below(13) };
            let (dir, nulls) = (*rng.pick(&["ASC", "DESC"]), *rng.pick(&["NULLS FIRST", "NULLS LAST"]));
            let tbl = if rng.chance(1, 2) { ("l", "l_a", "l_b", "l_x") } else { ("r", "r_c", "r_d", "r_y") };
            // reference: full sort of the table by (key1, key2, payload) in the requested direction, first k rows
            {
                let mut rows: Vec<Row> = if tbl.0 == "l" { l.clone() } else { r.clone() };
                let (desc, nf) = (dir == "DESC", nulls == "NULLS FIRST");
                let cmp1 = |a: &Option<i64>, b: &Option<i64>| match (a, b) {
                    (None, None) => std::cmp::Ordering::Equal,
                    (None, Some(_)) => if nf { std::cmp::Ordering::Less } else { std::cmp::Ordering::Greater },
                    (Some(_), None) => if nf { std::cmp::Ordering::Greater } else { std::cmp::Ordering::Less },
                    (Some(x), Some(y)) => if desc { y.cmp(x) } else { x.cmp(y) },
                };
                rows.sort_by(|a, b| cmp1(&a[0], &b[0]).then(cmp1(&a[1], &b[1])).then(cmp1(&a[2], &b[2])));
                rows.truncate(k as usize);
                let mut shown: Vec<String> = rows.iter().map(|r| r.iter().map(|c| c.map(|v| v.to_string()).unwrap_or_else(|| "N".into())).collect::<Vec<_>>().join(",")).collect();
                shown.sort();
                topk_ref = Some(shown);
            }
            run.count("query_topk");
            // a trivially true WHERE gives the plan a FilterExec that can take the dynamic filter
            format!(
                "SELECT {1}, {2}, {3} FROM {0} WHERE {3} >= 0 OR {3} IS NULL OR {1} IS NOT NULL ORDER BY {1} {dir} {nulls}, {2} {dir} {nulls}, {3} {dir} {nulls} LIMIT {k}",
                tbl.0, tbl.1, tbl.2, tbl.3
            )
        } else {
            let kind = *rng.pick(&join_kinds);
            let ne = rng.chance(1, 2);
            let eq = if ne { "IS NOT DISTINCT FROM" } else { "=" };
            let nkeys = 1 + rng.below(2);
            let mut on = format!("(l_a {eq} r_c)");
            if nkeys == 2 {
                on.push_str(&format!(" AND (l_b {eq} r_d)"));
            }
            if rng.chance(1, 3) {
                on.push_str(" AND (l_x < r_y)");
            }
            run.count(&format!("query_{}", kind.replace(' ', "_")));
            let lsub = "(SELECT * FROM l WHERE l_x >= 0 OR l_x IS NULL OR l_a IS NOT NULL) l";
            let rsub = "(SELECT * FROM r WHERE r_y >= 0 OR r_y IS NULL OR r_c IS NOT NULL) r";
            if kind == "MARK" {
                format!("SELECT l_a, l_b, l_x FROM {lsub} WHERE l_x = 1 OR EXISTS (SELECT 1 FROM {rsub} WHERE {on})")
            } else {
                format!("SELECT * FROM {lsub} {kind} {rsub} ON {on}")
            }
        };
        // ---------------- run with pushdown off / on
        let mut results: Vec<Result<Vec<String>, String>> = vec![];
        let mut on_plan: Option<Arc<dyn ExecutionPlan>> = None;
        for pushdown in [false, true] {
            let c = ctx(pushdown, parts, batch, rc);
            if !use_parquet {
                c.register_table("l", Arc::new(MemTable::try_new(ls.clone(), lb.clone()).unwrap())).unwrap();
                c.register_table("r", Arc::new(MemTable::try_new(rs.clone(), rb.clone()).unwrap())).unwrap();
            }
            let res: Result<(Vec<String>, Arc<dyn ExecutionPlan>), String> = rt.block_on(async {
                if use_parquet {
                    c.register_parquet("l", tmp.path().join("l").to_str().unwrap(), ParquetReadOptions::default()).await.map_err(|e| format!("register:{e}"))?;
                    c.register_parquet("r", tmp.path().join("r").to_str().unwrap(), ParquetReadOptions::default()).await.map_err(|e| format!("register:{e}"))?;
                }
                let df = c.sql(&sql).await.map_err(|e| format!("plan:{e}"))?;
                let plan = df.create_physical_plan().await.map_err(|e| format!("plan:{e}"))?;
                let out = tokio::time::timeout(std::time::Duration::from_secs(30), collect(plan.clone(), c.task_ctx()))
                    .await
                    .map_err(|_| "hang".to_string())?
                    .map_err(|e| format!("exec:{e}"))?;
                let mut rows = show_batches(&out);
                rows.sort();
                Ok((rows, plan))
            });
            match res {
                Ok((rows, plan)) => {
                    if pushdown {
                        if std::env::var("C31_DEBUG").is_ok() && it < 12 {
                            eprintln!("{sql}\n{}", datafusion::physical_plan::displayable(plan.as_ref()).indent(false));
                        }
                        if plan_mentions_dynamic_filter(&plan) {
                            run.count(if is_topk { "topk_plan_has_dynamic_filter" } else { "join_plan_has_dynamic_filter" });
                        }
                        on_plan = Some(plan);
                    }
                    results.push(Ok(rows));
                }
                Err(e) => results.push(Err(e)),
            }
        }
        let sig_in = format!("source={} sql=`{sql}` l={l:?} r={r:?} lparts={lparts} rparts={rparts} target_partitions={parts} batch_size={batch} inlist_cfg={rc:?}", if use_parquet { "parquet" } else { "memtable" });
        // ORDER BY over all three columns: the first k rows are determined as a multiset
        if let Some(want) = &topk_ref {
            for (which, res) in ["off", "on"].iter().zip(&results) {
                if let Ok(got) = res {
                    run.oracle(got == want, &format!("TopK result differs from the full sort (pushdown {which}): {sig_in}"), &format!("iteration {it}: want={want:?} got={got:?}"));
                }
            }
        }
        let same = results[0] == results[1] && results[0].is_ok();
        run.oracle(
            same,
            &format!("dynamic filter pushdown on/off differ: {sig_in}"),
            &format!("iteration {it}: off={:?} on={:?}", results[0], results[1]),
        );
        // ---------------- the installed join filter must keep every key-equal probe row
        if let (false, Some(plan)) = (is_topk, on_plan) {
            let mut joins = vec![];
            find_hash_joins(&plan, &mut joins);
            for j in joins {
                let hj = j.downcast_ref::<HashJoinExec>().unwrap();
                let gated = hj.join_type().on_lr_is_preserved().1;
                let Some(df) = hj.dynamic_filter_expr() else {
                    run.count("join_without_dynamic_filter");
                    continue;
                };
                let cur = match df.current() {
                    Ok(c) => c,
                    Err(_) => continue,
                };
                let trivial = cur.downcast_ref::<Literal>().is_some();
                run.count(if trivial { "join_filter_still_placeholder" } else { "join_filter_published" });
                // a non-trivial filter may only exist for gated join types
                run.oracle(
                    trivial || gated,
                    &format!("dynamic filter installed for non-gated join type {:?}: {sig_in}", hj.join_type()),
                    &format!("filter = {cur}"),
                );
                let (Some(bb), Some(pb)) = (base_batch(&hj.left().schema(), &l, &r), base_batch(&hj.right().schema(), &l, &r)) else {
                    run.count("join_sides_not_base_tables");
                    continue;
                };
                let col_idx = |e: &Arc<dyn PhysicalExpr>| e.downcast_ref::<Column>().map(|c| c.index());
                let bk: Option<Vec<usize>> = hj.on().iter().map(|(le, _)| col_idx(le)).collect();
                let pk: Option<Vec<usize>> = hj.on().iter().map(|(_, re)| col_idx(re)).collect();
                let (Some(bk), Some(pk)) = (bk, pk) else { continue };
                let mask: Vec<bool> = match cur.evaluate(&pb).and_then(|v| v.into_array(pb.num_rows())) {
                    Ok(a) => {
                        let b = a.as_any().downcast_ref::<BooleanArray>().unwrap();
                        (0..b.len()).map(|i| b.is_valid(i) && b.value(i)).collect()
                    }
                    Err(e) => {
                        run.note(&format!("could not evaluate the published filter `{cur}`: {e}"));
                        continue;
                    }
                };
                let ne = hj.null_equality() == NullEquality::NullEqualsNull;
                let key_eq = |a: &[Option<i64>], b: &[Option<i64>]| a.iter().zip(b).all(|(x, y)| match (x, y) {
                    (Some(x), Some(y)) => x == y,
                    (None, None) => ne,
                    _ => false,
                });
                let mut ok = true;
                let mut bad = String::new();
                for pr in 0..pb.num_rows() {
                    let k = keys_of(&pb, &pk, pr);
                    let has_match = (0..bb.num_rows()).any(|br| key_eq(&keys_of(&bb, &bk, br), &k));
                    if has_match && !mask[pr] {
                        ok = false;
                        bad = format!("probe row {pr} with key {k:?} has a key-equal build row but is rejected by `{cur}`");
                        break;
                    }
                }
                run.oracle(ok, &format!("published join filter rejects a matching probe row: {sig_in}"), &bad);
                let mstr: String = mask.iter().map(|b| if *b { '1' } else { '0' }).collect();
                let nontrivial = !trivial && mask.iter().any(|b| !*b);
                if nontrivial {
                    run.count("join_filter_rejects_some_probe_rows");
                }
                run.case("maskok", &format!("({} {} {} {})", if ne { "t" } else { "f" }, key_sexp(&bb, &bk), key_sexp(&pb, &pk), if mstr.is_empty() { "-".into() } else { mstr }), "ok", nontrivial);
            }
        }
    }
}

fn topk_model(run: &mut Run, rng: &mut Rng) {
    // the model's filtered TopK equals the real `ORDER BY x LIMIT k` keys (sanity tie of `runPlain`)
    let n = run.budget(200, 5000);
    for _ in 0..n {
        let k = rng.below(5) as usize;
        let rows: Vec<i64> = (0..rng.below(9)).map(|_| rng.range(-3, 6)).collect();
        let picks: Vec<String> = rows.iter().map(|_| if rng.chance(1, 3) { "none".to_string() } else { rng.below(6).to_string() }).collect();
        let mut s = rows.clone();
        s.sort();
        s.truncate(k);
        run.count("topk_model");
        run.case(
            "topk",
            &format!("({k} ({}) ({}))", rows.iter().map(|x| x.to_string()).collect::<Vec<_>>().join(" "), picks.join(" ")),
            &format!("({})", s.iter().map(|x| x.to_string()).collect::<Vec<_>>().join(" ")),
            k > 0 && rows.len() > k,
        );
    }
}

pub fn run(run: &mut Run, args: &Args) {
    hutil::quiet_panics();
    let mut rng = Rng::new(args.seed);
    sequential(run, &mut rng);
    concurrent(run, &mut rng);
    topk_model(run, &mut rng);
    queries(run, &mut rng);
}
