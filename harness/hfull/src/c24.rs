//! C24 — Parquet scans with pruning and pushdown return exactly the matching rows.
//!
//! Implementation-level oracle (`run.oracle`): real Parquet files written in-process (row groups of 2–7
//! rows, data pages of 1–3 rows, statistics none / chunk / page, bloom filters on/off, dictionary on/off,
//! sorted / clustered / random / NULL-heavy data, 1–2 files) × predicates of depth ≤ 3 × every combination
//! of `pushdown_filters`, `reorder_filters`, `enable_page_index`, `pruning`, `bloom_filter_on_read`
//! (all 32 in the thorough tier, a covering sample in the quick tier) × limit × projection × target
//! partitions: the result must equal "scan everything into memory + filter" (the same SQL over a
//! `MemTable` holding the file contents read with every option off).  With a LIMIT and no ORDER BY the
//! result must be a sub-multiset of the matching rows of the right size.
//! Model correspondence (`run.case`, equality): the real `parquet::arrow::arrow_reader::RowSelection`
//! (`from(Vec<RowSelector>)`, `intersection`, `and_then` incl. its panics, `split_off`, `row_count`) and the
//! real `ParquetAccessPlan::scan_selection` against the Lean selection algebra.
use std::sync::Arc;

use arrow::array::{ArrayRef, Int64Array, RecordBatch, StringArray};
use arrow::datatypes::{DataType, Field, Schema, SchemaRef};
use datafusion::datasource::MemTable;
use datafusion::prelude::{ParquetReadOptions, SessionConfig, SessionContext};
use datafusion_datasource_parquet::{ParquetAccessPlan, RowGroupAccess};
use hutil::{Args, Rng, Run};
use parquet::arrow::ArrowWriter;
use parquet::arrow::arrow_reader::{RowSelection, RowSelector};
use parquet::file::properties::{EnabledStatistics, WriterProperties};

// ------------------------------------------------------------------ (a) selection algebra vs the real crate

fn gen_sel(rng: &mut Rng, total: Option<usize>) -> Vec<(usize, bool)> {
    // runs (n, skip); optionally summing to `total`
    let mut out = vec![];
    match total {
        None => {
            let k = rng.below(6) as usize;
            for _ in 0..k {
                out.push((*rng.pick(&[0usize, 1, 1, 2, 3, 5]), rng.chance(1, 2)));
            }
        }
        Some(mut left) => {
            while left > 0 {
                let n = (1 + rng.below(4) as usize).min(left);
                if rng.chance(1, 6) {
                    out.push((0, rng.chance(1, 2)));
                }
                out.push((n, rng.chance(1, 2)));
                left -= n;
            }
        }
    }
    out
}
fn sel_sexp(s: &[(usize, bool)]) -> String {
    format!("({})", s.iter().map(|(n, k)| if *k { format!("(k {n})") } else { format!("(s {n})") }).collect::<Vec<_>>().join(" "))
}
fn to_real(s: &[(usize, bool)]) -> RowSelection {
    RowSelection::from(s.iter().map(|(n, k)| if *k { RowSelector::skip(*n) } else { RowSelector::select(*n) }).collect::<Vec<_>>())
}
fn show_real(s: &RowSelection) -> String {
    format!("({})", s.iter().map(|r| if r.skip { format!("(k {})", r.row_count) } else { format!("(s {})", r.row_count) }).collect::<Vec<_>>().join(" "))
}
/// canonical form of a real selection: rebuilt from its selectors (so a mask-backed result prints the same)
fn canon(s: &RowSelection) -> String {
    let v: Vec<RowSelector> = s.iter().cloned().collect();
    show_real(&RowSelection::from(v))
}

fn algebra_cases(run: &mut Run, rng: &mut Rng) {
    let n = run.budget(4000, 120_000);
    for _ in 0..n {
        match rng.below(5) {
            0 => {
                let a = gen_sel(rng, None);
                let r = to_real(&a);
                run.case("normalize", &sel_sexp(&a), &format!("{} rows={} skipped={}", show_real(&r), r.row_count(), r.skipped_row_count()), a.len() >= 2);
            }
            1 => {
                // same length (the way DataFusion uses it) most of the time, uneven sometimes
                let total = 1 + rng.below(12) as usize;
                let a = gen_sel(rng, Some(total));
                let b = if rng.chance(1, 5) { gen_sel(rng, None) } else { gen_sel(rng, Some(total)) };
                let r = hutil::catch(std::panic::AssertUnwindSafe(|| canon(&to_real(&a).intersection(&to_real(&b)))));
                run.case("intersection", &format!("({} {})", sel_sexp(&a), sel_sexp(&b)), &r.unwrap_or_else(|_| "panic".into()), a.len() >= 2 && b.len() >= 2);
            }
            2 => {
                let total = 1 + rng.below(12) as usize;
                let a = gen_sel(rng, Some(total));
                let selected: usize = a.iter().filter(|(_, k)| !*k).map(|(n, _)| *n).sum();
                // `other` covers exactly the selected rows most of the time; too short / too long sometimes
                let extra = 1 + rng.below(3) as usize;
                let b = match rng.below(6) {
                    0 => gen_sel(rng, Some(selected + extra)),
                    1 if selected > 0 => gen_sel(rng, Some(selected - 1)),
                    _ => gen_sel(rng, Some(selected)),
                };
                let r = hutil::catch(std::panic::AssertUnwindSafe(|| canon(&to_real(&a).and_then(&to_real(&b)))));
                let panicked = r.is_err();
                run.count(if panicked { "and_then_panic" } else { "and_then_ok" });
                run.case("and_then", &format!("({} {})", sel_sexp(&a), sel_sexp(&b)), &r.unwrap_or_else(|_| "panic".into()), a.len() >= 2);
            }
            3 => {
                let a = gen_sel(rng, None);
                let total: usize = a.iter().map(|(n, _)| *n).sum();
                let n = rng.below(total as u64 + 3) as usize;
                let mut r = to_real(&a);
                let head = r.split_off(n);
                run.case("split_off", &format!("({} {n})", sel_sexp(&a)), &format!("{} {}", canon(&head), canon(&r)), a.len() >= 2 && n > 0 && n < total);
            }
            _ => {
                let total = 1 + rng.below(10) as usize;
                let s = gen_sel(rng, Some(total));
                let (acc_s, acc) = match rng.below(3) {
                    0 => ("skip".to_string(), RowGroupAccess::Skip),
                    1 => ("scan".to_string(), RowGroupAccess::Scan),
                    _ => {
                        let e = gen_sel(rng, Some(total));
                        (format!("(sel {})", sel_sexp(&e)), RowGroupAccess::Selection(to_real(&e)))
                    }
                };
                let mut plan = ParquetAccessPlan::new(vec![acc]);
                plan.scan_selection(0, to_real(&s));
                let got = match &plan.inner()[0] {
                    RowGroupAccess::Skip => "skip".to_string(),
                    RowGroupAccess::Scan => "scan".to_string(),
                    RowGroupAccess::Selection(x) => format!("(sel {})", canon(x)),
                };
                run.case("scan_selection", &format!("({acc_s} {})", sel_sexp(&s)), &got, true);
            }
        }
    }
}

// ------------------------------------------------------------------ (b) real scans

fn schema() -> SchemaRef {
    Arc::new(Schema::new(vec![
        Field::new("a", DataType::Int64, false),
        Field::new("b", DataType::Int64, true),
        Field::new("s", DataType::Utf8, true),
    ]))
}

struct FileSpec {
    rows: Vec<(i64, Option<i64>, Option<String>)>,
    rg: usize,
    page: usize,
    stats: EnabledStatistics,
    bloom: bool,
    dict: bool,
    layout: &'static str,
}

fn gen_file(rng: &mut Rng) -> FileSpec {
    let n = *rng.pick(&[0usize, 1, 6, 13, 24, 40]);
    let layout = *rng.pick(&["sorted", "clustered", "random", "nullheavy", "constant"]);
    let mut rows = vec![];
    for i in 0..n {
        let a = match layout {
            "sorted" => i as i64,
            "clustered" => (i / 5) as i64 * 10 + rng.range(0, 2),
            "constant" => 7,
            _ => rng.range(0, 30),
        };
        let nullp = if layout == "nullheavy" { 2 } else { 6 };
        let b = if rng.chance(1, nullp) { None } else { Some(if layout == "sorted" { 100 - i as i64 } else { rng.range(-5, 12) }) };
        let s = if rng.chance(1, nullp) { None } else { Some(format!("{}{}", ["ab", "ac", "b", "zz", ""][rng.below(5) as usize], rng.below(3))) };
        rows.push((a, b, s));
    }
    FileSpec {
        rows,
        rg: *rng.pick(&[2usize, 3, 5, 7, 1000]),
        page: *rng.pick(&[1usize, 2, 3, 1000]),
        stats: *rng.pick(&[EnabledStatistics::None, EnabledStatistics::Chunk, EnabledStatistics::Page, EnabledStatistics::Page]),
        bloom: rng.chance(1, 2),
        dict: rng.chance(1, 2),
        layout,
    }
}

fn write_file(path: &std::path::Path, f: &FileSpec) {
    let props = WriterProperties::builder()
        .set_max_row_group_size(f.rg)
        .set_data_page_row_count_limit(f.page)
        .set_write_batch_size(1)
        .set_statistics_enabled(f.stats)
        .set_bloom_filter_enabled(f.bloom)
        .set_dictionary_enabled(f.dict)
        .build();
    let file = std::fs::File::create(path).unwrap();
    let mut w = ArrowWriter::try_new(file, schema(), Some(props)).unwrap();
    let a: Int64Array = f.rows.iter().map(|r| Some(r.0)).collect();
    let b: Int64Array = f.rows.iter().map(|r| r.1).collect();
    let s: StringArray = f.rows.iter().map(|r| r.2.clone()).collect();
    let batch = RecordBatch::try_new(schema(), vec![Arc::new(a) as ArrayRef, Arc::new(b), Arc::new(s)]).unwrap();
    w.write(&batch).unwrap();
    w.close().unwrap();
}

fn gen_atom(rng: &mut Rng) -> String {
    let c = rng.range(-2, 32);
    match rng.below(14) {
        0 => format!("a = {c}"),
        1 => format!("a <> {c}"),
        2 => format!("a < {c}"),
        3 => format!("a >= {c}"),
        4 => format!("b = {}", rng.range(-6, 13)),
        5 => format!("b > {}", rng.range(-6, 13)),
        6 => "b IS NULL".to_string(),
        7 => "b IS NOT NULL".to_string(),
        8 => format!("a IN ({}, {}, {})", rng.range(0, 30), rng.range(0, 30), rng.range(0, 30)),
        9 => format!("a BETWEEN {} AND {}", c, c + rng.range(0, 8)),
        10 => format!("s = '{}{}'", ["ab", "ac", "b", "zz", ""][rng.below(5) as usize], rng.below(3)),
        11 => format!("s LIKE '{}%'", ["a", "ab", "z", "q"][rng.below(4) as usize]),
        12 => "s IS NULL".to_string(),
        _ => format!("a + b > {}", rng.range(0, 30)),
    }
}
fn gen_pred(rng: &mut Rng, depth: u32) -> String {
    if depth == 0 || rng.chance(2, 5) {
        return gen_atom(rng);
    }
    match rng.below(5) {
        0 | 1 => format!("({} AND {})", gen_pred(rng, depth - 1), gen_pred(rng, depth - 1)),
        2 | 3 => format!("({} OR {})", gen_pred(rng, depth - 1), gen_pred(rng, depth - 1)),
        _ => format!("NOT ({})", gen_pred(rng, depth - 1)),
    }
}

fn fmt_rows(bs: &[RecordBatch]) -> Vec<String> {
    use arrow::util::display::{ArrayFormatter, FormatOptions};
    let opt = FormatOptions::default().with_null("NULL");
    let mut out = vec![];
    for b in bs {
        let fs: Vec<_> = b.columns().iter().map(|c| ArrayFormatter::try_new(c.as_ref(), &opt).unwrap()).collect();
        for r in 0..b.num_rows() {
            out.push(fs.iter().map(|f| f.value(r).to_string()).collect::<Vec<_>>().join("|"));
        }
    }
    out
}

fn sub_multiset(small: &[String], big: &[String]) -> bool {
    let mut b: Vec<&String> = big.iter().collect();
    b.sort();
    let mut s: Vec<&String> = small.iter().collect();
    s.sort();
    let (mut i, mut j) = (0, 0);
    while i < s.len() && j < b.len() {
        if s[i] == b[j] {
            i += 1;
            j += 1;
        } else if s[i] > b[j] {
            j += 1;
        } else {
            return false;
        }
    }
    i == s.len()
}

fn scan_oracle(run: &mut Run, rng: &mut Rng) {
    let n_sets = run.budget(20, 80);
    let preds_per_set = run.budget(6, 12);
    let rt = tokio::runtime::Builder::new_current_thread().enable_all().build().unwrap();
    let dir = tempfile::tempdir().unwrap();
    for set in 0..n_sets {
        let nfiles = 1 + rng.below(2) as usize;
        let sub = dir.path().join(format!("set{set}"));
        std::fs::create_dir_all(&sub).unwrap();
        let mut all_rows = vec![];
        let mut desc = vec![];
        for fi in 0..nfiles {
            let f = gen_file(rng);
            write_file(&sub.join(format!("f{fi}.parquet")), &f);
            desc.push(format!("[{} rows={} rg={} page={} stats={:?} bloom={} dict={}]", f.layout, f.rows.len(), f.rg, f.page, f.stats, f.bloom, f.dict));
            run.count(&format!("layout_{}", f.layout));
            all_rows.extend(f.rows);
        }
        // reference: the same data in memory
        let a: Int64Array = all_rows.iter().map(|r| Some(r.0)).collect();
        let b: Int64Array = all_rows.iter().map(|r| r.1).collect();
        let s: StringArray = all_rows.iter().map(|r| r.2.clone()).collect();
        let mem = RecordBatch::try_new(schema(), vec![Arc::new(a) as ArrayRef, Arc::new(b), Arc::new(s)]).unwrap();
        let ref_ctx = SessionContext::new_with_config(SessionConfig::new().with_target_partitions(1).set_bool("datafusion.execution.parquet.schema_force_view_types", false));
        ref_ctx.register_table("t", Arc::new(MemTable::try_new(schema(), vec![vec![mem]]).unwrap())).unwrap();
        for _ in 0..preds_per_set {
            let pred = gen_pred(rng, 3);
            let proj = *rng.pick(&["*", "a", "s, a", "b", "count(*)"]);
            let limit = if proj != "count(*)" && rng.chance(1, 4) { Some(*rng.pick(&[0usize, 1, 3, 10])) } else { None };
            let sql_nolimit = format!("SELECT {proj} FROM t WHERE {pred}");
            let sql = match limit {
                Some(l) => format!("{sql_nolimit} LIMIT {l}"),
                None => sql_nolimit.clone(),
            };
            let want_all = match rt.block_on(async { ref_ctx.sql(&sql_nolimit).await?.collect().await }) {
                Ok(b) => {
                    let mut r = fmt_rows(&b);
                    r.sort();
                    r
                }
                Err(e) => {
                    run.count("reference_error_skipped");
                    let _ = e;
                    continue;
                }
            };
            run.count(if want_all.is_empty() { "pred_matches_none" } else if want_all.len() == all_rows.len() && proj != "count(*)" { "pred_matches_all" } else { "pred_matches_some" });
            // option combinations
            let combos: Vec<u32> = if run.thorough() { (0..32).collect() } else { vec![0b00000, 0b11111, 0b10101, 0b01010, 0b00111, 0b11000, rng.below(32) as u32, rng.below(32) as u32] };
            for c in combos {
                let (pushdown, reorder, pageidx, pruning, bloom) = (c & 1 != 0, c & 2 != 0, c & 4 != 0, c & 8 != 0, c & 16 != 0);
                let parts = *rng.pick(&[1usize, 3]);
                let cfg = SessionConfig::new()
                    .with_target_partitions(parts)
                    .with_batch_size(*rng.pick(&[2usize, 8192]))
                    .set_bool("datafusion.execution.parquet.pushdown_filters", pushdown)
                    .set_bool("datafusion.execution.parquet.reorder_filters", reorder)
                    .set_bool("datafusion.execution.parquet.enable_page_index", pageidx)
                    .set_bool("datafusion.execution.parquet.pruning", pruning)
                    .set_bool("datafusion.execution.parquet.bloom_filter_on_read", bloom)
                    .set_bool("datafusion.execution.parquet.schema_force_view_types", false);
                let ctx = SessionContext::new_with_config(cfg);
                let path = sub.to_str().unwrap().to_string();
                let got = hutil::catch(std::panic::AssertUnwindSafe(|| {
                    rt.block_on(async {
                        ctx.register_parquet("t", &path, ParquetReadOptions::default()).await?;
                        ctx.sql(&sql).await?.collect().await
                    })
                }));
                let sig = format!(
                    "scan files={} `{sql}` pushdown={pushdown} reorder={reorder} page_index={pageidx} pruning={pruning} bloom={bloom} parts={parts}",
                    desc.join("")
                );
                run.count(&format!("options_{c:05b}"));
                match got {
                    Err(p) => run.oracle(false, &format!("panic {sig}"), &p),
                    Ok(Err(e)) => {
                        let msg = e.to_string();
                        // the class of the recorded finding gets its own signature prefix
                        let class = if pushdown && msg.contains("Invalid offset in sparse column chunk data") { "error[sparse-mask-offset]" } else { "error" };
                        run.count(if class == "error" { "scan_error_other" } else { "scan_error_sparse_mask_offset" });
                        run.oracle(false, &format!("{class} {sig}"), &msg)
                    }
                    Ok(Ok(bs)) => {
                        let mut rows = fmt_rows(&bs);
                        rows.sort();
                        match limit {
                            None => {
                                let ok = rows == want_all;
                                let detail = if ok {
                                    String::new()
                                } else {
                                    let missing: Vec<&String> = want_all.iter().filter(|r| !rows.contains(r)).take(5).collect();
                                    let extra: Vec<&String> = rows.iter().filter(|r| !want_all.contains(r)).take(5).collect();
                                    format!("got {} rows, scan-all+filter gives {}; missing e.g. {missing:?}; extra e.g. {extra:?}", rows.len(), want_all.len())
                                };
                                run.oracle(ok, &format!("rows {sig}"), &detail);
                            }
                            Some(l) => {
                                let ok = rows.len() == l.min(want_all.len()) && sub_multiset(&rows, &want_all);
                                run.oracle(ok, &format!("limit-rows {sig}"), &format!("got {rows:?}; matching rows: {} ", want_all.len()));
                            }
                        }
                    }
                }
            }
        }
    }
}

/// Corpus: the minimised failing input of the finding recorded in notes/C24.md / known_findings.json.
/// One file, one row group of 8 rows, data pages of 3 rows, dictionary on, chunk-level statistics;
/// `pushdown_filters=true`, `batch_size=2`; two row filters (`a + b <= 6` over columns a,b and
/// `s NOT LIKE 'q%'` over column s) with `SELECT *`.  Rows 0 and 6 match.
fn corpus(run: &mut Run) {
    let rt = tokio::runtime::Builder::new_current_thread().enable_all().build().unwrap();
    let dir = tempfile::tempdir().unwrap();
    let a = [10i64, 16, 22, 22, 27, 29, 1, 18];
    let b = [-5i64, 11, 6, 2, 10, 10, -3, 12];
    let rows: Vec<(i64, Option<i64>, Option<String>)> = (0..8).map(|i| (a[i], Some(b[i]), Some(format!("ab{}", i % 3)))).collect();
    let f = FileSpec { rows, rg: 1000, page: 3, stats: EnabledStatistics::Chunk, bloom: false, dict: true, layout: "corpus" };
    write_file(&dir.path().join("f.parquet"), &f);
    let sql = "SELECT * FROM t WHERE a + b <= 6 AND s NOT LIKE 'q%'";
    let mut outcomes = vec![];
    for pushdown in [false, true] {
        let cfg = SessionConfig::new()
            .with_target_partitions(1)
            .with_batch_size(2)
            .set_bool("datafusion.execution.parquet.pushdown_filters", pushdown)
            .set_bool("datafusion.execution.parquet.schema_force_view_types", false);
        let ctx = SessionContext::new_with_config(cfg);
        let path = dir.path().to_str().unwrap().to_string();
        let r = rt.block_on(async {
            ctx.register_parquet("t", &path, ParquetReadOptions::default()).await?;
            ctx.sql(sql).await?.collect().await
        });
        outcomes.push(match r {
            Ok(bs) => {
                let mut rows = fmt_rows(&bs);
                rows.sort();
                Ok(rows)
            }
            Err(e) => Err(e.to_string()),
        });
    }
    let want = vec!["10|-5|ab0".to_string(), "1|-3|ab0".to_string()];
    let mut want_sorted = want.clone();
    want_sorted.sort();
    run.oracle(outcomes[0] == Ok(want_sorted.clone()), "corpus#1 pushdown_filters=false", &format!("{:?}", outcomes[0]));
    let class = match &outcomes[1] {
        Err(e) if e.contains("Invalid offset in sparse column chunk data") => "error[sparse-mask-offset] ",
        _ => "",
    };
    run.oracle(
        outcomes[1] == Ok(want_sorted),
        &format!("{class}corpus#1 pushdown_filters=true batch_size=2 page_rows=3 dict=true a={a:?} b={b:?} s=ab(i%3) `{sql}`"),
        &format!("expected rows 0 and 6, got {:?}", outcomes[1]),
    );
}

pub fn run(run: &mut Run, args: &Args) {
    hutil::quiet_panics();
    corpus(run);
    let mut rng = Rng::new(args.seed);
    algebra_cases(run, &mut rng);
    scan_oracle(run, &mut rng);
}
